/-
  C10 (round 3) — object state machines for the STATEFUL classes the property anchors:

  * `Wea` (wea.py): public state = location, enforce_on_hour, timestep, the two irradiance
    collections; setters `location`, `enforce_on_hour`, `direct_normal_irradiance`,
    `diffuse_horizontal_irradiance`, in-place item assignment on the collections; reads
    `global_horizontal_irradiance`, `direct_horizontal_irradiance`, `directional_irradiance`,
    `estimate_illuminance_components`, `filter_by_sun_up`.
  * `ASHRAEClearSky` / `ASHRAETau` held by a `DesignDay` (designday.py): public state = date,
    daylight_savings, clearness | (tau_b, tau_d, use_2017), the design day's location; reads
    `radiation_values(location)` and `DesignDay.hourly_solar_radiation`.

  The model is a PURE function of the public state the user has established: it has no hidden
  slot, no memo, and a refused operation returns the unchanged state together with an error
  output.  That is the specification the real objects are compared with step by step
  (drv_c10 ops `hwea`, `hsky`; harness/props/c10.py history layer).

  Sun positions are inputs (property C05): the environment hands the model, for every location
  the history uses and for both datetime conventions (on the hour / on the half hour), the list of
  sun (altitude, azimuth) pairs of the Wea's time steps; for a sky condition the 24 altitudes per
  (date, daylight-savings flag, location).
  No Mathlib.
-/
import Ladybug.Model.Sky

namespace Sky

/-- Error outputs of a history step. `assert` = AssertionError of a validating setter, `index` =
    IndexError, `refused` = any other rejection of the arguments before the object is touched
    (wrong type: TypeError / AttributeError), `sky e` = the exception of a sky-model formula raised
    half-way through a read. -/
inductive HErr
  | assert | index | refused | sky (e : Err)
  deriving DecidableEq, Repr

/-- Output of one step of a history. -/
inductive Out (α : Type)
  | unit
  | vals (l : List α)
  | err (e : HErr)

section Generic

variable {α : Type} [Add α] [Sub α] [Mul α] [Div α] [Neg α] [OfScientific α]
  [LT α] [LE α] [DecidableLT α] [DecidableLE α] [Transc α]

/-! ### Wea -/

/-- Sun positions per (location index, datetimes on the half hour?) — inputs of the model. -/
structure WeaEnv (α : Type) where
  nloc : Nat
  suns : Nat → Bool → List (α × α)

/-- The public state of a `Wea`. -/
structure WeaObj (α : Type) where
  loc : Nat
  enforce : Bool
  timestep : Nat
  dnr : List α
  dhr : List α

inductive WeaOp (α : Type)
  | readGhi
  | readDirH
  | readDirectional (altitude azimuth refl : α) (iso : Bool)
  | readIllum (dew : α)
  | readSunUp (minAlt : α)
  | setLocation (k : Nat)
  | setEnforce (b : Bool)
  | setDnr (vals : List α)
  | setDhr (vals : List α)
  | setDnrAt (i : Nat) (v : α)
  | setDhrAt (i : Nat) (v : α)
  | refused

/-- `Wea.datetimes`: on the half hour exactly when `timestep == 1 and not enforce_on_hour`. -/
def WeaObj.halfHour (o : WeaObj α) : Bool := o.timestep == 1 && !o.enforce

def WeaObj.suns (env : WeaEnv α) (o : WeaObj α) : List (α × α) := env.suns o.loc o.halfHour

/-- `Wea.global_horizontal_irradiance.values` (Python `zip` of datetimes, dnr, dhr). -/
def WeaObj.ghi (env : WeaEnv α) (o : WeaObj α) : List α :=
  List.zipWith (fun (s : α × α) (p : α × α) => globalHorizontal s.1 p.1 p.2) (o.suns env)
    (o.dnr.zip o.dhr)

/-- `Wea.direct_horizontal_irradiance.values`. -/
def WeaObj.dirH (env : WeaEnv α) (o : WeaObj α) : List α :=
  List.zipWith (fun (s : α × α) (d : α) => directHorizontal s.1 d) (o.suns env) o.dnr

/-- `Wea.directional_irradiance(altitude, azimuth, ground_reflectance, isotropic)`, per step
    (total, direct, diffuse, reflected). -/
def WeaObj.directional (env : WeaEnv α) (o : WeaObj α) (altitude azimuth refl : α) (iso : Bool) :
    Except Err (List (α × α × α × α)) :=
  (List.zipWith (fun (s : α × α) (p : α × α) => (s, p)) (o.suns env) (o.dnr.zip o.dhr)).mapM
    fun x => Sky.directional x.1.1 x.1.2 x.2.1 x.2.2 altitude azimuth refl iso

/-- `Wea.estimate_illuminance_components(dew_point)` for a constant dew point, per step. -/
def WeaObj.illum (env : WeaEnv α) (o : WeaObj α) (dew : α) : Except Err (List (α × α × α × α)) :=
  (List.zipWith (fun (s : α × α) (p : α × α) => (s, p)) (o.suns env) (o.dnr.zip o.dhr)).mapM
    fun x => Sky.illuminance x.1.1 (globalHorizontal x.1.1 x.2.1 x.2.2) x.2.1 x.2.2 dew none

/-- `Wea.filter_by_sun_up(min_altitude)`: (dnr, dhr) of the steps whose sun altitude is above
    `min_altitude`, flattened (an empty selection is refused by the collection: AssertionError). -/
def WeaObj.sunUp (env : WeaEnv α) (o : WeaObj α) (minAlt : α) : List α :=
  ((List.zipWith (fun (s : α × α) (p : α × α) => (s, p)) (o.suns env) (o.dnr.zip o.dhr)).filter
    fun x => x.1.1 > minAlt).flatMap fun x => [x.2.1, x.2.2]

def flat4 (l : List (α × α × α × α)) : List α := l.flatMap fun x => [x.1, x.2.1, x.2.2.1, x.2.2.2]

def outOf4 (r : Except Err (List (α × α × α × α))) : Out α :=
  match r with
  | .ok l => .vals (flat4 l)
  | .error e => .err (.sky e)

/-- One operation on a Wea: new state and output.  A refused operation returns the SAME state. -/
def WeaObj.step (env : WeaEnv α) (o : WeaObj α) : WeaOp α → WeaObj α × Out α
  | .readGhi => (o, .vals (o.ghi env))
  | .readDirH => (o, .vals (o.dirH env))
  | .readDirectional a z r iso => (o, outOf4 (o.directional env a z r iso))
  | .readIllum dew => (o, outOf4 (o.illum env dew))
  | .readSunUp m => if (o.sunUp env m).isEmpty then (o, .err .assert) else (o, .vals (o.sunUp env m))
  | .setLocation k => if k < env.nloc then ({ o with loc := k }, .unit) else (o, .err .assert)
  | .setEnforce b => ({ o with enforce := b }, .unit)
  | .setDnr v => if v.length = o.dhr.length then ({ o with dnr := v }, .unit) else (o, .err .assert)
  | .setDhr v => if v.length = o.dnr.length then ({ o with dhr := v }, .unit) else (o, .err .assert)
  | .setDnrAt i v => if i < o.dnr.length then ({ o with dnr := o.dnr.set i v }, .unit)
                     else (o, .err .index)
  | .setDhrAt i v => if i < o.dhr.length then ({ o with dhr := o.dhr.set i v }, .unit)
                     else (o, .err .index)
  | .refused => (o, .err .refused)

/-- A whole history: final state and the outputs in order. -/
def WeaObj.run (env : WeaEnv α) (o : WeaObj α) : List (WeaOp α) → WeaObj α × List (Out α)
  | [] => (o, [])
  | op :: ops =>
    let r := o.step env op
    let rest := WeaObj.run env r.1 ops
    (rest.1, r.2 :: rest.2)

def WeaOp.isRead : WeaOp α → Bool
  | .readGhi | .readDirH | .readDirectional .. | .readIllum _ | .readSunUp _ => true
  | _ => false

/-- The part of a history that changes what the user has established: the setters that were
    ACCEPTED at their point of the history (reads and refused operations dropped). -/
def WeaObj.accepted (env : WeaEnv α) (o : WeaObj α) : List (WeaOp α) → List (WeaOp α)
  | [] => []
  | op :: ops =>
    let r := o.step env op
    match r.2 with
    | .unit => op :: WeaObj.accepted env r.1 ops
    | _ => WeaObj.accepted env r.1 ops

/-- A freshly constructed Wea with the given public state (`Wea(location, dnr, dhr)` followed by
    `enforce_on_hour = e`). -/
def WeaObj.fresh (loc : Nat) (e : Bool) (ts : Nat) (dnr dhr : List α) : WeaObj α :=
  { loc := loc, enforce := e, timestep := ts, dnr := dnr, dhr := dhr }

/-! ### sky conditions of a design day -/

inductive SkyKind
  | clear | tau
  deriving DecidableEq, Repr

/-- Inputs of a sky-condition history: month of each candidate date and the 24 hourly sun
    altitudes per (date index, daylight savings, location index). -/
structure SkyEnv (α : Type) where
  nloc : Nat
  ndate : Nat
  month : Nat → Int
  /-- whether `DesignDay.analysis_period` can be built for date `i`: it drops the leap-year flag of the
      sky condition's date, so 29 Feb raises ValueError (modelled as the code is; known finding
      C10-designday-feb29, proposed repair fixes/C10_designday_leap_period.patch; the harness reads from
      the source text of the property whether the flag is handed on and sets this input accordingly) -/
  ddPeriodOk : Nat → Bool
  alts : Nat → Bool → Nat → List α

/-- Public state of an `ASHRAEClearSky` / `ASHRAETau` held by a `DesignDay`. -/
structure SkyObj (α : Type) where
  kind : SkyKind
  date : Nat
  dls : Bool
  clearness : α
  tb : α
  td : α
  use2017 : Bool
  ddLoc : Nat

inductive SkyOp (α : Type)
  | readRadiation (k : Nat)
  | readDesignDay
  | setClearness (v : α)
  | setTauB (v : α)
  | setTauD (v : α)
  | setUse2017 (b : Bool)
  | setDate (i : Nat)
  | setDls (b : Bool)
  | setDdLocation (k : Nat)
  | refused

/-- `radiation_values(location k)`: per hour (dni, dhi, ghi). -/
def SkyObj.radiation (env : SkyEnv α) (o : SkyObj α) (k : Nat) : Except Err (List (α × α × α)) :=
  (env.alts o.date o.dls k).mapM fun a =>
    match o.kind with
    | .clear => designDayClearSky1 a (env.month o.date) o.clearness
    | .tau => designDayTau1 a o.tb o.td o.use2017

/-- The three lists the code returns, concatenated: all dni, all dhi, all ghi. -/
def flat3 (l : List (α × α × α)) : List α :=
  l.map (fun x => x.1) ++ l.map (fun x => x.2.1) ++ l.map (fun x => x.2.2)

def outOf3 (r : Except Err (List (α × α × α))) : Out α :=
  match r with
  | .ok l => .vals (flat3 l)
  | .error e => .err (.sky e)

/-- `ASHRAEClearSky.clearness` setter: `assert 0 <= data <= 1.2`. -/
def clearnessOk (v : α) : Prop := (0.0 : α) ≤ v ∧ v ≤ (1.2 : α)

instance (v : α) : Decidable (clearnessOk v) := by unfold clearnessOk; exact inferInstance

def SkyObj.step (env : SkyEnv α) (o : SkyObj α) : SkyOp α → SkyObj α × Out α
  | .readRadiation k => if k < env.nloc then (o, outOf3 (o.radiation env k)) else (o, .err .refused)
  | .readDesignDay =>
    if env.ddPeriodOk o.date then (o, outOf3 (o.radiation env o.ddLoc)) else (o, .err (.sky .value))
  | .setClearness v =>
    match o.kind with
    | .clear => if clearnessOk v then ({ o with clearness := v }, .unit) else (o, .err .assert)
    | .tau => (o, .err .refused)
  | .setTauB v =>
    match o.kind with
    | .tau => ({ o with tb := v }, .unit)
    | .clear => (o, .err .refused)
  | .setTauD v =>
    match o.kind with
    | .tau => ({ o with td := v }, .unit)
    | .clear => (o, .err .refused)
  | .setUse2017 b =>
    match o.kind with
    | .tau => ({ o with use2017 := b }, .unit)
    | .clear => (o, .err .refused)
  | .setDate i => if i < env.ndate then ({ o with date := i }, .unit) else (o, .err .assert)
  | .setDls b => ({ o with dls := b }, .unit)
  | .setDdLocation k => if k < env.nloc then ({ o with ddLoc := k }, .unit) else (o, .err .assert)
  | .refused => (o, .err .refused)

def SkyObj.run (env : SkyEnv α) (o : SkyObj α) : List (SkyOp α) → SkyObj α × List (Out α)
  | [] => (o, [])
  | op :: ops =>
    let r := o.step env op
    let rest := SkyObj.run env r.1 ops
    (rest.1, r.2 :: rest.2)

def SkyOp.isRead : SkyOp α → Bool
  | .readRadiation _ | .readDesignDay => true
  | _ => false

def SkyObj.accepted (env : SkyEnv α) (o : SkyObj α) : List (SkyOp α) → List (SkyOp α)
  | [] => []
  | op :: ops =>
    let r := o.step env op
    match r.2 with
    | .unit => op :: SkyObj.accepted env r.1 ops
    | _ => SkyObj.accepted env r.1 ops

end Generic

/-! ### unit checks (Float instance) -/

private def envF : WeaEnv Float :=
  { nloc := 2, suns := fun k h => if k == 0 then (if h then [(30.0, 180.0), (-5.0, 90.0)] else [(40.0, 170.0), (1.0, 95.0)])
                                   else [(-20.0, 10.0), (-30.0, 20.0)] }

private def o0 : WeaObj Float := WeaObj.fresh 0 false 1 [500.0, 100.0] [50.0, 10.0]

#guard (match (o0.step envF .readGhi).2 with
  | .vals [a, b] => (a - (50.0 + 500.0 * Float.sin (30.0 * (3.141592653589793 / 180.0)))).abs < 1e-9 && b < 10.0
  | _ => false)
-- a refused setter leaves the state: the read after it answers as before
#guard (match (o0.run envF [.setDnr [1.0], .readGhi]).2, (o0.run envF [.readGhi]).2 with
  | [.err .assert, .vals a], [.vals b] => a == b
  | _, _ => false)
-- location change is followed by every read
#guard (match (o0.run envF [.readGhi, .setLocation 1, .readGhi, .readDirH]).2 with
  | [.vals _, .unit, .vals [a, _], .vals [c, _]] => a < 50.0 && c < 0.0
  | _ => false)
#guard (match (o0.run envF [.setLocation 7, .setEnforce true, .readSunUp 0.0]).2 with
  | [.err .assert, .unit, .vals l] => l == [500.0, 50.0, 100.0, 10.0]
  | _ => false)

private def senvF : SkyEnv Float :=
  { nloc := 1, ndate := 2, month := fun i => if i == 0 then 3 else 2, ddPeriodOk := fun i => i == 0,
    alts := fun _ _ _ => [-10.0, 30.0, 60.0] }

private def s0 : SkyObj Float :=
  { kind := .clear, date := 0, dls := false, clearness := 1.1, tb := 0.4, td := 2.0, use2017 := false, ddLoc := 0 }

-- a refused clearness (11, -1) leaves every later read as before; an accepted one changes it
#guard (match (s0.run senvF [.readRadiation 0, .setClearness 11.0, .readRadiation 0, .setClearness (-1.0),
                             .readDesignDay, .setClearness 0.5, .readRadiation 0]).2 with
  | [.vals a, .err .assert, .vals b, .err .assert, .vals c, .unit, .vals d] => a == b && b == c && a != d
  | _ => false)
-- a design day on the date whose period cannot be built answers with the ValueError, the sky still reads
#guard (match (s0.run senvF [.setDate 1, .readDesignDay, .readRadiation 0, .setTauB 0.3]).2 with
  | [.unit, .err (.sky .value), .vals _, .err .refused] => true
  | _ => false)

end Sky
