/-
  Object state machine for the collections of ladybug/datacollection.py, _datacollectionbase.py and
  datacollectionimmutable.py (property C02, round 3).  No Mathlib.  Built on the pure filter
  functions of Model/Filter.lean (unchanged).

  Why: the filters are methods of objects that have setters (`values = …`, `coll[i] = v`), an
  in-place operation (`convert_to_culled_timestep`), immutable twins that refuse all of these, and –
  on the continuous class – one lazily filled slot (`_datetimes`, filled from the header period on
  the first read of `.datetimes`, overwritten by the in-place cull).  The property speaks about the
  result of a filter for the state the user has established; so the specification of an object is a
  pure function of its *public state* (class, mutability, header period, values, date-times,
  `validated_a_period`), and a history of operations must be indistinguishable from a fresh object
  built from the public state it leaves behind (theorems `C02_history_refines_fresh`,
  `C02_refused_preserves`, `C02_read_pure` in Props/C02.lean).

  An `Obj` is the object as the code holds it, including the hidden slot `dts`:
    * `kind`       continuous | discontinuous (hourly) | daily | monthly
    * `mutable`    False for the `…Immutable` twins
    * `ap`         header analysis period
    * `vals`       `_values`
    * `dts`        `_datetimes`: `none` = not filled yet (continuous class only; the other classes get
                   their date-times from the constructor).  Keys are minutes of the year (hourly),
                   days of the year (daily), months (monthly).
    * `validated`  `_validated_a_period`

  Operations (`Op`): the public setters and in-place operations, the refused forms of each, the
  conversions to a twin (`duplicate`, `to_immutable`, `to_mutable`, `to_discontinuous`), every filter
  as a read (`Read`), and `chain` (go on with the collection a filter returned).  `step` returns the
  new object and what the caller sees (`Out`): a result collection, an exception class, or nothing.
  A refused operation returns the object it was given.

  Faithfulness: as the code is.  In particular `cull` on a continuous object stores the culled
  date-times in the slot and the new timestep in the header without checking that they agree (they do
  when the new timestep divides the old one, see `cullCoherent`); `Obj.Inv` is the coherence of slot
  and header that every constructor establishes.  Which reads fill the slot is modelled roughly (the
  slot is not observable); under `Inv` it does not matter (`C02_read_pure`).

  Correspondence op: `hist` of Drv/C02.lean (harness/props/c02.py runs the same history on the real
  object and compares every step).
-/
import Ladybug.Model.Filter

open Cal

namespace Filter

inductive Kind where
  | cont | disc | daily | monthly
deriving DecidableEq, Repr

/-- Exception classes a history can meet. -/
inductive OErr where
  | assert | index | zero | attr | type | value
deriving DecidableEq, Repr

def OErr.ofF : FErr → OErr
  | .assert => .assert
  | .index => .index
  | .zero => .zero

structure Obj where
  kind : Kind
  mutable : Bool
  ap : AP
  vals : List Int
  dts : Option (List Nat)
  validated : Bool
deriving Repr

/-- What the caller of one operation sees. -/
inductive Out where
  /-- a keyed result collection (class, header period, `validated_a_period`, (key, value) pairs) -/
  | keyed (kind : Kind) (ap : AP) (validated : Bool) (pairs : List (Nat × Int))
  /-- a continuous result collection -/
  | cont (ap : AP) (vals : List Int)
  | err (e : OErr)
  /-- a setter / in-place operation / conversion that succeeded -/
  | done
deriving DecidableEq, Repr

/-- The filters (and the plain look at the collection) as questions to an object. -/
inductive Read where
  /-- `filter_by_moys` (hourly) / `filter_by_doys` (daily) / `filter_by_months` (monthly) -/
  | keys (req : List Int)
  /-- `filter_by_hoys`: per hour (exact value of the float, exact value of the float product · 60) -/
  | hoys (hs : List (Rat × Rat))
  | period (f : AP)
  | pattern (pat : List Bool)
  | range (lo hi : Option Int)
  /-- `filter_by_conditional_statement`: the evaluated statement -/
  | pred (p : Int → Bool)
  /-- `.datetimes`, `.values`, `.header.analysis_period`, `.validated_a_period` -/
  | all

inductive Op where
  | read (r : Read)
  /-- go on with the collection the filter returned (when it returned one) -/
  | chain (r : Read)
  /-- `coll.values = vs` -/
  | setValues (vs : List Int)
  /-- `coll.values = <not a list>`: 0 = str / dict / number (AssertionError), 1 = a generator (TypeError of `len`) -/
  | setBad (k : Nat)
  /-- `coll[i] = v` -/
  | setItem (i v : Int)
  /-- `convert_to_culled_timestep(ts)` -/
  | cull (ts : Nat)
  | dup | toImmutable | toMutable | toDisc

/-! ### Public state -/

/-- `.datetimes`. -/
def Obj.datetimes (o : Obj) : List Nat :=
  match o.dts with
  | some l => l
  | none => o.ap.moys

/-- What a filter can see of an object: its class, header period, values, date-times (as the
    property `.datetimes` answers them) and `validated_a_period`. -/
structure View where
  kind : Kind
  ap : AP
  vals : List Int
  keys : List Nat
  validated : Bool
deriving Repr

def Obj.view (o : Obj) : View := ⟨o.kind, o.ap, o.vals, o.datetimes, o.validated⟩

/-- The object after `.datetimes` was read (the slot is filled). -/
def Obj.touch (o : Obj) : Obj := { o with dts := some o.datetimes }

/-- The (key, value) pairs. -/
def View.pairs (v : View) : List (Nat × Int) := v.keys.zip v.vals
def Obj.pairs (o : Obj) : List (Nat × Int) := o.view.pairs

/-- A fresh object built from the public state of `o`: the constructor of the continuous class leaves
    the slot empty, the other constructors take the date-times. -/
def Obj.fresh (o : Obj) : Obj :=
  match o.kind with
  | .cont => { o with dts := none }
  | _ => { o with dts := some o.datetimes }

/-- Coherence of the hidden slot with the public state (what every constructor establishes): on a
    continuous object the slot is empty or holds the steps of the header period; the other classes
    always hold their date-times. -/
def Obj.Inv (o : Obj) : Prop :=
  match o.kind with
  | .cont => o.dts = none ∨ o.dts = some o.ap.moys
  | _ => o.dts.isSome = true

instance (o : Obj) : Decidable o.Inv := by
  unfold Obj.Inv; cases o.kind <;> infer_instance

/-! ### Reads -/

def outOfKeyed (k : Kind) (r : Except FErr (Keyed Nat Int)) : Out :=
  match r with
  | .error e => .err (OErr.ofF e)
  | .ok d => .keyed k d.ap d.validated d.pairs

def outOfRes (r : Except FErr (Res Int)) : Out :=
  match r with
  | .error e => .err (OErr.ofF e)
  | .ok (.cont c) => .cont c.ap c.vals
  | .ok (.disc d) => .keyed .disc d.ap d.validated d.pairs

/-- The collection as a keyed collection of the pure model. -/
def View.asKeyed (v : View) : Keyed Nat Int := ⟨v.ap, v.pairs, v.validated⟩

/-- `HourlyContinuousCollection.filter_by_moys` on an object: as `Cont.filterByMoys`, with the
    date-times taken from `.datetimes` (`self.datetimes[i]`). -/
def View.contMoys (v : View) (req : List Int) : Except FErr (Disc Int) := do
  let idx := req.map (moyIndex v.ap)
  let vs ← pick v.vals idx
  let ds ← pick v.keys idx
  Keyed.mk? v.ap (ds.zip vs) true

/-- `HourlyContinuousCollection.filter_by_analysis_period` on an object. -/
def View.contPeriod (v : View) (f : AP) : Except FErr (Res Int) :=
  if checkAP v.ap f = false then .error .assert
  else
    let f' := apSubset v.ap f
    if f'.st_hour = 0 ∧ f'.end_hour = 23 then
      (Cont.mk? f' (sliceVals v.vals (sliceStart v.ap f') (sliceEnd v.ap f'))).map Res.cont
    else
      (v.contMoys (f'.moys.map Int.ofNat)).map fun r => Res.disc { r with ap := f' }

def natKeys (req : List Int) : List Nat := req.filterMap fun i => if 0 ≤ i then some i.toNat else none

/-- What a read answers: a pure function of what a filter can see of the object (`hoyOf m` = exact
    value of the float `m / 60.0`). -/
def View.answer (hoyOf : Nat → Rat) (v : View) : Read → Out
  | .keys req =>
    match v.kind with
    | .cont => outOfKeyed .disc (v.contMoys req)
    | .disc => outOfKeyed .disc (Disc.filterByMoys req v.asKeyed)
    | k => outOfKeyed k (Keyed.filterByKeys (natKeys req) v.asKeyed)
  | .hoys hs =>
    match v.kind with
    | .cont =>
      let existing := v.ap.moys.map hoyOf
      outOfKeyed .disc (v.contMoys ((hs.filter fun h => existing.contains h.1).map fun h => Py.round h.2))
    | .disc => outOfKeyed .disc (Disc.filterByHoys (hs.map (·.2)) v.asKeyed)
    | _ => .err .attr
  | .period f =>
    match v.kind with
    | .cont => outOfRes (v.contPeriod f)
    | .disc => outOfKeyed .disc (Disc.filterByAP f v.asKeyed)
    | .daily => outOfKeyed .daily (dailyFilterByAP f v.asKeyed)
    | .monthly => outOfKeyed .monthly (monthlyFilterByAP f v.asKeyed)
  | .pattern pat =>
    match v.kind with
    | .cont => outOfKeyed .disc (Keyed.filterByPattern pat { v.asKeyed with validated := true })
    | k => outOfKeyed k (Keyed.filterByPattern pat v.asKeyed)
  | .range lo hi =>
    match v.kind with
    | .cont => outOfKeyed .disc (Keyed.filterByRange lo hi { v.asKeyed with validated := true })
    | k => outOfKeyed k (Keyed.filterByRange lo hi v.asKeyed)
  | .pred p =>
    match v.kind with
    | .cont => outOfKeyed .disc (Keyed.filterByPred p { v.asKeyed with validated := true })
    | k => outOfKeyed k (Keyed.filterByPred p v.asKeyed)
  | .all => .keyed v.kind v.ap v.validated v.pairs

def Obj.answer (hoyOf : Nat → Rat) (o : Obj) (r : Read) : Out := o.view.answer hoyOf r

/-- Whether a read looks at `.datetimes` (and so fills the slot of a continuous object).  Only the
    whole-day period filter of the continuous class works on the values alone. -/
def Obj.readTouches (o : Obj) : Read → Bool
  | .period f =>
    match o.kind with
    | .cont => !(decide ((apSubset o.ap f).st_hour = 0 ∧ (apSubset o.ap f).end_hour = 23)) && checkAP o.ap f
    | _ => true
  | _ => true

/-- One read: the answer, and the object afterwards (same public state, slot possibly filled). -/
def Obj.observe (hoyOf : Nat → Rat) (o : Obj) (r : Read) : Out × Obj :=
  (o.answer hoyOf r, if o.readTouches r then o.touch else o)

/-! ### Setters, in-place operations, twins -/

/-- `l[i] = v` with Python indexing; `none` = IndexError. -/
def setIdx? (l : List Int) (i v : Int) : Option (List Int) :=
  if 0 ≤ i then (if i.toNat < l.length then some (l.set i.toNat v) else none)
  else if (-i).toNat ≤ l.length then some (l.set (l.length - (-i).toNat) v) else none

/-- `_timestep_cull`: the pairs whose minute fits the timestep. -/
def cullPairs (ts : Nat) (ps : List (Nat × Int)) : List (Nat × Int) := ps.filter fun p => p.1 % (60 / ts) == 0

/-- The in-place cull keeps a continuous object coherent iff the culled date-times are the steps of
    the new header period (true when the new timestep divides the old one). -/
def cullCoherent (o : Obj) (ts : Nat) : Prop :=
  (cullPairs ts o.pairs).map Prod.fst = ({ o.ap with timestep := ts } : AP).moys

instance (o : Obj) (ts : Nat) : Decidable (cullCoherent o ts) := by unfold cullCoherent; infer_instance

/-- The object a result collection is (results are mutable; a continuous result has an empty slot). -/
def Obj.ofOut (o : Obj) : Out → Obj
  | .keyed .cont ap _ ps => ⟨.cont, true, ap, ps.map Prod.snd, none, true⟩   -- `all` of a continuous object: a mutable copy
  | .keyed k ap v ps => ⟨k, true, ap, ps.map Prod.snd, some (ps.map Prod.fst), v⟩
  | .cont ap vs => ⟨.cont, true, ap, vs, none, true⟩
  | _ => o

/-- `duplicate()` (the constructor of the continuous class marks the copy validated and leaves its slot empty). -/
def Obj.copy (o : Obj) (mutable : Bool) : Obj :=
  match o.kind with
  | .cont => { o with mutable := mutable, dts := none, validated := true }
  | _ => { o with mutable := mutable, dts := some o.datetimes }

/-- One operation. -/
def step (hoyOf : Nat → Rat) (o : Obj) : Op → Obj × Out
  | .read r => ((o.observe hoyOf r).2, (o.observe hoyOf r).1)
  | .chain r =>
    match (o.observe hoyOf r).1 with
    | .keyed k ap v ps => (o.ofOut (.keyed k ap v ps), .keyed k ap v ps)
    | .cont ap vs => (o.ofOut (.cont ap vs), .cont ap vs)
    | out => ((o.observe hoyOf r).2, out)
  | .setValues vs =>
    if o.mutable = false then (o, .err .attr)
    else match o.kind with
      | .cont => if vs.length = o.ap.len then ({ o with vals := vs }, .done) else (o, .err .assert)
      | _ => if vs.length = o.datetimes.length ∧ 0 < vs.length then ({ o with vals := vs }, .done)
             else (o, .err .assert)
  | .setBad k =>
    if o.mutable = false then (o, .err .attr)
    else if k = 0 then (o, .err .assert) else (o, .err .type)
  | .setItem i v =>
    if o.mutable = false then (o, .err .attr)
    else match setIdx? o.vals i v with
      | some l => ({ o with vals := l }, .done)
      | none => (o, .err .index)
  | .cull ts =>
    match o.kind with
    | .daily => (o, .err .attr)
    | .monthly => (o, .err .attr)
    | _ =>
      if o.mutable = false then (o, .err .attr)
      else if ts ∉ Gen.Ap.validTimesteps then (o, .err .assert)
      else
        let ps := cullPairs ts o.pairs
        ({ o with ap := { o.ap with timestep := ts }, vals := ps.map Prod.snd, dts := some (ps.map Prod.fst) }, .done)
  | .dup => (o.copy o.mutable, .done)
  | .toImmutable => (o.copy false, .done)
  | .toMutable => (o.copy true, .done)
  | .toDisc =>
    match o.kind with
    | .cont => (⟨.disc, true, o.ap, o.vals, some o.datetimes, true⟩, .done)
    | _ => (o, .err .attr)

/-- A history: the final object and what each step answered. -/
def run (hoyOf : Nat → Rat) (o : Obj) : List Op → Obj × List Out
  | [] => (o, [])
  | op :: ops =>
    ((run hoyOf (step hoyOf o op).1 ops).1, (step hoyOf o op).2 :: (run hoyOf (step hoyOf o op).1 ops).2)

/-- The constructors: what an initial object must satisfy (`Cont.mk?` / `_check_values`). -/
def Obj.mk? (kind : Kind) (mutable : Bool) (ap : AP) (keys : List Nat) (vals : List Int) (validated : Bool) :
    Option Obj :=
  match kind with
  | .cont =>
    if ap.st_hour = 0 ∧ ap.end_hour = 23 ∧ vals.length = ap.len then some ⟨.cont, mutable, ap, vals, none, true⟩
    else none
  | k => if vals.length = keys.length ∧ 0 < vals.length then some ⟨k, mutable, ap, vals, some keys, validated⟩ else none

/-! ### The strict in-place cull of the continuous class

`fixes/C13_continuous_cull_in_place_divisor.patch` gives `HourlyContinuousCollection` its own
`convert_to_culled_timestep`: after the valid-timestep assert it asserts `current_timestep % timestep == 0`
(AssertionError, object unchanged) and then calls the base method.  `stepS strict` is the machine of a tree
with (`strict = true`) or without (`strict = false`, `stepS false = step`) that override; the harness reads
which one the tree under test has from its source and asks the driver for that machine (`hists` / `hist`). -/

/-- Does the strict continuous class refuse this operation before the base method runs?  (The immutable twin
    refuses every cull with AttributeError first; an invalid timestep never divides a valid one, so the
    AssertionError of the valid-timestep test is covered as well.) -/
def strictRefuses (strict : Bool) (o : Obj) : Op → Bool
  | .cull ts =>
    match o.kind with
    | .cont => strict && o.mutable && decide (o.ap.timestep % ts ≠ 0)
    | _ => false
  | _ => false

/-- One operation on a tree whose continuous class is strict (`true`) or not (`false`). -/
def stepS (strict : Bool) (hoyOf : Nat → Rat) (o : Obj) (op : Op) : Obj × Out :=
  if strictRefuses strict o op then (o, .err .assert) else step hoyOf o op

/-- A history on such a tree. -/
def runS (strict : Bool) (hoyOf : Nat → Rat) (o : Obj) : List Op → Obj × List Out
  | [] => (o, [])
  | op :: ops =>
    ((runS strict hoyOf (stepS strict hoyOf o op).1 ops).1,
     (stepS strict hoyOf o op).2 :: (runS strict hoyOf (stepS strict hoyOf o op).1 ops).2)

/-! ### Unit tests -/

private def o1 : Obj := ⟨.cont, true, ⟨1, 1, 0, 1, 1, 23, 2, false⟩, (List.range 48).map Int.ofNat, none, true⟩
private def h0 : Nat → Rat := fun m => (m : Rat) / 60

private def valsOf : Out → List Int
  | .keyed _ _ _ ps => ps.map Prod.snd
  | .cont _ vs => vs
  | _ => []

-- read, refused setter, read again: nothing changed
#guard (run h0 o1 [.read (.keys [0, 30]), .setValues [1, 2, 3], .read (.keys [0, 30])]).2.map valsOf = [[0, 1], [], [0, 1]]
-- in-place cull to the hourly steps, then a filter
#guard (run h0 o1 [.read .all, .cull 1, .read (.keys [60, 120])]).2.map valsOf = [(List.range 48).map Int.ofNat, [], [2, 4]]
#guard cullCoherent o1 1
#guard (step h0 o1 (.cull 1)).1.Inv
#guard ¬ cullCoherent { o1 with ap := { o1.ap with timestep := 4 }, vals := (List.range 96).map Int.ofNat } 3
-- immutable twin refuses
#guard (run h0 o1 [.toImmutable, .setItem 0 5, .cull 1, .read (.keys [0])]).2.map valsOf = [[], [], [], [0]]
#guard (match (step h0 (o1.copy false) (.setItem 0 5)).2 with | .err .attr => true | _ => false)
#guard (step h0 o1 (.setItem (-1) 7)).1.vals.getLast? = some 7
#guard (match (step h0 o1 (.setItem 48 7)).2 with | .err .index => true | _ => false)

-- the strict continuous class refuses a cull to a non-dividing timestep and keeps a dividing one
#guard (match (stepS true h0 { o1 with ap := { o1.ap with timestep := 4 }, vals := (List.range 96).map Int.ofNat } (.cull 3)).2 with
  | .err .assert => true | _ => false)
#guard (runS true h0 o1 [.read .all, .cull 1, .read (.keys [60, 120])]).2.map valsOf = [(List.range 48).map Int.ofNat, [], [2, 4]]
#guard (runS false h0 o1 [.cull 1, .read (.keys [60, 120])]).2.map valsOf = (run h0 o1 [.cull 1, .read (.keys [60, 120])]).2.map valsOf

end Filter
