/-
  Executable model of ladybug/graphic.py `GraphicContainer.__init__` WITH a data type (C15, round 4):
  the legend defaults that an ordinal data type (`data_type.unit_descr`, a dictionary int -> text)
  contributes.  No Mathlib.  Modelled as the code is (graphic.py 75-94):

    if data_type.unit_descr is not None and legend_parameters.ordinal_dictionary is None
            and the parameters are not categorised:
        legend_parameters.ordinal_dictionary = unit_descr
        sorted_keys = sorted(unit_descr.keys())              -- NOT the insertion order
        if legend.is_min_default: _min = sorted_keys[0]       -- IndexError on an empty dictionary
        if legend.is_max_default: _max = sorted_keys[-1]
        assert _min <= _max
        if is_segment_count_default:                          -- also after the single-value default
            min_i = sorted_keys.index(min); max_i = sorted_keys.index(max)   -- ValueError when absent
            segment_count = len(sorted_keys[min_i:max_i + 1])
        (the `except IndexError` of the code never matches: `list.index` raises ValueError — quirk
         kept, recorded as finding C15-graphic-ordinal-bound-not-a-key)

  The dictionary is a list of (key, text) pairs in INSERTION order with distinct keys; nothing below
  depends on that order (`Props/C15.lean: C15_typed_dict_order_independent`).
-/
import Ladybug.Model.Legend

namespace Leg

open Col

/-- `sorted(unit_descr.keys())`. -/
def sortKeys (keys : List Int) : List Int := keys.mergeSort (fun a b => decide (a ≤ b))

/-- `sorted_keys.index(x)` (Python `==` between an int key and the number `x`): `ValueError` when
    no key equals `x`. -/
def keyIndex (ks : List Int) (x : Rat) : Except Err Nat :=
  match ks.findIdx? (fun (k : Int) => decide ((k : Rat) = x)) with
  | some i => .ok i
  | none => .error .value

/-- What the sorted keys contribute: resolved (min, max, segment count or `none` = keep). -/
def ordinalBounds (isMinDefault isMaxDefault countDefault : Bool) (mn0 mx0 : Rat) (ks : List Int) :
    Except Err (Rat × Rat × Option Nat) :=
  match (if isMinDefault then ks.head?.map (fun (k : Int) => (k : Rat)) else some mn0),
        (if isMaxDefault then ks.getLast?.map (fun (k : Int) => (k : Rat)) else some mx0) with
  | some mn, some mx =>
    if mx < mn then .error .assert
    else if countDefault then
      match keyIndex ks mn, keyIndex ks mx with
      | .ok i, .ok j => .ok (mn, mx, some (j + 1 - i))
      | .error e, _ => .error e
      | _, .error e => .error e
    else .ok (mn, mx, none)
  | _, _ => .error .index

/-- The legend of a `GraphicContainer` after the ordinal defaults of its data type were applied. -/
def Legend.applyOrdinal (l : Legend) (d : List (Int × String)) : Except Err Legend :=
  match ordinalBounds l.isMinDefault l.isMaxDefault l.par.segCountDefault l.min l.max
      (sortKeys (d.map (·.1))) with
  | .error e => .error e
  | .ok (mn, mx, none) =>
    .ok { l with min := mn, max := mx,
                 par := { l.par with ordinal := some d, min := some mn, max := some mx } }
  | .ok (mn, mx, some n) =>
    .ok { l with min := mn, max := mx, segCount := n,
                 par := { l.par with ordinal := some d, min := some mn, max := some mx,
                                     segCount := n, segCountDefault := false } }

/-- Does the data type's dictionary apply?  (a user-given ordinal dictionary and categorised
    parameters are left alone). -/
def ordinalApplies (l : Legend) : Bool := l.par.ordinal.isNone && l.par.cat.isNone

/-- `GraphicContainer(values, min_point, max_point, legend_parameters, data_type)`;
    `ud` = `data_type.unit_descr` (`none`: no data type, or a data type without categories). -/
def Graphic.makeTyped (values : List Rat) (p : Par) (ud : Option (List (Int × String)))
    (minX minY maxX maxY : Rat) : Except Err Graphic :=
  match Legend.make values p with
  | .error e => .error e
  | .ok l0 =>
    match (match ud with
           | some d => if ordinalApplies l0 then l0.applyOrdinal d else .ok l0
           | none => .ok l0) with
    | .error e => .error e
    | .ok l =>
      if graphicSegH l.par l.segCount minX minY maxX maxY ≤ 0 then .error .assert
      else .ok ⟨l.withDims (graphicSegH l.par l.segCount minX minY maxX maxY)
        (graphicSegW l.par (graphicSegH l.par l.segCount minX minY maxX maxY))⟩

/-! Unit tests: the built-in `ThermalComfort` dictionary is written `{1: .., 0: ..}`. -/

private def pDefault : Except Err Par :=
  Par.mkPlain none none none none false true 2 false none none none none

private def tc : List (Int × String) := [(1, "Comfortable"), (0, "Uncomfortable")]

private def gt (vals : List Rat) (p : Except Err Par) (ud : Option (List (Int × String))) :=
  p.bind fun q => Graphic.makeTyped vals q ud 0 0 8 8

#guard (gt [0, 1, 1, 0] pDefault (some tc)).map (fun g => (g.legend.min, g.legend.max, g.legend.segCount,
  g.legend.segmentText)) = .ok (0, 1, 2, ["Uncomfortable", "Comfortable"])
#guard (gt [1, 1] pDefault (some tc)).map (fun g => (g.legend.min, g.legend.max, g.legend.segCount))
  = .ok (0, 1, 2)
#guard (gt [0, 1] (Par.mkPlain (some (1 / 2)) none none none false true 2 false none none none none)
  (some tc)).map (fun g => g.legend.segCount) = .error .value
#guard (gt [0, 1] pDefault (some [])).map (fun g => g.legend.segCount) = .error .index
#guard (gt [0, 5] pDefault none).map (fun g => g.legend.segCount) = .ok 11

end Leg
