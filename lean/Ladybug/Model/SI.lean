/-
  C06 — HAND-WRITTEN, REVIEWED table of unit definitions (independent of ladybug's factors).

  Every unit string that a ladybug data type lists is defined here from the SI / legal definitions of
  the units involved, as an affine map `⟨a, b⟩`: a quantity of `x` such units is `a * x + b` of the
  coherent SI unit of that quantity (J, W, m, m², m³, kg, s, K, Pa, ... and their quotients).
  Compound units are *built* as products and quotients of the elementary ones, so intensities,
  fluxes and rates are by construction the ratios of their base quantities.

  Sources of the exact elementary definitions:
    foot = 0.3048 m, inch = 0.0254 m, mile = 1609.344 m   (international yard and pound agreement 1959)
    pound = 0.45359237 kg, ounce = lb/16, short ton = 2000 lb, tonne = 1000 kg
    acre = 43560 ft², hectare = 10⁴ m²
    US gallon = 231 in³, US fluid ounce = gal/128, litre = 10⁻³ m³
    Btu (International Table) = 1055.05585262 J, therm = 10⁵ Btu, MMBtu = 10⁶ Btu
    thermochemical calorie = 4.184 J (the International-Table calorie, 4.1868 J, is 0.07 % away)
    standard gravity g₀ = 9.80665 m/s²; lbf = lb·g₀; psi = lbf/in²
    mechanical horsepower = 550 ft·lbf/s; ton of refrigeration = 12000 Btu/h
    standard atmosphere = 101325 Pa; torr = atm/760; bar = 10⁵ Pa
    conventional inch of mercury = 0.0254 m · 13595.1 kg/m³ · g₀; inch of water = 0.0254 m · 1000 kg/m³ · g₀
    knot = 1852 m/h; degree Fahrenheit: interval 5/9 K, 32 °F = 273.15 K; 0 °C = 273.15 K
    foot-candle = lm/ft²; clo = 0.155 m²K/W; met = 58.15 W/m² (ISO 8996; ASHRAE's 58.2 is 0.09 % away)
    okta = one eighth of the sky (WMO); per cent, tenth, thousandth of the whole
    degree = π/180 rad (Angle is handled symbolically in π, see Props/C06.lean)

  The definitions are named after the data type and the unit (`SI.Energy.kBtu`; blanks, `/`, `-`
  dropped or replaced as in the generated names, `%` written `pct`).  The generated proof modules
  look them up *by name*; a unit listed by ladybug without a definition here does not compile.
  No Mathlib.
-/
import Ladybug.Model.Units

open Units

namespace SI

/-- A unit without offset: `x` units are `a * x` SI units. -/
def lin (a : Rat) : Aff := ⟨a, 0⟩

-- length, area, volume
def ft : Rat := 3048 / 10000
def inch : Rat := 254 / 10000
def mile : Rat := 1609344 / 1000
def acre : Rat := 43560 * ft ^ 2
def litre : Rat := 1 / 1000
def gal : Rat := 231 * inch ^ 3
def floz : Rat := gal / 128
-- mass, force
def lb : Rat := 45359237 / 100000000
def oz : Rat := lb / 16
def g0 : Rat := 980665 / 100000
-- time
def minute : Rat := 60
def hour : Rat := 3600
def day : Rat := 86400
-- energy, power
def Btu : Rat := 105505585262 / 100000000
def kBtu : Rat := 1000 * Btu
def Wh : Rat := 3600
def kWh : Rat := 3600000
def cal : Rat := 4184 / 1000
def Btuh : Rat := Btu / hour
-- temperature interval
def dF : Rat := 5 / 9
def zeroC : Rat := 27315 / 100

namespace Area
def m2 := lin 1
def ft2 := lin (ft ^ 2)
def mm2 := lin (1 / 1000000)
def in2 := lin (inch ^ 2)
def km2 := lin 1000000
def mi2 := lin (mile ^ 2)
def cm2 := lin (1 / 10000)
def ha := lin 10000
def «acre» := lin SI.acre
end Area

namespace Conductance
def W_K := lin 1
def Btu_hF := lin (Btuh / dF)
end Conductance

namespace Conductivity
def W_mK := lin 1
def Btu_hftF := lin (Btuh / (ft * dF))
def cal_scmC := lin (cal / (1 / 100))
end Conductivity

namespace Current
def A := lin 1
def mA := lin (1 / 1000)
end Current

namespace Density
def kg_m3 := lin 1
def lb_ft3 := lin (lb / ft ^ 3)
def g_cm3 := lin 1000
def oz_in3 := lin (oz / inch ^ 3)
end Density

namespace Distance
def m := lin 1
def «ft» := lin SI.ft
def mm := lin (1 / 1000)
def «in» := lin inch
def km := lin 1000
def mi := lin mile
def cm := lin (1 / 100)
end Distance

namespace Energy
def «kWh» := lin SI.kWh
def «kBtu» := lin SI.kBtu
def «Wh» := lin SI.Wh
def «Btu» := lin SI.Btu
def MMBtu := lin (1000000 * SI.Btu)
def J := lin 1
def kJ := lin 1000
def MJ := lin 1000000
def GJ := lin 1000000000
def therm := lin (100000 * SI.Btu)
def «cal» := lin SI.cal
def kcal := lin (1000 * SI.cal)
end Energy

namespace EnergyFlux
def W_m2 := lin 1
def Btu_hft2 := lin (Btuh / ft ^ 2)
def kW_m2 := lin 1000
def kBtu_hft2 := lin (1000 * Btuh / ft ^ 2)
def W_ft2 := lin (1 / ft ^ 2)
def met := lin (5815 / 100)
end EnergyFlux

namespace EnergyIntensity
def kWh_m2 := lin SI.kWh
def kBtu_ft2 := lin (SI.kBtu / ft ^ 2)
def Wh_m2 := lin SI.Wh
def Btu_ft2 := lin (SI.Btu / ft ^ 2)
def kWh_ft2 := lin (SI.kWh / ft ^ 2)
def kBtu_m2 := lin SI.kBtu
end EnergyIntensity

namespace Fraction
def fraction := lin 1
def pct := lin (1 / 100)
def tenths := lin (1 / 10)
def thousandths := lin (1 / 1000)
def okta := lin (1 / 8)
end Fraction

namespace Illuminance
def lux := lin 1
def fc := lin (1 / ft ^ 2)
end Illuminance

namespace Luminance
def cd_m2 := lin 1
def cd_ft2 := lin (1 / ft ^ 2)
end Luminance

namespace Mass
def kg := lin 1
def «lb» := lin SI.lb
def g := lin (1 / 1000)
def tonne := lin 1000
def ton := lin (2000 * SI.lb)
def «oz» := lin SI.oz
end Mass

namespace MassFlowRate
def kg_s := lin 1
def lb_s := lin SI.lb
def g_s := lin (1 / 1000)
def oz_s := lin SI.oz
end MassFlowRate

namespace Power
def W := lin 1
def Btu_h := lin Btuh
def kW := lin 1000
def kBtu_h := lin (1000 * Btuh)
def TR := lin (12000 * Btuh)
def hp := lin (550 * ft * lb * g0)
end Power

namespace Pressure
def Pa := lin 1
def inHg := lin (inch * (135951 / 10) * g0)
def atm := lin 101325
def bar := lin 100000
def Torr := lin (101325 / 760)
def psi := lin (lb * g0 / inch ^ 2)
def inH2O := lin (inch * 1000 * g0)
end Pressure

namespace RValue
def Km2_W := lin 1
def Fft2h_Btu := lin (dF * ft ^ 2 / Btuh)
def clo := lin (155 / 1000)
def m2K_W := lin 1
def hft2F_Btu := lin (dF * ft ^ 2 / Btuh)
end RValue

namespace Resistance
def K_W := lin 1
def Fh_Btu := lin (dF / Btuh)
end Resistance

namespace Resistivity
def Km_W := lin 1
def Ffth_Btu := lin (dF * ft / Btuh)
end Resistivity

namespace SpecificEnergy
def kWh_kg := lin SI.kWh
def kBtu_lb := lin (SI.kBtu / lb)
def Wh_kg := lin SI.Wh
def Btu_lb := lin (SI.Btu / lb)
def J_kg := lin 1
def kJ_kg := lin 1000
end SpecificEnergy

namespace SpecificHeatCapacity
def J_kgK := lin 1
def Btu_lbF := lin (SI.Btu / (lb * dF))
def kWh_kgK := lin SI.kWh
def kBtu_lbF := lin (SI.kBtu / (lb * dF))
def kJ_kgK := lin 1000
end SpecificHeatCapacity

namespace Speed
def m_s := lin 1
def mph := lin (mile / hour)
def km_h := lin (1000 / hour)
def knot := lin (1852 / hour)
def ft_s := lin ft
def ft_min := lin (ft / minute)
end Speed

namespace Temperature
def C : Aff := ⟨1, zeroC⟩
def F : Aff := ⟨dF, zeroC - 32 * dF⟩
def K : Aff := ⟨1, 0⟩
end Temperature

namespace TemperatureDelta
def dC := lin 1
def «dF» := lin SI.dF
def dK := lin 1
end TemperatureDelta

namespace TemperatureTime
def degCdays := lin day
def degFdays := lin (dF * day)
def degChours := lin hour
def degFhours := lin (dF * hour)
end TemperatureTime

namespace ThermalCondition
-- both are the same dimensionless vote scale
def condition := lin 1
def PMV := lin 1
end ThermalCondition

namespace Time
def hr := lin hour
def min := lin minute
def sec := lin 1
def «day» := lin SI.day
end Time

namespace UValue
def W_m2K := lin 1
def Btu_hft2F := lin (Btuh / (ft ^ 2 * dF))
end UValue

namespace Voltage
def V := lin 1
def kV := lin 1000
end Voltage

namespace Volume
def m3 := lin 1
def ft3 := lin (ft ^ 3)
def mm3 := lin (1 / 1000000000)
def in3 := lin (inch ^ 3)
def km3 := lin 1000000000
def mi3 := lin (mile ^ 3)
def L := lin litre
def mL := lin (litre / 1000)
def «gal» := lin SI.gal
def «floz» := lin SI.floz
end Volume

namespace VolumeFlowRate
def m3_s := lin 1
def ft3_s := lin (ft ^ 3)
def L_s := lin litre
def cfm := lin (ft ^ 3 / minute)
def gpm := lin (gal / minute)
def mL_s := lin (litre / 1000)
def floz_s := lin floz
def L_h := lin (litre / hour)
def gph := lin (gal / hour)
end VolumeFlowRate

namespace VolumeFlowRateIntensity
def m3_sm2 := lin 1
def ft3_sft2 := lin (ft ^ 3 / ft ^ 2)
def L_sm2 := lin litre
def cfm_ft2 := lin (ft ^ 3 / minute / ft ^ 2)
def L_hm2 := lin (litre / hour)
def gph_ft2 := lin (gal / hour / ft ^ 2)
end VolumeFlowRateIntensity

namespace VolumetricHeatCapacity
def J_m3K := lin 1
def Btu_ft3F := lin (SI.Btu / (ft ^ 3 * dF))
def kWh_m3K := lin SI.kWh
def kBtu_ft3F := lin (SI.kBtu / (ft ^ 3 * dF))
def kJ_m3K := lin 1000
def MJ_m3K := lin 1000000
end VolumetricHeatCapacity

#guard Energy.«Btu».a = 52752792631 / 50000000
#guard Pressure.psi.a * 1000000 > 6894757293 ∧ Pressure.psi.a * 1000000 < 6894757294
#guard Power.hp.a * 1000 > 745699 ∧ Power.hp.a * 1000 < 745700
#guard Volume.«gal».a = 3785411784 / 1000000000000
#guard SpecificHeatCapacity.Btu_lbF.a = 41868 / 10

end SI
