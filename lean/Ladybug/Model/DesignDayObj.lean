/-
  Object state machine of a design day (round 3): ONE `DesignDay` object, its public setters, replaced
  condition objects and refused operations, built on the pure functions of Model/DesignDay.lean.
  The state is the public state and nothing else: the model has no hidden slot, no memo, no cache - that is
  the specification.  Every observable (`to_idf` fields, hourly profiles, date-times, ...) is a function of
  the state.  A refused operation (an argument the setter / constructor rejects, an attribute the sky class
  does not have, an impossible date) returns the unchanged state and an error.
  Driver op `hist` (Drv/C16.lean) runs histories step by step; theorems in Props/C16.lean.  No Mathlib.
-/
import Ladybug.Model.DesignDay

namespace DD

open Gen.DD Tok NumVal

/-- A Python argument as the setters see it: a number (`isinstance(x, (float, int))`), a string, or an
    object of another type (`None`, a tuple, ...). -/
inductive Arg (ν : Type) where
  | num (x : ν)
  | str (s : String)
  | other
deriving DecidableEq, Repr

/-- Why an operation is refused: AssertionError, ValueError (impossible date), AttributeError (the sky class
    has no such attribute: `__slots__` without `__dict__`). -/
inductive OErr where
  | assert | value | attr
deriving DecidableEq, Repr

/-- The object: the design day and its location. -/
structure Obj (ν : Type) where
  dd : DesignDay ν
  loc : Loc ν
deriving DecidableEq, Repr

/-- Arguments of a sky-condition constructor: `Date(month, day)`, the daylight-saving flag and the class with
    its parameters as Python arguments. -/
structure SkyArg (ν : Type) where
  month : Int
  day : Int
  leap : Bool
  dst : Bool
  kind : SkyKind (Arg ν)

inductive Op (ν : Type) where
  /-- any read of any observable (hourly_* collections, to_idf, radiation, ==, duplicate ...) -/
  | read
  | setName (a : Arg ν)
  | setDayType (a : Arg ν)
  | setDbMax (a : Arg ν)
  | setDbRange (a : Arg ν)
  | setModType (s : String)
  | setModSched (s : String)
  | setHumType (a : Arg ν)
  | setHumValue (a : Arg ν)
  | setPressure (a : Arg ν)
  | setRain (b : Bool)
  | setSnow (b : Bool)
  | setHumSched (s : String)
  | setWbr (w : WBR ν)
  | setWindSpeed (a : Arg ν)
  | setWindDir (a : Arg ν)
  /-- `sky.date = Date(m, d)`; `none`: an object that is not a Date -/
  | setDate (md : Option (Int × Int))
  | setDst (b : Bool)
  | setClearness (a : Arg ν)
  | setTauB (a : Arg ν)
  | setTauD (a : Arg ν)
  | setUse2017 (b : Bool)
  | setBeam (s : String)
  | setDiff (s : String)
  /-- `dd.location = Location(...)`; `none`: not a Location -/
  | setLoc (l : Option (Loc ν))
  | newDb (mx rng : Arg ν) (mt ms : String)
  | newHum (ty v p : Arg ν) (rain snow : Bool) (sched : String) (w : WBR ν)
  | newWind (ws wd : Arg ν)
  /-- `dd.sky_condition = <new sky object>`; `none`: not a sky condition -/
  | newSky (s : Option (SkyArg ν))

/-- Result of a step. `outside`: the operation is outside the model (beam / diffuse schedule name of an
    ASHRAEClearSky / ASHRAETau object, which the model does not carry; never generated). -/
inductive Out where
  | done
  | refused (e : OErr)
  | outside
deriving DecidableEq, Repr

section
variable {ν : Type} [NumVal ν]

def numArg : Arg ν → Except OErr ν
  | .num x => .ok x
  | _ => .error .assert

def strArg : Arg ν → Except OErr String
  | .str s => .ok s
  | _ => .error .assert

def guard' (b : Bool) (e : OErr) : Except OErr Unit := if b then .ok () else .error e

/-- `DryBulbCondition(max, range, modifier_type, modifier_schedule)`. -/
def mkDryBulb (mx rng : Arg ν) (mt ms : String) : Except OErr (DryBulb ν) := do
  let a ← numArg mx
  let b ← numArg rng
  guard' (decide (0 ≤ toRat b)) .assert
  pure ⟨a, b, mt, ms⟩

/-- `HumidityCondition(type, value, pressure, rain, snow, schedule, wet_bulb_range)`. -/
def mkHumidity (ty v p : Arg ν) (rain snow : Bool) (sched : String) (w : WBR ν) : Except OErr (Humidity ν) := do
  let s ← strArg ty
  let t ← match humTypeOfName? s with
    | some t => pure t
    | none => throw OErr.assert
  let x ← numArg v
  let q ← numArg p
  pure ⟨t, x, q, rain, snow, sched, w⟩

/-- `WindCondition(speed, direction)`. -/
def mkWind (ws wd : Arg ν) : Except OErr (Wind ν) := do
  let a ← numArg ws
  let b ← numArg wd
  guard' (between 0 b 360) .assert
  pure ⟨a, b⟩

/-- `Date(month, day, leap)`. -/
def mkDate (m d : Int) (leap : Bool) : Except OErr Cal.D :=
  match Cal.D.make m d leap with
  | .ok x => .ok x
  | .error _ => .error .value

def mkKind : SkyKind (Arg ν) → Except OErr (SkyKind ν)
  | .base b f => .ok (.base b f)
  | .clear c => do
    let x ← numArg c
    guard' (between 0 x (6 / 5)) .assert
    pure (.clear x)
  | .tau b t u => do
    let x ← numArg b
    let y ← numArg t
    pure (.tau x y u)

/-- `ASHRAEClearSky(Date(m, d), clearness, dst)` / `ASHRAETau(...)` / `_SkyCondition(...)`. -/
def mkSky (a : SkyArg ν) : Except OErr (Sky ν) := do
  let date ← mkDate a.month a.day a.leap
  let k ← mkKind a.kind
  pure ⟨date, a.dst, k⟩

/-- `Location(city, None, None, lat, lon, tz, elev)`: the range assertions of the setters. -/
def mkLoc (l : Loc ν) : Except OErr (Loc ν) := do
  guard' (between (-90) l.lat 90) .assert
  guard' (between (-180) l.lon 180) .assert
  guard' (between (-12) l.tz 14) .assert
  pure l

def Obj.withDb (o : Obj ν) (f : DryBulb ν → DryBulb ν) : Obj ν := { o with dd := { o.dd with db := f o.dd.db } }
def Obj.withHum (o : Obj ν) (f : Humidity ν → Humidity ν) : Obj ν := { o with dd := { o.dd with hum := f o.dd.hum } }
def Obj.withWind (o : Obj ν) (f : Wind ν → Wind ν) : Obj ν := { o with dd := { o.dd with wind := f o.dd.wind } }
def Obj.withSky (o : Obj ν) (f : Sky ν → Sky ν) : Obj ν := { o with dd := { o.dd with sky := f o.dd.sky } }

/-- What an accepted operation does to the public state; `.error` = refused (nothing is assigned). -/
def apply (o : Obj ν) : Op ν → Except OErr (Obj ν)
  | .read => pure o
  | .setName a => do
    let s ← strArg a
    pure { o with dd := { o.dd with name := s } }
  | .setDayType a => do
    let s ← strArg a
    guard' (dayTypes.contains s) .assert
    pure { o with dd := { o.dd with dayType := s } }
  | .setDbMax a => do
    let x ← numArg a
    pure (o.withDb fun c => { c with max := x })
  | .setDbRange a => do
    let x ← numArg a
    guard' (decide (0 ≤ toRat x)) .assert
    pure (o.withDb fun c => { c with range := x })
  | .setModType s => pure (o.withDb fun c => { c with modType := s })
  | .setModSched s => pure (o.withDb fun c => { c with modSched := s })
  | .setHumType a => do
    let s ← strArg a
    match humTypeOfName? s with
    | some t => pure (o.withHum fun c => { c with ty := t })
    | none => throw OErr.assert
  | .setHumValue a => do
    let x ← numArg a
    pure (o.withHum fun c => { c with value := x })
  | .setPressure a => do
    let x ← numArg a
    pure (o.withHum fun c => { c with pressure := x })
  | .setRain b => pure (o.withHum fun c => { c with rain := b })
  | .setSnow b => pure (o.withHum fun c => { c with snow := b })
  | .setHumSched s => pure (o.withHum fun c => { c with schedule := s })
  | .setWbr w => pure (o.withHum fun c => { c with wetBulbRange := w })
  | .setWindSpeed a => do
    let x ← numArg a
    pure (o.withWind fun c => { c with speed := x })
  | .setWindDir a => do
    let x ← numArg a
    guard' (between 0 x 360) .assert
    pure (o.withWind fun c => { c with dir := x })
  | .setDate none => throw OErr.assert
  | .setDate (some (m, d)) => do
    let x ← mkDate m d false
    pure (o.withSky fun c => { c with date := x })
  | .setDst b => pure (o.withSky fun c => { c with dst := b })
  | .setClearness a =>
    match o.dd.sky.kind with
    | .clear _ => do
      let x ← numArg a
      guard' (between 0 x (6 / 5)) .assert
      pure (o.withSky fun c => { c with kind := .clear x })
    | _ => throw OErr.attr
  | .setTauB a =>
    match o.dd.sky.kind with
    | .tau _ t u => do
      let x ← numArg a
      pure (o.withSky fun c => { c with kind := .tau x t u })
    | _ => throw OErr.attr
  | .setTauD a =>
    match o.dd.sky.kind with
    | .tau b _ u => do
      let x ← numArg a
      pure (o.withSky fun c => { c with kind := .tau b x u })
    | _ => throw OErr.attr
  | .setUse2017 v =>
    match o.dd.sky.kind with
    | .tau b t _ => pure (o.withSky fun c => { c with kind := .tau b t v })
    | _ => throw OErr.attr
  | .setBeam s =>
    match o.dd.sky.kind with
    | .base _ f => pure (o.withSky fun c => { c with kind := .base s f })
    | _ => pure o
  | .setDiff s =>
    match o.dd.sky.kind with
    | .base b _ => pure (o.withSky fun c => { c with kind := .base b s })
    | _ => pure o
  | .setLoc none => throw OErr.assert
  | .setLoc (some l) => do
    let l' ← mkLoc l
    pure { o with loc := l' }
  | .newDb mx rng mt ms => do
    let c ← mkDryBulb mx rng mt ms
    pure (o.withDb fun _ => c)
  | .newHum ty v p r s sc w => do
    let c ← mkHumidity ty v p r s sc w
    pure (o.withHum fun _ => c)
  | .newWind ws wd => do
    let c ← mkWind ws wd
    pure (o.withWind fun _ => c)
  | .newSky none => throw OErr.assert
  | .newSky (some a) => do
    let c ← mkSky a
    pure (o.withSky fun _ => c)

/-- Is the operation inside the model?  (Beam / diffuse schedule names exist on the plain sky only.) -/
def inModel (o : Obj ν) : Op ν → Bool
  | .setBeam _ => o.dd.sky.kind.tag == .base
  | .setDiff _ => o.dd.sky.kind.tag == .base
  | _ => true

/-- One step of the object: the new state and what the caller sees. -/
def step (o : Obj ν) (op : Op ν) : Obj ν × Out :=
  if inModel o op then
    match apply o op with
    | .ok o' => (o', .done)
    | .error e => (o, .refused e)
  else (o, .outside)

/-- A whole history. -/
def runOps (o : Obj ν) : List (Op ν) → Obj ν
  | [] => o
  | op :: rest => runOps (step o op).1 rest

/-- The states after each step (what the driver prints). -/
def trace (o : Obj ν) : List (Op ν) → List (Obj ν × Out)
  | [] => []
  | op :: rest => step o op :: trace (step o op).1 rest

/-- the constructor arguments that describe an existing sky kind -/
def kindArgs : SkyKind ν → SkyKind (Arg ν)
  | .base b f => .base b f
  | .clear c => .clear (.num c)
  | .tau b t u => .tau (.num b) (.num t) u

/-- A design day built from scratch from a public state: every constructor runs its checks
    (`DesignDay(name, day_type, Location(..), DryBulbCondition(..), HumidityCondition(..), WindCondition(..),
    <sky class>(Date(..), ..))`). -/
def construct (o : Obj ν) : Except OErr (Obj ν) := do
  let loc ← mkLoc o.loc
  let db ← mkDryBulb (.num o.dd.db.max) (.num o.dd.db.range) o.dd.db.modType o.dd.db.modSched
  let hum ← mkHumidity (.str (humTypeName o.dd.hum.ty)) (.num o.dd.hum.value) (.num o.dd.hum.pressure)
    o.dd.hum.rain o.dd.hum.snow o.dd.hum.schedule o.dd.hum.wetBulbRange
  let wind ← mkWind (.num o.dd.wind.speed) (.num o.dd.wind.dir)
  let sky ← mkSky ⟨o.dd.sky.date.month, o.dd.sky.date.day, o.dd.sky.date.leap, o.dd.sky.dst, kindArgs o.dd.sky.kind⟩
  guard' (dayTypes.contains o.dd.dayType) .assert
  pure ⟨{ name := o.dd.name, dayType := o.dd.dayType, db := db, hum := hum, wind := wind, sky := sky }, loc⟩

/-- The invariant of a constructed object: what the constructors assert. -/
structure Inv (o : Obj ν) : Prop where
  dayType : dayTypes.contains o.dd.dayType = true
  range : 0 ≤ toRat o.dd.db.range
  windDir : between 0 o.dd.wind.dir 360 = true
  date : o.dd.sky.date.valid
  clear : ∀ c, o.dd.sky.kind = .clear c → between 0 c (6 / 5) = true
  lat : between (-90) o.loc.lat 90 = true
  lon : between (-180) o.loc.lon 180 = true
  tz : between (-12) o.loc.tz 14 = true

end

end DD
