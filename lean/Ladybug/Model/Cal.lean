/-
  Model of ladybug/dt.py (DateTime / Date / Time).  Hand-written from the code as it exists;
  the month tables come from `Gen.Dt` (regenerated from dt.py on every run).  No Mathlib.

  Correspondence ops: see Drv/C08.lean.  Theorems: Props/C08.lean.
-/
import Ladybug.Py
import Ladybug.Gen.DtTables

namespace Cal

/-- Number of days of the (normal | leap) reference year. -/
def daysInYear (leap : Bool) : Nat := if leap then 366 else 365

/-- Minutes of the reference year. -/
def minutesInYear (leap : Bool) : Nat := 1440 * daysInYear leap

/-- Month lengths – the calendar fact the code's tables are checked against (`C08_tables`). -/
def monthLens (leap : Bool) : List Nat :=
  [31, if leap then 29 else 28, 31, 30, 31, 30, 31, 31, 30, 31, 30, 31]

/-- Days before month `m` (1-based), from `monthLens`. -/
def daysBefore (leap : Bool) (m : Nat) : Nat := ((monthLens leap).take (m - 1)).sum

def monthLen (leap : Bool) (m : Nat) : Nat := (monthLens leap).getD (m - 1) 0

/-- A ladybug `DateTime` (the `datetime` base class fixes year 2016/2017 by the leap flag). -/
structure DT where
  month : Nat
  day : Nat
  hour : Nat
  minute : Nat
  leap : Bool
deriving DecidableEq, Repr, Inhabited

namespace DT

/-- What `datetime.__new__` accepts. -/
def valid (d : DT) : Prop :=
  1 ≤ d.month ∧ d.month ≤ 12 ∧ 1 ≤ d.day ∧ d.day ≤ monthLen d.leap d.month ∧ d.hour ≤ 23 ∧ d.minute ≤ 59

instance (d : DT) : Decidable d.valid := by unfold valid; infer_instance

/-- `timetuple().tm_yday`. -/
def doy (d : DT) : Nat := daysBefore d.leap d.month + d.day
/-- `int_hoy`. -/
def intHoy (d : DT) : Nat := (d.doy - 1) * 24 + d.hour
/-- `moy`. -/
def moy (d : DT) : Nat := d.intHoy * 60 + d.minute
/-- `hoy` = (doy-1)*24 + hour + minute/60 (exact). -/
def hoy (d : DT) : Rat := ((d.doy - 1) * 24 + d.hour : Nat) + (d.minute : Rat) / 60

end DT

inductive Err where
  | value   -- ValueError
  | index   -- IndexError
  | type    -- TypeError
deriving DecidableEq, Repr

/-- `Time._calculate_hour_and_minute(hour + minute / 60.0)` for integer hour/minute arguments:
    the float computation is modelled exactly as carry of whole hours (checked exhaustively
    against CPython for hour 0..30 x minute 0..200 by the C08 correspondence). -/
def normHM (hour minute : Nat) : Nat × Nat := (hour + minute / 60, minute % 60)

/-- `DateTime.__new__(month, day, hour, minute, leap_year)` on integers. -/
def DT.make (month day hour minute : Nat) (leap : Bool) : Except Err DT :=
  let hm := normHM hour minute
  let d : DT := ⟨month, day, hm.1, hm.2, leap⟩
  if d.valid then .ok d else .error .value

/-- The `for month_count in range(12): if x < table[month_count + 1]` search; returns the
    1-based month.  `none` models the `UnboundLocalError -> ValueError` path. -/
def findMonth (tbl : List Nat) (x : Nat) : Option Nat :=
  let rec go (fuel k : Nat) : Option Nat :=
    match fuel with
    | 0 => none
    | fuel + 1 =>
      match tbl[k + 1]? with
      | none => none
      | some t => if x < t then some (k + 1) else go fuel (k + 1)
  go 12 0

def minuteTable (leap : Bool) : List Nat :=
  if leap then Gen.Dt.minutesUntilMonthLeap else Gen.Dt.minutesUntilMonth

def dayTable (leap : Bool) : List Nat :=
  if leap then Gen.Dt.daysUntilMonthLeap else Gen.Dt.daysUntilMonth

/-- `DateTime.from_moy` for a non-negative minute of the year. -/
def fromMoyNat (leap : Bool) (moy : Nat) : Except Err DT :=
  match findMonth (minuteTable leap) moy with
  | none => .error .value
  | some month =>
    let day := (moy - (minuteTable leap).getD (month - 1) 0) / 1440 + 1
    DT.make month day (moy / 60 % 24) (moy % 60) leap

/-- `DateTime.from_moy` on any integer (after `int(moy)`).  Negative input does not raise in the
    code for -1440 < moy < 0: the loop picks month 1, `int(x / 1440)` truncates toward zero and the
    float `%` wraps hour and minute; it is modelled as is (out of the property's domain). -/
def fromMoy (leap : Bool) (moy : Int) : Except Err DT :=
  if 0 ≤ moy then fromMoyNat leap moy.toNat
  else if -1440 < moy then
    DT.make 1 1 (Py.mod (Py.floordiv moy 60) 24).toNat (Py.mod moy 60).toNat leap
  else .error .value

/-- `DateTime.from_hoy(hoy)`: `from_moy(round(hoy * 60))`; the argument here is the product
    `hoy * 60` as an exact real (the driver forms the IEEE product). -/
def fromHoyTimes60 (leap : Bool) (x : Rat) : Except Err DT := fromMoy leap (Py.round x)

/-- `add_minute` (argument already `int(minute)`). -/
def DT.addMinute (d : DT) (k : Int) : Except Err DT := fromMoy d.leap ((d.moy : Int) + k)
def DT.subMinute (d : DT) (k : Int) : Except Err DT := d.addMinute (-k)
/-- `add_hour(h)` = `add_minute(h * 60)` → `int(h*60)`; argument is the exact product. -/
def DT.addHourTimes60 (d : DT) (x : Rat) : Except Err DT := d.addMinute (Py.truncRat x)

/-- A ladybug `Date`. -/
structure D where
  month : Nat
  day : Nat
  leap : Bool
deriving DecidableEq, Repr, Inhabited

def D.valid (d : D) : Prop := 1 ≤ d.month ∧ d.month ≤ 12 ∧ 1 ≤ d.day ∧ d.day ≤ monthLen d.leap d.month
instance (d : D) : Decidable d.valid := by unfold D.valid; infer_instance
def D.doy (d : D) : Nat := daysBefore d.leap d.month + d.day

def D.make (month day : Int) (leap : Bool) : Except Err D :=
  if 1 ≤ month ∧ 1 ≤ day then
    let d : D := ⟨month.toNat, day.toNat, leap⟩
    if d.valid then .ok d else .error .value
  else .error .value

/-- `Date.from_doy`, including the `day == 0 -> month -= 1` branch and Python's `table[-1]`
    lookup when the month becomes 0. -/
def fromDoy (leap : Bool) (doy : Int) : Except Err D :=
  if doy < 0 then
    -- month 1 is selected (doy < table[1]); day = doy - 0 < 0 -> Date raises ValueError
    .error .value
  else
    let tbl := dayTable leap
    match findMonth tbl doy.toNat with
    | none => .error .value
    | some month =>
      let day : Int := doy - (tbl.getD (month - 1) 0 : Nat)
      if day = 0 then
        let month' : Int := (month : Int) - 1
        match Py.getIdx? tbl (month' - 1) with
        | none => .error .index
        | some t => D.make month' (doy - (t : Int)) leap
      else D.make month day leap

/-- A ladybug `Time`. -/
structure T where
  hour : Nat
  minute : Nat
deriving DecidableEq, Repr, Inhabited

def T.valid (t : T) : Prop := t.hour ≤ 23 ∧ t.minute ≤ 59
instance (t : T) : Decidable t.valid := by unfold T.valid; infer_instance
def T.mod (t : T) : Nat := t.hour * 60 + t.minute

def T.make (hour minute : Nat) : Except Err T :=
  let hm := normHM hour minute
  let t : T := ⟨hm.1, hm.2⟩
  if t.valid then .ok t else .error .value

/-- `Time.from_mod(mod)`: `_calculate_hour_and_minute(mod / 60.0)` then the constructor. -/
def fromMod (m : Nat) : Except Err T := T.make (m / 60) (m % 60)

/-! ### Serial forms -/

/-- `to_array()`: 4 integers, plus a trailing `1` for leap years. -/
def DT.toArray (d : DT) : List Nat :=
  if d.leap then [d.month, d.day, d.hour, d.minute, 1] else [d.month, d.day, d.hour, d.minute]

/-- `from_array(arr)` = `cls(*arr)`; the 5th entry is used as a truth value. -/
def DT.fromArray (a : List Nat) : Except Err DT :=
  match a with
  | [mo, da, h, mi] => DT.make mo da h mi false
  | [mo, da, h, mi, l] => DT.make mo da h mi (l != 0)
  | _ => .error .type

def D.toArray (d : D) : List Nat := if d.leap then [d.month, d.day, 1] else [d.month, d.day]
def D.fromArray (a : List Nat) : Except Err D :=
  match a with
  | [mo, da] => D.make mo da false
  | [mo, da, l] => D.make mo da (l != 0)
  | _ => .error .type

def T.toArray (t : T) : List Nat := [t.hour, t.minute]
def T.fromArray (a : List Nat) : Except Err T :=
  match a with
  | [h, m] => T.make h m
  | _ => .error .type

/-- `to_dict()` as (key, value) pairs without the constant `type` tag; `leap_year` only if set. -/
def DT.toDict (d : DT) : List (String × Nat) :=
  [("month", d.month), ("day", d.day), ("hour", d.hour), ("minute", d.minute)] ++
    (if d.leap then [("leap_year", 1)] else [])

def lookupD (kv : List (String × Nat)) (k : String) (dflt : Nat) : Nat :=
  match kv.find? (·.1 == k) with
  | some p => p.2
  | none => dflt

/-- `from_dict(data)`: every key optional with the documented default. -/
def DT.fromDict (kv : List (String × Nat)) : Except Err DT :=
  DT.make (lookupD kv "month" 1) (lookupD kv "day" 1) (lookupD kv "hour" 0) (lookupD kv "minute" 0)
    (lookupD kv "leap_year" 0 != 0)

def D.toDict (d : D) : List (String × Nat) :=
  [("month", d.month), ("day", d.day)] ++ (if d.leap then [("leap_year", 1)] else [])
def D.fromDict (kv : List (String × Nat)) : Except Err D :=
  D.make (lookupD kv "month" 1) (lookupD kv "day" 1) (lookupD kv "leap_year" 0 != 0)

def T.toDict (t : T) : List (String × Nat) := [("hour", t.hour), ("minute", t.minute)]
def T.fromDict (kv : List (String × Nat)) : Except Err T :=
  T.make (lookupD kv "hour" 0) (lookupD kv "minute" 0)

/-- Arguments of `__reduce_ex__` (what pickle / copy / deepcopy re-invoke the class with).
    The flag `withLeap` records whether the code passes `leap_year` (regenerated: `Gen`-free, it is
    observed by the correspondence op `reduce`). -/
def DT.reduceArgs (d : DT) : List Nat :=
  if d.leap then [d.month, d.day, d.hour, d.minute, 1] else [d.month, d.day, d.hour, d.minute, 0]
def DT.rebuild (a : List Nat) : Except Err DT := DT.fromArray a

def D.reduceArgs (d : D) : List Nat := [d.month, d.day, if d.leap then 1 else 0]
def D.rebuild (a : List Nat) : Except Err D := D.fromArray a

/-- `__str__` at token level: `strftime('%d %b %H:%M')` prints day, month name, hour, minute. -/
def DT.strTokens (d : DT) : Nat × String × Nat × Nat :=
  (d.day, Gen.Dt.monthNames.getD (d.month - 1) "?", d.hour, d.minute)

/-- Token-level model of `strptime('2016 ' + s, '%Y %d %b %H:%M')` followed by the constructor with
    the explicit `leap_year` argument.  The text is parsed inside the leap year 2016 ("29 Feb" is
    accepted by the parser); the constructor then validates against the requested leap flag. -/
def DT.parseTokens (t : Nat × String × Nat × Nat) (leap : Bool) : Except Err DT :=
  match Gen.Dt.monthNames.idxOf? t.2.1 with
  | none => .error .value
  | some mi =>
    if 1 ≤ t.1 ∧ t.1 ≤ monthLen true (mi + 1) ∧ t.2.2.1 ≤ 23 ∧ t.2.2.2 ≤ 59 then
      DT.make (mi + 1) t.1 t.2.2.1 t.2.2.2 leap
    else .error .value

/-- Character level (executable, tied by correspondence only): zero-padded rendering. -/
def DT.str (d : DT) : String :=
  let t := d.strTokens
  Py.pad2 t.1 ++ " " ++ t.2.1 ++ " " ++ Py.pad2 t.2.2.1 ++ ":" ++ Py.pad2 t.2.2.2

/-- Character level lexer of `dd Mon HH:MM` (executable, tied by correspondence only). -/
def DT.lex (s : String) : Option (Nat × String × Nat × Nat) :=
  match s.splitOn " " with
  | [dd, mon, hm] =>
    match hm.splitOn ":" with
    | [hh, mm] =>
      match dd.toNat?, hh.toNat?, mm.toNat? with
      | some da, some h, some m => some (da, mon, h, m)
      | _, _, _ => none
    | _ => none
  | _ => none

def DT.parse (s : String) (leap : Bool) : Except Err DT :=
  match DT.lex s with
  | some t => DT.parseTokens t leap
  | none => .error .value

end Cal
