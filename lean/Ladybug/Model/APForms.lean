/-
  Round 4 (input shapes, aliasing): the dictionary form with `None` values and the side effect of
  `AnalysisPeriod.from_dict` on the caller's dictionary, the sparse dictionary form, and the
  constructor fed with TEXT for its numbers (what `from_string` does).  Additive to Model/AP.lean
  (whose API is frozen); no Mathlib.  Theorems: Props/C04.lean (round-4 section), helper lemmas
  Proofs/C04Forms.lean.
-/
import Ladybug.Model.AP

open Cal

namespace AP

/-- A caller's dictionary: keys in insertion order, values possibly `None`. -/
abbrev DictV := List (String × Option Int)

/-- The eight keys `from_dict` reads, in the order of its `keys` tuple. -/
def dictKeys : List String :=
  ["st_month", "st_day", "st_hour", "end_month", "end_day", "end_hour", "timestep", "is_leap_year"]

/-- `key in data`. -/
def hasKey (d : DictV) (k : String) : Bool := d.any (·.1 == k)

/-- `data[key]` where a missing key and a `None` value are the same thing for the constructor. -/
def lookupV (d : DictV) (k : String) : Option Int := ((d.find? (·.1 == k)).map (·.2)).join

/-- One round of `if key not in data: data[key] = None`. -/
def fillKey (d : DictV) (k : String) : DictV := if hasKey d k then d else d ++ [(k, none)]

/-- The dictionary as `from_dict` LEAVES it: the call writes `None` under every key that was
    missing (the caller's object is edited in place). -/
def fillNone (d : DictV) : DictV := dictKeys.foldl fillKey d

/-- `from_dict(data)` on a dictionary with optional values. -/
def fromDictV (d : DictV) : Except Err AP :=
  mkOpt? (lookupV d "st_month") (lookupV d "st_day") (lookupV d "st_hour")
    (lookupV d "end_month") (lookupV d "end_day") (lookupV d "end_hour")
    (lookupV d "timestep") (orD (lookupV d "is_leap_year") 0 != 0)

/-- A dictionary without `None` values, as the frozen model `fromDict` takes it. -/
def DictV.ofInts (kv : List (String × Int)) : DictV := kv.map fun p => (p.1, some p.2)

/-- The documented defaults of the constructor, as dictionary entries. -/
def dictDefaults : List (String × Int) :=
  [("st_month", 1), ("st_day", 1), ("st_hour", 0), ("end_month", 12), ("end_day", 31), ("end_hour", 23),
   ("timestep", 1), ("is_leap_year", 0)]

/-- The sparse dictionary form: `to_dict()` without the entries that equal the documented default. -/
def sparseDict (ap : AP) : List (String × Int) := ap.toDict.filter fun p => !(dictDefaults.contains p)

/-- The constructor called with TEXT for the six date/hour arguments (as `from_string` calls it)
    and an integer timestep: `fromTokens` in constructor-argument order. -/
def mkText? (stM stD stH endM endD endH ts : Int) (leap : Bool) : Except Err AP :=
  fromTokens [some stM, some stD, some endM, some endD, some stH, some endH, some ts] leap

#guard fromDictV [("timestep", some 2), ("st_month", none)] = .ok ⟨1, 1, 0, 12, 31, 23, 2, false⟩
#guard fillNone [("timestep", some 2), ("st_month", none)] =
  [("timestep", some 2), ("st_month", none), ("st_day", none), ("st_hour", none), ("end_month", none),
   ("end_day", none), ("end_hour", none), ("is_leap_year", none)]
#guard sparseDict ⟨1, 1, 0, 12, 31, 23, 1, false⟩ = []
#guard sparseDict ⟨6, 1, 0, 12, 5, 23, 4, true⟩ = [("st_month", 6), ("end_day", 5), ("timestep", 4), ("is_leap_year", 1)]
#guard fromDict (sparseDict ⟨6, 1, 0, 12, 5, 23, 4, true⟩) = .ok ⟨6, 1, 0, 12, 5, 23, 4, true⟩
#guard mkText? 3 5 6 3 7 18 2 false = mk? 3 5 6 3 7 18 2 false
#guard mkText? 0 5 6 3 7 18 2 false = .error .value          -- the text "0" is not a missing month
#guard mk? 0 5 6 3 7 18 2 false = .ok ⟨1, 5, 6, 3, 7, 18, 2, false⟩

end AP
