/-
  Round 4 (C09): the curve families of psychchart.py that are drawn from the psychrometric functions
  (relative_humidity_polyline below the cut-off, _compute_enthalpy_range, _compute_wb_range), written over the
  same generic numeric interface as Model/Psychro.lean.  No Mathlib.  `drv_c09 rhline` executes `rhVertices`.
-/
import Ladybug.Model.Psychro

namespace Psychro

open Transc

section generic

variable {α : Type} [Add α] [Sub α] [Mul α] [Div α] [Neg α] [OfScientific α]
  [LT α] [LE α] [DecidableLT α] [DecidableLE α] [Transc α]

/-- a Celsius temperature in the chart's own unit (`TEMP_TYPE.to_unit(.., 'F', 'C')` on IP charts) -/
def Chart.ofC (c : Chart α) (tC : α) : α := if c.useIp then cToF tC else tC

/-- a temperature of the chart's unit in Celsius (as in `plot_point`) -/
def Chart.toC (c : Chart α) (t : α) : α := if c.useIp then fToC t else t

/-- `relative_humidity_polyline(rh, 1)`: the vertices below the cut-off at the maximum humidity ratio.
    `temps` = `_temp_range` in the chart's unit (every 5 degrees from the minimum, then the maximum). -/
def Chart.rhVertices (c : Chart α) (hrMax rh : α) (temps : List α) : List (α × α) :=
  ((temps.map fun t => (t, humidRatioFromDbRh (c.toC t) rh c.pressure)).takeWhile
      fun q => decide (q.2 < hrMax)).map fun q => (c.tX q.1, c.hrY q.2)

/-- `_compute_enthalpy_range`: the two points an enthalpy line is drawn through before it is clipped:
    the dry bulb of humidity ratio 0 just above the base line and the dry bulb of humidity ratio `hrTop`
    at the height of the maximum humidity ratio.  The code passes the literal 0.03 for `hrTop`
    (`enthLineEndsCode`); fixes/C09_enthalpy_lines_max_hr.patch passes the maximum humidity ratio. -/
def Chart.enthLineEnds (c : Chart α) (enth ref hrTop hrMax : α) : (α × α) × (α × α) :=
  let st := dbTempFromEnthHr enth 0.0 ref
  let en := dbTempFromEnthHr enth hrTop ref
  ((c.tX (c.ofC st), c.baseY + 1e-6), (c.tX (c.ofC en), c.hrY hrMax))

/-- the enthalpy line ends as the code computes them -/
def Chart.enthLineEndsCode (c : Chart α) (enth ref hrMax : α) : (α × α) × (α × α) :=
  c.enthLineEnds enth ref 0.03 hrMax

/-- `_compute_wb_range`: the two points a wet-bulb line is drawn through (rh 0 just below the base line,
    rh 100 on the saturation curve); `wbC` is the wet bulb in Celsius. -/
def Chart.wbLineEnds (c : Chart α) (wbC : α) : (α × α) × (α × α) :=
  let st := (dbTempAndHrFromWbRh wbC 0.0 c.pressure).1
  let e := dbTempAndHrFromWbRh wbC 100.0 c.pressure
  ((c.tX (c.ofC st), c.baseY - 1e-6), (c.tX (c.ofC e.1), c.hrY e.2))

/-- `PsychrometricChart.data_points`: one point for every (temperature, humidity) pair of the chart's data, in the
    order of the data.  The chart's limits (minimum / maximum temperature, maximum humidity ratio) play no part:
    a state that does not fit on the chart keeps its entry (only the coloured mesh leaves it out), so that entry
    `i` is the position of state `i`.  `drv_c09 datapts` executes it. -/
def Chart.dataPoints (c : Chart α) (temps rhs : List α) : List (α × α) :=
  (temps.zip rhs).map fun q => c.dataPoint q.1 q.2

end generic

end Psychro
