/-
  Model of the filters of ladybug/datacollection.py and ladybug/_datacollectionbase.py (property C02)
  on top of the analysis-period model `AP` (Model/AP.lean) and the calendar `Cal`.  No Mathlib.

  Hand-written from the code as it exists, WITH the five repairs of fixes/C02_*.patch applied
  (marked "Repaired behaviour" below; without them every filter of a year-wrapping continuous
  collection is wrong, see Props/C02.lean):
    * C02_wrapping_moys_year_length   `eoy_ind = 8760·ts − st_ind` (8784 leap), pinned 8759 / 8783
    * C02_wrapping_moys_start_step    `ind >= st_ind`, pinned `>`
    * C02_wrapping_period_indices     slice bounds counted modulo the year
    * C02_wrapping_subset_clip        `_get_analysis_period_subset` on a wrapping collection
    * C02_disc_period_order           the discontinuous period filter answers in the period's order

  Conventions
    * a date-time is its minute of the year (`DateTime.moy`, a bijection by C08); the leap flag of the
      date-times is the one of the header period (compared by the harness);
    * values are a type parameter `α`: the filters only move values (free theorem: agreement on
      distinct ids determines the behaviour on every list);
    * a discontinuous / daily / monthly / monthly-per-hour collection is its header period and the
      list of (key, value) pairs in collection order (`len(values) == len(datetimes)` is a
      constructor invariant of the classes, so `zip` loses nothing);
    * a continuous collection is its header period and its values; its date-times are `ap.moys`.

  Correspondence ops: Drv/C02.lean (harness/props/c02.py).  Theorems: Props/C02.lean.
-/
import Ladybug.Py
import Ladybug.Model.AP

open Cal

namespace Filter

/-- Exceptions the filters raise. -/
inductive FErr where
  | assert   -- AssertionError
  | index    -- IndexError
  | zero     -- ZeroDivisionError
deriving DecidableEq, Repr

/-! ### Collections -/

/-- `HourlyDiscontinuousCollection`, and with other key types `DailyCollection` (day of year),
    `MonthlyCollection` (month), `MonthlyPerHourCollection` ((month, hour, minute)). -/
structure Keyed (κ α : Type) where
  ap : AP
  pairs : List (κ × α)
  /-- `validated_a_period` (False from the constructors, True on everything derived from a
      continuous collection, copied by the filters of the hourly and the base class). -/
  validated : Bool := false
deriving Repr

/-- `HourlyDiscontinuousCollection`: keys are minutes of the year. -/
abbrev Disc (α : Type) := Keyed Nat α

/-- `HourlyContinuousCollection`. -/
structure Cont (α : Type) where
  ap : AP
  vals : List α
deriving Repr

/-- The constructor of the keyed classes (`BaseCollection._check_values`): at least one value. -/
def Keyed.mk? {κ α : Type} (ap : AP) (pairs : List (κ × α)) (validated : Bool := false) :
    Except FErr (Keyed κ α) :=
  if pairs.isEmpty then .error .assert else .ok ⟨ap, pairs, validated⟩

/-- The constructor of `HourlyContinuousCollection`: start hour 0, end hour 23,
    `len(values) == len(header.analysis_period)`. -/
def Cont.mk? {α : Type} (ap : AP) (vals : List α) : Except FErr (Cont α) :=
  if ap.st_hour = 0 ∧ ap.end_hour = 23 ∧ vals.length = ap.len then .ok ⟨ap, vals⟩ else .error .assert

/-- What every constructed continuous collection satisfies. -/
def Cont.WF {α : Type} (c : Cont α) : Prop :=
  c.ap.WF ∧ c.ap.st_hour = 0 ∧ c.ap.end_hour = 23 ∧ c.vals.length = c.ap.len

instance {α : Type} (c : Cont α) : Decidable c.WF := by unfold Cont.WF; infer_instance

/-- `datetimes` of a continuous collection (`header.analysis_period.datetimes`) as minutes. -/
def Cont.moys {α : Type} (c : Cont α) : List Nat := c.ap.moys

/-- The (date-time, value) pairs of a continuous collection. -/
def Cont.pairs {α : Type} (c : Cont α) : List (Nat × α) := c.ap.moys.zip c.vals

/-- `to_discontinuous()`. -/
def Cont.toDisc {α : Type} (c : Cont α) : Disc α := ⟨c.ap, c.pairs, true⟩

/-! ### The generic search (`_filter_by_moys_slow`, `filter_by_doys`, `filter_by_months`,
    `filter_by_months_per_hour`): `for i, d in enumerate(self.datetimes): if d in request` -/

/-- The loop shared by the four key filters. -/
def keyFilter {κ α : Type} [DecidableEq κ] (req : List κ) : List (κ × α) → List (κ × α)
  | [] => []
  | p :: ps => if p.1 ∈ req then p :: keyFilter req ps else keyFilter req ps

/-- `_filter_by_moys_slow(moys)`: the request may hold any integers (`d.moy in moys`). -/
def slow {α : Type} (req : List Int) : List (Nat × α) → List (Nat × α)
  | [] => []
  | p :: ps => if (p.1 : Int) ∈ req then p :: slow req ps else slow req ps

/-- `HourlyDiscontinuousCollection.filter_by_moys`: same header, filtered pairs. -/
def Disc.filterByMoys {α : Type} (req : List Int) (c : Disc α) : Except FErr (Disc α) :=
  Keyed.mk? c.ap (slow req c.pairs) c.validated

/-- `HourlyDiscontinuousCollection._check_analysis_period`. -/
def checkAP (src f : AP) : Bool := src.timestep == f.timestep && src.leap == f.leap

/-- `sorted(zip(datetimes, values), key=lambda pair: order[pair[0].moy])` with
    `order = {moy: i for i, moy in enumerate(period.moys)}`: a stable sort by the position of the
    minute in the period's enumeration (positions are computed once, as the dictionary does). -/
def sortByPeriod {α : Type} (f : AP) (ps : List (Nat × α)) : List (Nat × α) :=
  ((ps.map fun p => (f.moys.idxOf p.1, p)).mergeSort fun x y => decide (x.1 ≤ y.1)).map Prod.snd

/-- `HourlyDiscontinuousCollection.filter_by_analysis_period`: the period's steps through the slow
    search, the header period is replaced by the filter period, and the pairs are put in the time
    order of the period.

    Repaired behaviour (fixes/C02_disc_period_order.patch): the pinned code kept the order of the
    source, so a filter period that wraps the year end returned the January steps before the
    December steps under a header period that starts in December. -/
def Disc.filterByAP {α : Type} (f : AP) (c : Disc α) : Except FErr (Disc α) :=
  if checkAP c.ap f = false then .error .assert
  else (Disc.filterByMoys (f.moys.map Int.ofNat) c).map fun r =>
    { r with ap := f, pairs := sortByPeriod f r.pairs }

/-- `HourlyDiscontinuousCollection.filter_by_hoys`: `int(round(hour * 60))`; the argument holds the
    products `hour * 60` as exact numbers (the driver forms the IEEE products). -/
def Disc.filterByHoys {α : Type} (x60 : List Rat) (c : Disc α) : Except FErr (Disc α) :=
  Disc.filterByMoys (x60.map Py.round) c

/-! ### Index arithmetic of the continuous collection -/

/-- Steps of a whole year: `8760 * timestep` (`8784 * timestep` in a leap year). -/
def yearSteps (ap : AP) : Int := (if ap.leap then 8784 else 8760) * (ap.timestep : Int)

/-- `t_s = 60 / timestep` (a float in the code; exact for the 12 valid timesteps). -/
def tS (ap : AP) : Rat := (60 : Rat) / (ap.timestep : Rat)

/-- One index of `HourlyContinuousCollection.filter_by_moys`.

    Repaired behaviour: in the wrapping branch the pinned code has `eoy_ind = 8759·ts − st_ind`
    (8783 leap; every step after the year end is answered with the pair `timestep` positions
    earlier) and tests `ind > st_ind` (the first step of the collection is sent to the other branch
    and raises IndexError). -/
def moyIndex (ap : AP) (m : Int) : Int :=
  let stInd : Rat := (ap.stMoy : Rat) / tS ap
  if ap.isReversed = false then Py.truncRat ((m : Rat) / tS ap - stInd)
  else
    let eoyInd : Rat := (yearSteps ap : Rat) - stInd
    let ind : Rat := (m : Rat) / tS ap
    if stInd ≤ ind then Py.truncRat (ind - stInd) else Py.truncRat (ind + eoyInd)

/-- `[self._values[i] for i in _filt_indices]` with Python indexing (negative wraps, IndexError). -/
def pick {β : Type} (l : List β) (idx : List Int) : Except FErr (List β) :=
  idx.mapM fun i => match Py.getIdx? l i with
    | some v => .ok v
    | none => .error .index

/-- `HourlyContinuousCollection.filter_by_moys`: values and date-times at the computed indices, in
    request order, as a discontinuous collection under a copy of the header. -/
def Cont.filterByMoys {α : Type} (req : List Int) (c : Cont α) : Except FErr (Disc α) := do
  let idx := req.map (moyIndex c.ap)
  let vs ← pick c.vals idx
  let ds ← pick c.ap.moys idx
  Keyed.mk? c.ap (ds.zip vs) true

/-- `HourlyContinuousCollection.filter_by_hoys`: hours not among `header.analysis_period.hoys` are
    dropped, the rest goes through `int(round(hour * 60))`.  Each requested hour is given as the pair
    (exact value of the float, exact value of the float product `hour * 60`); `hoyOf m` is the exact
    value of the float `m / 60.0` (the driver computes the three with IEEE arithmetic). -/
def Cont.filterByHoys {α : Type} (hoyOf : Nat → Rat) (hs : List (Rat × Rat)) (c : Cont α) :
    Except FErr (Disc α) :=
  let existing := c.ap.moys.map hoyOf
  Cont.filterByMoys ((hs.filter fun h => existing.contains h.1).map fun h => Py.round h.2) c

/-- `_get_analysis_period_subset`: the filter period clipped to the days and hours of the
    collection (an annual collection keeps the filter as it is).

    Repaired behaviour: when the collection wraps the year end only the days between its end and
    its start are outside of it (`… and (not wraps or doy > src_end)`); the pinned code compares day
    numbers as if the collection did not wrap and *extends* every non-wrapping filter to the end
    (or from the start) of the collection. -/
def apSubset (src f : AP) : AP :=
  if src.isAnnual then f
  else
    let wraps := src.isReversed
    let srcSt := src.stTime.doy
    let srcEnd := src.endTime.doy
    let stOut := decide (f.stTime.doy < srcSt) && (!wraps || decide (f.stTime.doy > srcEnd))
    let endOut := decide (f.endTime.doy > srcEnd) && (!wraps || decide (f.endTime.doy < srcSt))
    { st_month := if stOut then src.st_month else f.st_month
      st_day := if stOut then src.st_day else f.st_day
      st_hour := if f.st_hour < src.st_hour then src.st_hour else f.st_hour
      end_month := if endOut then src.end_month else f.end_month
      end_day := if endOut then src.end_day else f.end_day
      end_hour := if f.end_hour > src.end_hour then src.end_hour else f.end_hour
      timestep := f.timestep
      leap := f.leap }

/-- Start index of the slice of `filter_by_analysis_period`.

    Repaired behaviour: counted from the first step of the collection *through the year end*
    (`int(stm / t_s − src_ind) % yr_len`); the pinned code has no `% yr_len`, so on a wrapping
    collection every filter that starts after the year end gets a negative index. -/
def sliceStart (src f : AP) : Int :=
  Py.mod (Py.truncRat (((f.stMoy : Int) : Rat) / tS f - (src.stMoy : Rat) / tS f)) (yearSteps f)

/-- End index (exclusive): `int(endm / t_s − src_ind) % yr_len + timestep`. -/
def sliceEnd (src f : AP) : Int :=
  Py.mod (Py.truncRat (((f.endMoy : Int) : Rat) / tS f - (src.stMoy : Rat) / tS f)) (yearSteps f) + (f.timestep : Int)

/-- The two slice shapes: `values[st:end]` or `values[st:] + values[:end]`. -/
def sliceVals {α : Type} (vals : List α) (st en : Int) : List α :=
  if st < en then Py.slice vals st en
  else Py.slice vals st vals.length ++ Py.slice vals 0 en

/-- Result of `HourlyContinuousCollection.filter_by_analysis_period`. -/
inductive Res (α : Type) where
  | cont : Cont α → Res α
  | disc : Disc α → Res α
deriving Repr

/-- `HourlyContinuousCollection.filter_by_analysis_period`. -/
def Cont.filterByAP {α : Type} (f : AP) (c : Cont α) : Except FErr (Res α) :=
  if checkAP c.ap f = false then .error .assert
  else
    let f' := apSubset c.ap f
    if f'.st_hour = 0 ∧ f'.end_hour = 23 then
      (Cont.mk? f' (sliceVals c.vals (sliceStart c.ap f') (sliceEnd c.ap f'))).map Res.cont
    else
      (Cont.filterByMoys (f'.moys.map Int.ofNat) c).map fun r => Res.disc { r with ap := f' }

/-! ### Value filters of the base class (`_filter_by_pattern`, `_filter_by_range`, `_filter_by_statement`) -/

/-- Positions `i` with `pattern[i % len(pattern)]` true, starting the count at `i`. -/
def patternKeep {β : Type} (pat : List Bool) : Nat → List β → List β
  | _, [] => []
  | i, x :: xs =>
    if pat.getD (i % pat.length) false then x :: patternKeep pat (i + 1) xs else patternKeep pat (i + 1) xs

/-- `_filter_by_pattern`: an empty pattern raises ZeroDivisionError (`i % 0`) as soon as there is
    a value. -/
def patternFilter {β : Type} (pat : List Bool) (l : List β) : Except FErr (List β) :=
  if pat.isEmpty ∧ ¬ l.isEmpty then .error .zero else .ok (patternKeep pat 0 l)

/-- `_filter_by_statement`: the predicate (the evaluated statement) is a parameter. -/
def predFilter {κ α : Type} (p : α → Bool) (l : List (κ × α)) : List (κ × α) := l.filter fun x => p x.2

/-- `_filter_by_range`: `greater_than < a < less_than`; `none` is the infinite default. -/
def inRange (lo hi : Option Int) (a : Int) : Bool :=
  (match lo with | none => true | some l => decide (l < a)) &&
  (match hi with | none => true | some h => decide (a < h))

/-- `filter_by_pattern` of the keyed classes (the result keeps class and header). -/
def Keyed.filterByPattern {κ α : Type} (pat : List Bool) (c : Keyed κ α) : Except FErr (Keyed κ α) := do
  let ps ← patternFilter pat c.pairs
  Keyed.mk? c.ap ps c.validated

/-- `filter_by_conditional_statement` of the keyed classes. -/
def Keyed.filterByPred {κ α : Type} (p : α → Bool) (c : Keyed κ α) : Except FErr (Keyed κ α) :=
  Keyed.mk? c.ap (predFilter p c.pairs) c.validated

/-- `filter_by_range` of the keyed classes. -/
def Keyed.filterByRange {κ : Type} (lo hi : Option Int) (c : Keyed κ Int) : Except FErr (Keyed κ Int) :=
  Keyed.mk? c.ap (predFilter (inRange lo hi) c.pairs) c.validated

/-- The three value filters of the continuous class: same functions on its pairs, the result is a
    discontinuous collection. -/
def Cont.filterByPattern {α : Type} (pat : List Bool) (c : Cont α) : Except FErr (Disc α) :=
  Keyed.filterByPattern pat c.toDisc
def Cont.filterByPred {α : Type} (p : α → Bool) (c : Cont α) : Except FErr (Disc α) :=
  Keyed.filterByPred p c.toDisc
def Cont.filterByRange (lo hi : Option Int) (c : Cont Int) : Except FErr (Disc Int) :=
  Keyed.filterByRange lo hi c.toDisc

/-! ### Coarser collections filter by their own keys -/

/-- `filter_by_doys` / `filter_by_months` / `filter_by_months_per_hour`. -/
def Keyed.filterByKeys {κ α : Type} [DecidableEq κ] (req : List κ) (c : Keyed κ α) : Except FErr (Keyed κ α) :=
  Keyed.mk? c.ap (keyFilter req c.pairs) false

/-- `DailyCollection.filter_by_analysis_period` (checks the leap flag only). -/
def dailyFilterByAP {α : Type} (f : AP) (c : Keyed Nat α) : Except FErr (Keyed Nat α) :=
  if (c.ap.leap == f.leap) = false then .error .assert
  else (Keyed.filterByKeys f.doysInt c).map fun r => { r with ap := f }

/-- `MonthlyCollection.filter_by_analysis_period` (no check). -/
def monthlyFilterByAP {α : Type} (f : AP) (c : Keyed Nat α) : Except FErr (Keyed Nat α) :=
  (Keyed.filterByKeys f.monthsInt c).map fun r => { r with ap := f }

/-- `MonthlyPerHourCollection.filter_by_analysis_period` (no check). -/
def mphFilterByAP {α : Type} (f : AP) (c : Keyed (Nat × Nat × Nat) α) :
    Except FErr (Keyed (Nat × Nat × Nat) α) :=
  (Keyed.filterByKeys f.monthsPerHour c).map fun r => { r with ap := f }

/-! ### Independent description used by the theorems -/

/-- The pair a collection holds at minute `m` (first match). -/
def pairAt {α : Type} (ps : List (Nat × α)) (m : Nat) : Option (Nat × α) := ps.find? fun p => p.1 == m

/-! ### Unit tests of the model (`#guard`) -/

def decSrc : Cont Nat := ⟨⟨12, 1, 0, 1, 31, 23, 1, false⟩, List.range 1488⟩
def marSrc2 : Cont Nat := ⟨⟨3, 1, 0, 3, 31, 23, 2, false⟩, List.range 1488⟩

private def showRes (r : Except FErr (Res Nat)) : Option (Bool × AP × Nat × Option Nat × Option Nat) :=
  match r with
  | .ok (.cont c) => some (true, c.ap, c.vals.length, c.vals.head?, c.vals.getLast?)
  | .ok (.disc d) => some (false, d.ap, d.pairs.length, d.pairs.head?.map (·.2), d.pairs.getLast?.map (·.2))
  | .error _ => none

#guard (decSrc.filterByMoys [0, 60, 480960, 525540]).toOption.map (·.pairs) =
  some [(0, 744), (60, 745), (480960, 0), (525540, 743)]
#guard (marSrc2.filterByMoys [84960, 84990]).toOption.map (·.pairs) = some [(84960, 0), (84990, 1)]
#guard showRes (decSrc.filterByAP ⟨12, 15, 0, 1, 15, 23, 1, false⟩) =
  some (true, ⟨12, 15, 0, 1, 15, 23, 1, false⟩, 768, some 336, some 1103)
#guard showRes (decSrc.filterByAP ⟨1, 5, 0, 1, 10, 23, 1, false⟩) =
  some (true, ⟨1, 5, 0, 1, 10, 23, 1, false⟩, 144, some 840, some 983)
#guard showRes (decSrc.filterByAP ⟨11, 15, 0, 12, 10, 23, 1, false⟩) =
  some (true, ⟨12, 1, 0, 12, 10, 23, 1, false⟩, 240, some 0, some 239)
#guard showRes (decSrc.filterByAP ⟨1, 5, 6, 1, 10, 18, 1, false⟩) =
  some (false, ⟨1, 5, 6, 1, 10, 18, 1, false⟩, 78, some 846, some 978)
#guard showRes (decSrc.filterByAP ⟨1, 5, 0, 1, 10, 23, 2, false⟩) = none
#guard patternFilter [true, false, false] [0, 1, 2, 3, 4, 5, 6] = .ok [0, 3, 6]
#guard patternFilter ([] : List Bool) [1] = .error .zero
#guard slow [60, -3, 0] [(0, 'a'), (30, 'b'), (60, 'c')] = [(0, 'a'), (60, 'c')]

end Filter
