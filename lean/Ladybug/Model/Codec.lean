/-
  C07 — codec combinator library (DESIGN.md section 6, C07).  No Mathlib.

  `PyVal` is the fragment of Python values that ladybug's `to_dict` methods produce and its
  `from_dict` methods consume.  `jsonRT` is what `json.loads(json.dumps(v))` does to such a value:
  tuples become lists, integer dictionary keys become their decimal text, everything else is kept.
  Floats are carried as their IEEE-754 bit pattern (never printed or parsed in Lean); that
  `json`/`repr` round-trip a float bit-exactly is in the trusted base and is exercised on every run
  by the harness (op `json_float`).

  A decoder never inspects a dictionary other than through `lookup` (a finite-map view), which
  is what makes it independent of key order and of unknown keys (`RecDec`).
-/
import Ladybug.Py
import Std.Data.String.ToInt

namespace Codec

/-- Dictionary keys that occur in ladybug's dictionaries. -/
inductive Key where
  | str (s : String)
  | int (i : Int)
deriving DecidableEq, Repr, Inhabited

inductive PyVal where
  | none
  | bool (b : Bool)
  | int (i : Int)
  | flt (bits : Nat)            -- a Python float, by its IEEE-754 bit pattern
  | str (s : String)
  | list (l : List PyVal)
  | tuple (l : List PyVal)
  | dict (kv : List (Key × PyVal))
deriving Repr, Inhabited

/-- `json.dumps` turns a non-string key into text (`1 -> "1"`). -/
def keyStr : Key → Key
  | .str s => .str s
  | .int i => .str i.repr

mutual
/-- `json.loads(json.dumps(v))`. -/
def jsonRT : PyVal → PyVal
  | .none => .none
  | .bool b => .bool b
  | .int i => .int i
  | .flt b => .flt b
  | .str s => .str s
  | .list l => .list (jsonRTList l)
  | .tuple l => .list (jsonRTList l)
  | .dict kv => .dict (jsonRTKV kv)
def jsonRTList : List PyVal → List PyVal
  | [] => []
  | x :: xs => jsonRT x :: jsonRTList xs
def jsonRTKV : List (Key × PyVal) → List (Key × PyVal)
  | [] => []
  | (k, v) :: r => (keyStr k, jsonRT v) :: jsonRTKV r
end

theorem jsonRTList_eq_map (l : List PyVal) : jsonRTList l = l.map jsonRT := by
  induction l with
  | nil => simp [jsonRTList]
  | cons x xs ih => simp [jsonRTList, ih]

theorem jsonRTKV_eq_map (kv : List (Key × PyVal)) :
    jsonRTKV kv = kv.map (fun p => (keyStr p.1, jsonRT p.2)) := by
  induction kv with
  | nil => simp [jsonRTKV]
  | cons x xs ih => cases x; simp [jsonRTKV, ih]

/-- `d[k]` / `k in d` for a string key: first binding (keys of a Python dict are unique). -/
def lookupKV (k : String) : List (Key × PyVal) → Option PyVal
  | [] => none
  | (.str s, v) :: r => if s = k then some v else lookupKV k r
  | (.int _, _) :: r => lookupKV k r

/-- The finite-map view of a value: `none` when it is not a dictionary. -/
abbrev Env := String → Option PyVal

def PyVal.env? : PyVal → Option Env
  | .dict kv => some (fun k => lookupKV k kv)
  | _ => Option.none

/-- String keys of an association list. -/
def strKeys : List (Key × PyVal) → List String
  | [] => []
  | (.str s, _) :: r => s :: strKeys r
  | (.int _, _) :: r => strKeys r

/-! ### Record decoders: independent of key order and of unknown keys -/

/-- A record decoder: reads the dictionary only through the keys in `keys`. -/
structure RecDec (α : Type) where
  keys : List String
  run : Env → Option α
  loc : ∀ g g' : Env, (∀ k ∈ keys, g k = g' k) → run g = run g'

def RecDec.dec {α : Type} (r : RecDec α) (v : PyVal) : Option α :=
  match v.env? with
  | some g => r.run g
  | none => none

theorem strKeys_perm {a b : List (Key × PyVal)} (h : a.Perm b) : (strKeys a).Perm (strKeys b) := by
  induction h with
  | nil => exact List.Perm.refl _
  | cons x _ ih => rcases x with ⟨kx, _⟩; cases kx <;> simp [strKeys, ih]
  | swap x y l =>
    rcases x with ⟨kx, _⟩; rcases y with ⟨ky, _⟩
    cases kx <;> cases ky <;> simp [strKeys, List.Perm.swap]
  | trans _ _ i1 i2 => exact i1.trans i2

theorem lookupKV_perm (k : String) {a b : List (Key × PyVal)} (hp : a.Perm b)
    (hn : (strKeys a).Nodup) : lookupKV k a = lookupKV k b := by
  induction hp with
  | nil => rfl
  | cons x _ ih =>
    rcases x with ⟨kx, vx⟩
    cases kx with
    | str s =>
      simp only [strKeys, List.nodup_cons] at hn
      simp [lookupKV, ih hn.2]
    | int i => simp only [strKeys] at hn; simp [lookupKV, ih hn]
  | swap x y l =>
    rcases x with ⟨kx, vx⟩
    rcases y with ⟨ky, vy⟩
    cases kx <;> cases ky <;> simp only [lookupKV]
    rename_i s t
    simp only [strKeys, List.nodup_cons, List.mem_cons, not_or] at hn
    by_cases h1 : t = k <;> by_cases h2 : s = k <;> simp [h1, h2]
    exact absurd (h1.trans h2.symm) hn.1.1
  | trans h1 _ ih1 ih2 =>
    rw [ih1 hn, ih2 ((strKeys_perm h1).nodup_iff.mp hn)]

/-- Reading does not depend on the order of the keys. -/
theorem RecDec.dec_perm {α : Type} (r : RecDec α) {a b : List (Key × PyVal)} (hp : a.Perm b)
    (hn : (strKeys a).Nodup) : r.dec (.dict a) = r.dec (.dict b) := by
  simp only [RecDec.dec, PyVal.env?]
  exact r.loc _ _ (fun k _ => lookupKV_perm k hp hn)

/-- Reading does not depend on keys the reader does not know. -/
theorem RecDec.dec_unknown_key {α : Type} (r : RecDec α) (a : List (Key × PyVal)) (k : String)
    (v : PyVal) (hk : k ∉ r.keys) : r.dec (.dict ((.str k, v) :: a)) = r.dec (.dict a) := by
  simp only [RecDec.dec, PyVal.env?]
  apply r.loc
  intro k' hk'
  have : k ≠ k' := fun h => hk (h ▸ hk')
  simp [lookupKV, this]

/-! ### Field readers (the `x = data[k] if k in data else d` shapes of the code) -/

/-- Python numbers that occur as field values. -/
inductive Num where
  | int (i : Int)
  | flt (bits : Nat)
deriving DecidableEq, Repr, Inhabited

def Num.enc : Num → PyVal
  | .int i => .int i
  | .flt b => .flt b

/-- `isinstance(v, (float, int))` (booleans, which Python also accepts here, are not generated). -/
def PyVal.num? : PyVal → Option Num
  | .int i => some (.int i)
  | .flt b => some (.flt b)
  | _ => Option.none

def PyVal.int? : PyVal → Option Int
  | .int i => some i
  | _ => Option.none

def PyVal.nat? : PyVal → Option Nat
  | .int i => if 0 ≤ i then some i.toNat else Option.none
  | _ => Option.none

def PyVal.bool? : PyVal → Option Bool
  | .bool b => some b
  | _ => Option.none

def PyVal.str? : PyVal → Option String
  | .str s => some s
  | _ => Option.none

def PyVal.list? : PyVal → Option (List PyVal)
  | .list l => some l
  | .tuple l => some l
  | _ => Option.none

def PyVal.isNone : PyVal → Bool
  | .none => true
  | _ => false

/-- `v == {'type': tag}` (the `Autocalculate` / `Default` placeholders). -/
def PyVal.isTag (tag : String) : PyVal → Bool
  | .dict [(.str "type", .str t)] => t == tag
  | _ => false

/-- Python truthiness (`x or d`, `if not x`). -/
def PyVal.truthy : PyVal → Bool
  | .none => false
  | .bool b => b
  | .int i => i != 0
  | .flt b => !(b == 0 || b == 2 ^ 63)      -- +0.0 and -0.0 are falsy
  | .str s => s != ""
  | .list l => !l.isEmpty
  | .tuple l => !l.isEmpty
  | .dict kv => !kv.isEmpty

/-- `mapM` over a list with an `Option`-valued reader. -/
def decList {α : Type} (f : PyVal → Option α) : List PyVal → Option (List α)
  | [] => some []
  | x :: xs => do
    let a ← f x
    let as ← decList f xs
    pure (a :: as)

theorem decList_map {α : Type} (f : PyVal → Option α) (g : α → PyVal) (l : List α)
    (h : ∀ a ∈ l, f (g a) = some a) : decList f (l.map g) = some l := by
  induction l with
  | nil => rfl
  | cons x xs ih =>
    simp only [List.map, decList, h x (by simp), ih (fun a ha => h a (by simp [ha]))]
    rfl

theorem RecDec.dec_dict {α : Type} (r : RecDec α) (kv : List (Key × PyVal)) :
    r.dec (.dict kv) = r.run (fun k => lookupKV k kv) := rfl

theorem map_jsonRT_stable (l : List PyVal) (h : ∀ v ∈ l, jsonRT v = v) : l.map jsonRT = l := by
  induction l with
  | nil => rfl
  | cons x xs ih =>
    simp only [List.map, h x (by simp), ih (fun v hv => h v (by simp [hv]))]

/-- The law of a codec: what was written, sent through JSON, reads back as itself. -/
def Law {α : Type} (enc : α → PyVal) (dec : PyVal → Option α) (wf : α → Prop) : Prop :=
  ∀ a, wf a → dec (jsonRT (enc a)) = some a

/-- Consequence of the law: the dictionary written by the read-back object is the one written
    by the original (`to_dict` fixed point). -/
theorem Law.fixed {α : Type} {enc : α → PyVal} {dec : PyVal → Option α} {wf : α → Prop}
    (h : Law enc dec wf) (a : α) (ha : wf a) :
    (dec (jsonRT (enc a))).map enc = some (enc a) := by
  rw [h a ha]; rfl

/-! ### Atom laws (each proved once) -/

@[simp] theorem jsonRT_int (i : Int) : jsonRT (.int i) = .int i := by simp [jsonRT]
@[simp] theorem jsonRT_bool (b : Bool) : jsonRT (.bool b) = .bool b := by simp [jsonRT]
@[simp] theorem jsonRT_str (s : String) : jsonRT (.str s) = .str s := by simp [jsonRT]
@[simp] theorem jsonRT_flt (b : Nat) : jsonRT (.flt b) = .flt b := by simp [jsonRT]
@[simp] theorem jsonRT_none : jsonRT .none = .none := by simp [jsonRT]
@[simp] theorem jsonRT_list (l : List PyVal) : jsonRT (.list l) = .list (l.map jsonRT) := by
  simp [jsonRT, jsonRTList_eq_map]
@[simp] theorem jsonRT_tuple (l : List PyVal) : jsonRT (.tuple l) = .list (l.map jsonRT) := by
  simp [jsonRT, jsonRTList_eq_map]
@[simp] theorem jsonRT_dict_nil : jsonRT (.dict []) = .dict [] := by simp [jsonRT, jsonRTKV]
theorem jsonRT_dict (kv : List (Key × PyVal)) :
    jsonRT (.dict kv) = .dict (kv.map (fun p => (keyStr p.1, jsonRT p.2))) := by
  simp [jsonRT, jsonRTKV_eq_map]
@[simp] theorem jsonRT_num (n : Num) : jsonRT n.enc = n.enc := by cases n <;> simp [Num.enc]
@[simp] theorem num?_enc (n : Num) : n.enc.num? = some n := by cases n <;> rfl
@[simp] theorem keyStr_str (s : String) : keyStr (.str s) = .str s := rfl

@[simp] theorem lookupKV_cons_str (k s : String) (v : PyVal) (r : List (Key × PyVal)) :
    lookupKV k ((.str s, v) :: r) = if s = k then some v else lookupKV k r := rfl
@[simp] theorem lookupKV_nil (k : String) : lookupKV k [] = none := rfl

/-- `int(key)` on a dictionary key as JSON delivers it. -/
def Key.toInt? : Key → Option Int
  | .int i => some i
  | .str s => s.toInt?

/-- An integer key written by `json.dumps` is read back by `int()`. -/
@[simp] theorem keyStr_toInt (i : Int) : (keyStr (.int i)).toInt? = some i := by
  simp [keyStr, Key.toInt?]

end Codec
