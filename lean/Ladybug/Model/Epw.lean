/-
  Model of ladybug/epw.py (EPW): body import with the last-hour-to-front rotation of point-in-time
  fields, the inverse rotation while writing (restored in `finally`), the header lines
  (parse / regenerate), lazy loading, the Wea / MOS / missing-value exports.
  Hand-written from the code as it exists; the field table comes from `Gen.EpwFields`, the design
  condition key lists from `Gen.DD` (both regenerated from /repo on every run).  No Mathlib.

  Values are a type parameter: functions that only move values are polymorphic, so agreement with the
  code on distinct ids determines them on every value list.  Number parsing / printing is a record
  (`Codec`, `NumCodec`) whose laws are hypotheses of the theorems (trusted base: CPython
  `float`/`int`/`str`/`repr`); the concrete decimal codec below is what the driver executes.

  Correspondence ops: Drv/C01.lean.  Theorems: Props/C01.lean.
-/
import Ladybug.Py
import Ladybug.Model.Cal
import Ladybug.Gen.EpwFields
import Ladybug.Gen.DesignDayTables

namespace Epw

inductive Err where
  | value | index | assert | key
deriving DecidableEq, Repr

/-! ## 1. Rotation of one column -/

/-- `last = l.pop(); l.insert(0, last)` (import, and the `finally` block of `to_file_string`). -/
def rot {α : Type} (l : List α) : List α :=
  match l.getLast? with
  | none => []
  | some x => x :: l.dropLast

/-- `first = l.pop(0); l.append(first)` (`to_file_string`). -/
def unrot {α : Type} : List α → List α
  | [] => []
  | x :: t => t ++ [x]

/-- Apply `f` to the columns whose field number is flagged (`for field in range(n): if point_in_time`). -/
def onFlagged {α : Type} (flag : Nat → Bool) (f : List α → List α) (cols : List (List α)) : List (List α) :=
  cols.mapIdx fun k c => if flag k then f c else c

/-- `point_in_time` of field `k`'s data type (regenerated table; `k < 35` always in the code). -/
def pit (k : Nat) : Bool := Gen.EpwFields.pointInTime.getD k true

/-! ## 2. Rows <-> columns -/

/-- `[row[i] for row in t]` for every `i < n` (lemma `transp_eq_range`), computed by peeling heads;
    on a rectangular table this is the transpose.  Callers check the shape first (a missing cell is an
    IndexError in the code, never skipped). -/
def transp {α : Type} : Nat → List (List α) → List (List α)
  | 0, _ => []
  | n + 1, t => t.filterMap List.head? :: transp n (t.map List.tail)

/-- `mapM` in `Except`, written out (first error wins, left to right, as the Python loops). -/
def mapE {α β ε : Type} (f : α → Except ε β) : List α → Except ε (List β)
  | [] => .ok []
  | a :: l =>
    match f a with
    | .error e => .error e
    | .ok b =>
      match mapE f l with
      | .error e => .error e
      | .ok bs => .ok (b :: bs)

/-- Parsing / printing of one body cell: `value_type(token)` (with the `int(round(float(..)))`
    fallback for int fields) and `str(value)`.  `none` = ValueError. -/
structure Codec (Tok Val : Type) where
  parse : Nat → Tok → Option Val
  shw : Val → Tok

/-- `parse k (str v) = v` for every value that `parse k` can produce (CPython `float(repr(x)) == x`,
    `int(str(i)) == i`, `str(s) == s`): trusted base, hypothesis of the round-trip theorems. -/
def Codec.Lawful {Tok Val : Type} (c : Codec Tok Val) : Prop :=
  ∀ k t v, c.parse k t = some v → c.parse k (c.shw v) = some v

/-- Cell `k` of a data row: `value_type(data[k])` (IndexError for a short row, ValueError for a token
    that does not parse). -/
def cellAt {Tok Val : Type} (c : Codec Tok Val) (row : List Tok) (k : Nat) : Except Err Val :=
  match row[k]? with
  | none => .error .index
  | some t => match c.parse k t with
    | none => .error .value
    | some v => .ok v

/-- One data row: `value_type(data[k])` for `k < nf`. -/
def parseRow {Tok Val : Type} (c : Codec Tok Val) (nf : Nat) (row : List Tok) : Except Err (List Val) :=
  mapE (cellAt c row) (List.range nf)

def hoursInYear (leap : Bool) : Nat := 24 * Cal.daysInYear leap

structure Body (Val : Type) where
  nf : Nat
  leap : Bool
  cols : List (List Val)
deriving Repr

/-- `EPW._import_body(body_lines)`.  A line is `none` when it is blank after `strip()` (skipped by the
    row loop but counted by `len(body_lines)`), else its tokens `strip().split(',')`.
    `leapHdr` is `is_leap_year` as left by the header (`None` when the field is neither Yes nor No). -/
def importBody {Tok Val : Type} (c : Codec Tok Val) (flag : Nat → Bool) (leapHdr : Option Bool)
    (lines : List (Option (List Tok))) : Except Err (Body Val) :=
  match lines with
  | [] => .error .index                                    -- body_lines[0]
  | l0 :: _ =>
    let nf := match l0 with
      | none => 1                                           -- ''.split(',') == ['']
      | some r => min r.length 35
    let leap := match leapHdr with
      | some b => b
      | none => lines.length == 8784
    match mapE (parseRow c nf) (lines.filterMap id) with
    | .error e => .error e
    | .ok tbl =>
      if tbl.isEmpty && (List.range nf).any flag then .error .index    -- pop() from an empty list
      else
        let cols := onFlagged flag rot (transp nf tbl)
        -- HourlyContinuousCollection(header, values): len(values) == len(annual datetimes)
        if nf = 0 ∨ tbl.length = hoursInYear leap then .ok ⟨nf, leap, cols⟩ else .error .assert

/-- The `try` / `finally` part of `to_file_string` on the columns: result (rows of printed values, or
    the ValueError raised for a column that is too short) and the columns left behind. -/
def writeBody {Tok Val : Type} (c : Codec Tok Val) (flag : Nat → Bool) (leap : Bool)
    (cols : List (List Val)) : Except Err (List (List Tok)) × List (List Val) :=
  let cols1 := onFlagged flag unrot cols
  let n := hoursInYear leap
  let res : Except Err (List (List Tok)) :=
    if cols1.all (fun col => n ≤ col.length) then
      .ok ((transp n cols1).map (·.map c.shw))
    else .error .value
  (res, onFlagged flag rot cols1)

/-- The printed form of a row that was read: only the first `nf` cells, each re-printed. -/
def canonRow {Tok Val : Type} (c : Codec Tok Val) (nf : Nat) (row : List Tok) : List Tok :=
  (List.range nf).filterMap fun k => (row[k]?.bind (c.parse k)).map c.shw

/-! ## 3. Hour convention -/

/-- Stamp of the 0-based data row `r` of an EPW file: day of year `r / 24 + 1`, hour `r % 24 + 1`
    (hours run 1..24). -/
def stampOfRow (r : Nat) : Nat × Nat := (r / 24 + 1, r % 24 + 1)

/-- The instant (minute of the year) a stamp denotes: hour `h` of day `d` is `h:00`, hour 24 is 0:00
    of the next day, and 24:00 of the last day is 0:00 of 1 Jan (the year wraps). -/
def minuteOfStamp (leap : Bool) (s : Nat × Nat) : Nat :=
  ((s.1 - 1) * 1440 + s.2 * 60) % Cal.minutesInYear leap

/-- Index in the collection at which the cell of row `r` of field `k` is stored. -/
def indexOfRow (flag : Nat → Bool) (n k r : Nat) : Nat := if flag k then (r + 1) % n else r

/-- `collection.datetimes[i]` of an annual hourly collection: `DateTime.from_moy(60 * i)`. -/
def datetimeOfIndex (leap : Bool) (i : Nat) : Except Cal.Err Cal.DT := Cal.fromMoy leap ((60 * i : Nat) : Int)

/-- Stamp columns (year is constant, month, day, hour) that `from_missing_values` writes for the
    collection index `i`: hour 0 becomes hour 24 of the previous day; index 0 is 24:00 of 31 Dec
    (modelled as repaired by fixes/C01_missing_values_last_row_month.patch; the unrepaired code
    answers month 1 there). -/
def missingStamp (leap : Bool) (i : Nat) : Except Cal.Err (Nat × Nat × Nat) :=
  match datetimeOfIndex leap i with
  | .error e => .error e
  | .ok d =>
    if d.hour ≠ 0 then .ok (d.month, d.day, d.hour)
    else if i = 0 then .ok (12, 31, 24)
    else match datetimeOfIndex leap (i - 24) with
      | .error e => .error e
      | .ok p => .ok (p.month, p.day, 24)

/-! ## 4. Object state and exports -/

structure St (Val : Type) where
  hdrLoaded : Bool
  dataLoaded : Bool
  isIp : Bool
  leap : Option Bool
  nf : Nat
  cols : List (List Val)
deriving Repr

/-- What the file behind the object holds (header leap field, body lines). -/
structure File (Tok : Type) where
  leapHdr : Option Bool
  lines : List (Option (List Tok))

/-- Per-field unit conversions of the collections (`coll.convert_to_ip()` / `convert_to_si()`):
    C06's subject, abstract here. -/
structure Conv (Val : Type) where
  toIp : Nat → Val → Val
  toSi : Nat → Val → Val

def convCols {Val : Type} (f : Nat → Val → Val) (cols : List (List Val)) : List (List Val) :=
  cols.mapIdx fun k c => c.map (f k)

section state
variable {Tok Val : Type}

/-- `_load_header_check` / `_import_data(import_header_only=True)`. -/
def St.loadHeader (f : File Tok) (s : St Val) : St Val :=
  if s.hdrLoaded then s else { s with hdrLoaded := true, leap := f.leapHdr }

/-- `_import_data()` when the data is not loaded yet. -/
def St.loadData (c : Codec Tok Val) (flag : Nat → Bool) (f : File Tok) (s : St Val) : Except Err (St Val) :=
  if s.dataLoaded then .ok s
  else
    let s1 := s.loadHeader f
    match importBody c flag s1.leap f.lines with
    | .error e => .error e
    | .ok b => .ok { s1 with dataLoaded := true, leap := some b.leap, nf := b.nf, cols := b.cols }

/-- `convert_to_ip` on loaded data. -/
def St.toIp (cv : Conv Val) (s : St Val) : St Val :=
  if s.isIp then s else { s with isIp := true, cols := convCols cv.toIp s.cols }

def St.toSi (cv : Conv Val) (s : St Val) : St Val :=
  if s.isIp then { s with isIp := false, cols := convCols cv.toSi s.cols } else s

/-- `to_file_string` on loaded data: (body rows or error, state afterwards).  The IP restore sits in
    the `finally` block (fix f030132), so it also runs on the error path. -/
def St.toFileString (c : Codec Tok Val) (flag : Nat → Bool) (cv : Conv Val) (s : St Val) :
    Except Err (List (List Tok)) × St Val :=
  let s1 := s.toSi cv
  let leap := s1.leap.getD false          -- AnalysisPeriod(is_leap_year=None) is a normal year
  let (res, cols2) := writeBody c flag leap s1.cols
  let s2 := { s1 with cols := cols2 }
  (res, if s.isIp then s2.toIp cv else s2)

/-- One line of `to_wea`: `(month, day, hour (+0.5), dni[i], dhi[i])`, fields 14 and 15 at the same
    index as the date-time; IndexError for an hour outside the data. -/
def weaLine (leap : Bool) (cols : List (List Val)) (i : Nat) : Except Err (Nat × Nat × Nat × Val × Val) :=
  match cols[14]?, cols[15]? with
  | some dn, some df =>
    match datetimeOfIndex leap i, dn[i]?, df[i]? with
    | .ok d, some a, some b => .ok (d.month, d.day, d.hour, a, b)
    | _, _, _ => .error .index
  | _, _ => .error .value                  -- _get_data_by_field: field number out of range

/-- `to_wea(path, hoys)` on loaded data: SI values are written, the object is converted back also
    when a line fails (modelled as repaired by fixes/C01_to_wea_restore_ip.patch). -/
def St.toWea (cv : Conv Val) (hoys : Option (List Nat)) (s : St Val) :
    Except Err (List (Nat × Nat × Nat × Val × Val)) × St Val :=
  let s1 := s.toSi cv
  let leap := s1.leap.getD false
  let hs := match hoys with
    | some (h :: t) => h :: t
    | _ => List.range (hoursInYear leap)          -- `hoys or range(len(datetimes))`
  let res := mapE (weaLine leap s1.cols) hs
  (res, if s.isIp then s1.toIp cv else s1)

/-- Time column of `to_mos`: seconds since the start of the year of collection index `i`
    (modelled as repaired by fixes/C01_mos_time_3600.patch; the unrepaired code multiplies by 3660). -/
def mosTime (i : Nat) : Nat := 3600 * i

/-- Data line `i` of `to_mos`: `zip(*self._data[6:])`, i.e. fields 6.. at the same collection index. -/
def mosLine (cols : List (List Val)) (i : Nat) : List Val := (cols.drop 6).filterMap (·[i]?)

/-- All data lines of `to_mos` (as many as field 6 has values). -/
def mosTable (cols : List (List Val)) : List (List Val) :=
  transp ((cols[6]?.map List.length).getD 0) (cols.drop 6)

end state

/-! ## 5. Header lines -/

/-- Parsing / printing of the numbers of the header: `float(tok)`, `'{}'.format(x)`, `'%.2f' % x`,
    range tests of `Location`. -/
structure NumCodec (F : Type) where
  pf : String → Option F
  sf : F → String
  f2 : F → String
  within : F → Int → Int → Bool

/-- An `AnalysisPeriod(st_month, st_day, 0, end_month, end_day, 23)` of a typical / extreme week. -/
structure Week where
  stM : Nat
  stD : Nat
  endM : Nat
  endD : Nat
deriving DecidableEq, Repr

structure Ground (F : Type) where
  depth : F
  cond : String
  dens : String
  heat : String
  vals : List F
deriving DecidableEq, Repr

structure Hdr (F : Type) where
  city : String
  state : String
  country : String
  source : String
  station : String
  lat : Option F                 -- `none`: the empty token (stored as the int 0)
  lon : Option F
  tz : F
  elev : F
  is2009 : Bool
  heating : List (String × String)      -- dicts in insertion order
  cooling : List (String × String)
  extremes : List (String × String)
  hot : List (String × Week)
  cold : List (String × Week)
  typical : List (String × Week)
  ground : List (Ground F)              -- dict keyed by float(depth), insertion order
  leap : Option Bool
  dstStart : String
  dstEnd : String
  comments1 : List String               -- tokens after the tag (`','.join` / `split(',')`)
  comments2 : List String
deriving Repr

/-- `d[key] = val` on an insertion-ordered dict. -/
def dictSet {K V : Type} [DecidableEq K] (d : List (K × V)) (k : K) (v : V) : List (K × V) :=
  if d.any (·.1 == k) then d.map fun p => if p.1 = k then (k, v) else p else d ++ [(k, v)]

def dictGet? {K V : Type} [DecidableEq K] (d : List (K × V)) (k : K) : Option V :=
  (d.find? (·.1 == k)).map (·.2)

def dictOfZip (keys vals : List String) : List (String × String) :=
  (keys.zip vals).foldl (fun d p => dictSet d p.1 p.2) []

def replaceSep (s : String) : String := (s.replace "\\" " ").replace "/" " "

def isWs (c : Char) : Bool := c == ' ' || c == '\t' || c == '\n' || c == '\r' || c == '\x0b' || c == '\x0c'

def trimL (l : List Char) : List Char := ((l.dropWhile isWs).reverse.dropWhile isWs).reverse

def natOfDigits (l : List Char) : Nat := l.foldl (fun a c => a * 10 + (c.toNat - '0'.toNat)) 0

def allDigitsL (l : List Char) : Bool := !l.isEmpty && l.all Char.isDigit

def signSplit (l : List Char) : Bool × List Char :=
  match l with
  | '-' :: r => (true, r)
  | '+' :: r => (false, r)
  | r => (false, r)

/-- `[+-]?digits` (the grammar of `int(str)` without underscores), no surrounding blanks. -/
def parseIntL (l : List Char) : Option Int :=
  let (neg, body) := signSplit l
  if allDigitsL body then some (if neg then -(natOfDigits body : Int) else (natOfDigits body : Int)) else none

/-- `int(tok)`: blanks around the literal are ignored. -/
def parseIntTok (s : String) : Option Int := parseIntL (trimL s.toList)

/-- `int(tok)` for the counters of the header (`int` strips blanks). -/
def intTok (s : String) : Option Int := parseIntTok s

def hasSub (s sub : String) : Bool := (s.splitOn sub).length > 1

def dateOk (m d : Nat) : Bool := 1 ≤ m && m ≤ 12 && 1 ≤ d && d ≤ Cal.monthLen false m

/-- `[int(x) for x in tok.split('/')]`. -/
def splitDate (s : String) : Option (List Int) := (s.splitOn "/").mapM intTok

def mkWeek (st en : List Int) : Except Err Week :=
  let pick (l : List Int) : Option (Int × Int) :=
    match l with
    | [_, m, d] => some (m, d)
    | [m, d] => some (m, d)
    | _ => none
  match st with
  | [_, _, _] | [_, _] =>
    (match pick st, (if st.length = 3 then (match en with | _ :: m :: d :: _ => some (m, d) | _ => none)
                     else (match en with | m :: d :: _ => some (m, d) | _ => none)) with
     | some (m1, d1), some (m2, d2) =>
       if 0 ≤ m1 ∧ 0 ≤ d1 ∧ 0 ≤ m2 ∧ 0 ≤ d2 ∧ dateOk m1.toNat d1.toNat ∧ dateOk m2.toNat d2.toNat then
         .ok ⟨m1.toNat, d1.toNat, m2.toNat, d2.toNat⟩
       else .error .value
     | _, _ => .error .index)
  | _ => .error .value          -- a_per unbound (UnboundLocalError is a NameError; out of the domain)

/-- The typical / extreme weeks of line 3 (`header_lines[2].split(',')`, not stripped). -/
def parseWeeks (toks : List String) :
    Except Err (List (String × Week) × List (String × Week) × List (String × Week)) :=
  let num : Except Err Nat :=
    match toks[1]? with
    | none => .ok 0
    | some t => if t = "" then .ok 0 else
        match intTok t with
        | some n => .ok n.toNat
        | none => .error .value
  match num with
  | .error e => .error e
  | .ok n =>
    (List.range n).foldl (fun acc i =>
      match acc with
      | .error e => .error e
      | .ok (hot, cold, typ) =>
        let wd := (toks.drop (2 + 4 * i)).take 4
        match wd with
        | [name, kind, st, en] =>
          (match splitDate st, splitDate en with
           | some s, some e =>
             (match mkWeek s e with
              | .error er => .error er
              | .ok w =>
                if hasSub name "Max" && kind == "Extreme" then .ok (dictSet hot name w, cold, typ)
                else if hasSub name "Min" && kind == "Extreme" then .ok (hot, dictSet cold name w, typ)
                else if kind == "Typical" then .ok (hot, cold, dictSet typ name w)
                else .ok (hot, cold, typ))
           | _, _ => .error .value)
        | _ => .error .index) (.ok ([], [], []))

/-- The ground temperatures of line 4 (dict keyed by the float depth: a repeated depth overwrites). -/
def parseGround {F : Type} [DecidableEq F] (nc : NumCodec F) (toks : List String) : Except Err (List (Ground F)) :=
  let num : Except Err Nat :=
    match toks[1]? with
    | none => .ok 0
    | some t => if t = "" then .ok 0 else
        match intTok t with
        | some n => .ok n.toNat
        | none => .error .value
  match num with
  | .error e => .error e
  | .ok n =>
    (List.range n).foldl (fun acc i =>
      match acc with
      | .error e => .error e
      | .ok gs =>
        let st := 2 + 16 * i
        match toks[st]?, toks[st + 1]?, toks[st + 2]?, toks[st + 3]? with
        | some d, some c, some de, some h =>
          (match nc.pf d, ((toks.drop (st + 4)).take 12).mapM nc.pf with
           | some dv, some vs =>
             -- MonthlyCollection(header, values, range(12)) needs 12 values
             if vs.length = 12 then
               let g : Ground F := ⟨dv, c, de, h, vs⟩
               if gs.any (·.depth == dv) then .ok (gs.map fun x => if x.depth = dv then g else x)
               else .ok (gs ++ [g])
             else .error .assert
           | _, _ => .error .value)
        | _, _, _, _ => .error .index) (.ok [])

/-- The design conditions of line 2 (2009 and 2021 layouts). -/
def parseDesign (dd : List String) :
    Except Err (Bool × List (String × String) × List (String × String) × List (String × String)) :=
  let hk := Gen.DD.heatingKeys
  let ck := Gen.DD.coolingKeys
  let ek := Gen.DD.extremeKeys
  let sl (a b : Nat) := (dd.drop a).take (b - a)
  if dd.length < 2 then .ok (false, [], [], [])
  else match dd[1]? with
    | none => .ok (false, [], [], [])
    | some one =>
      match intTok one with
      | none => .error .value
      | some n =>
        if n ≠ 1 then .ok (false, [], [], [])
        else match dd[2]? with
          | none => .error .index
          | some src =>
            if hasSub src "2009" then
              match dd[4]?, dd[20]?, dd[53]? with
              | some a, some b, some c =>
                .ok (true,
                     if a == "Heating" then dictOfZip hk (sl 5 20) else [],
                     if b == "Cooling" then dictOfZip ck (sl 21 53) else [],
                     if c == "Extremes" then dictOfZip ek (sl 54 70) else [])
              | _, _, _ => .error .index
            else
              match dd[4]?, dd[21]?, dd[54]? with
              | some a, some b, some c =>
                .ok (false,
                     if a == "Heating" then dictOfZip hk (sl 5 21) else [],
                     if b == "Cooling" then
                       dictOfZip (ck.map fun k => if k == "Hrs_8-4_&_DB" then "WBmax" else k) (sl 22 54) else [],
                     if c == "Extremes" then dictOfZip (ek.eraseIdx 3) (sl 55 71) else [])
              | _, _, _ => .error .index

/-- `_import_location` + `_import_header` on the eight header lines; every line is given as its
    tokens `line.strip().split(',')` (line 3 un-stripped, which only matters for a trailing blank). -/
def parseHeader {F : Type} [DecidableEq F] (nc : NumCodec F) (ls : List (List String)) : Except Err (Hdr F) :=
  match ls with
  | [l0, l1, l2, l3, l4, l5, l6, _] =>
    match l0[1]?, l0[2]?, l0[3]?, l0[4]?, l0[5]?, l0[6]?, l0[7]?, l0[8]?, l0[9]? with
    | some city, some state, some country, some source, some station, some lat, some lon, some tz, some elev =>
      let flt (t : String) : Except Err (Option F) :=
        if t = "" then .ok none else match nc.pf t with
          | some v => .ok (some v)
          | none => .error .value
      let rng (v : Option F) (lo hi : Int) : Bool := match v with
        | none => true
        | some x => nc.within x lo hi
      match flt lat, flt lon, nc.pf tz, nc.pf elev with
      | .ok la, .ok lo, some tzv, some ev =>
        if !(rng la (-90) 90) || !(rng lo (-180) 180) || !(nc.within tzv (-12) 14) then .error .assert
        else
        match parseDesign l1 with
        | .error e => .error e
        | .ok (is09, he, co, ex) =>
          match parseWeeks l2 with
          | .error e => .error e
          | .ok (hot, cold, typ) =>
            match parseGround nc l3 with
            | .error e => .error e
            | .ok gr =>
              match l4[1]?, l4[2]?, l4[3]? with
              | some lp, some ds, some de =>
                let leap := if lp == "Yes" then some true else if lp == "No" then some false else none
                let com (l : List String) : List String := if l.tail = [] then [""] else l.tail
                .ok { city := replaceSep city, state := state, country := country, source := source,
                      station := station, lat := la, lon := lo, tz := tzv, elev := ev, is2009 := is09,
                      heating := he, cooling := co, extremes := ex, hot := hot, cold := cold,
                      typical := typ, ground := gr, leap := leap, dstStart := ds, dstEnd := de,
                      comments1 := com l5, comments2 := com l6 }
              | _, _, _ => .error .index
      | .error e, _, _, _ => .error e
      | _, .error e, _, _ => .error e
      | _, _, _, _ => .error .value
    | _, _, _, _, _, _, _, _, _ => .error .index
  | _ => .error .index

def fmtWeek (name kind : String) (w : Week) : List String :=
  [name, kind, s!"{w.stM}/{w.stD}", s!"{w.endM}/{w.endD}"]

/-- Insertion sort by a key (`sorted(...)`, stable). -/
def sortBy {α : Type} (lt : α → α → Bool) (l : List α) : List α :=
  l.foldl (fun acc x =>
    let (a, b) := acc.span (fun y => !(lt x y))
    a ++ x :: b) []

/-- `EPW.header`: the eight lines as token lists (to be joined with ','), `leap` being the object's
    `_is_leap_year` at that moment.  KeyError when a design dictionary lacks a key that is written. -/
def renderHeader {F : Type} (nc : NumCodec F) (fltLt : F → F → Bool) (h : Hdr F) : Except Err (List (List String)) :=
  let num (v : Option F) : String := match v with
    | none => "0"
    | some x => nc.sf x
  let loc := ["LOCATION", h.city, h.state, h.country, h.source, h.station, num h.lat, num h.lon,
              nc.sf h.tz, nc.sf h.elev]
  let look (d : List (String × String)) (ks : List String) : Except Err (List String) :=
    mapE (fun k => match dictGet? d k with
      | some v => .ok v
      | none => .error .key) ks
  let des : Except Err (List String) :=
    if !h.heating.isEmpty && !h.cooling.isEmpty && !h.extremes.isEmpty then
      let hk := Gen.DD.heatingKeys
      let ck := Gen.DD.coolingKeys
      let ek := Gen.DD.extremeKeys
      let (src, hk', ck', ek') :=
        if h.is2009 then ("Climate Design Data 2009 ASHRAE Handbook", hk.dropLast, ck, ek)
        else ("2021 ASHRAE Handbook -- Fundamentals - Chapter 14 Climatic Design Information", hk,
              ck.dropLast ++ ["WBmax"], ek.eraseIdx 3)
      match look h.heating hk', look h.cooling ck', look h.extremes ek' with
      | .ok a, .ok b, .ok c =>
        .ok (["DESIGN CONDITIONS", "1", src, "", "Heating"] ++ a ++ ["Cooling"] ++ b ++ ["Extremes"] ++ c)
      | .error e, _, _ => .error e
      | _, .error e, _ => .error e
      | _, _, .error e => .error e
    else .ok ["DESIGN CONDITIONS", "0"]
  match des with
  | .error e => .error e
  | .ok desLine =>
    let weeks := (h.hot.map fun p => fmtWeek p.1 "Extreme" p.2) ++ (h.cold.map fun p => fmtWeek p.1 "Extreme" p.2)
      ++ ((sortBy (fun a b => a.1 < b.1) h.typical).map fun p => fmtWeek p.1 "Typical" p.2)
    -- '...,{},{}'.format(len(weeks), ','.join(weeks)): with no week the line ends with an empty token
    let weekLine := ["TYPICAL/EXTREME PERIODS", toString weeks.length] ++
      (if weeks.isEmpty then [""] else weeks.flatten)
    let gs := sortBy (fun a b => fltLt a.depth b.depth) h.ground
    let groundLine := ["GROUND TEMPERATURES", toString gs.length] ++
      (gs.map fun g => [nc.sf g.depth, g.cond, g.dens, g.heat] ++ g.vals.map nc.f2).flatten
    let leapLine := ["HOLIDAYS/DAYLIGHT SAVINGS", if h.leap == some true then "Yes" else "No",
                     h.dstStart, h.dstEnd, "0"]
    .ok [loc, desLine, weekLine, groundLine, leapLine, "COMMENTS 1" :: h.comments1,
         "COMMENTS 2" :: h.comments2, ["DATA PERIODS", "1", "1", "Data", "Sunday", " 1/ 1", "12/31"]]

/-! ## 6. Concrete decimal codec (what the driver runs; compared with CPython by correspondence) -/

inductive Cell where
  | int (i : Int)
  | flt (neg : Bool) (m : Nat) (e : Int)       -- (-1)^neg * m * 10^e, m not divisible by 10 (or m = e = 0)
  | str (s : String)
deriving DecidableEq, Repr

partial def stripZeros (m : Nat) (e : Int) : Nat × Int :=
  if m = 0 then (0, 0) else if m % 10 = 0 then stripZeros (m / 10) (e + 1) else (m, e)

def splitAtChar (p : Char → Bool) (l : List Char) : List Char × Option (List Char) :=
  match l.span (fun c => !p c) with
  | (a, []) => (a, none)
  | (a, _ :: b) => (a, some b)

/-- Decimal literal `[+-]?(digits[.digits] | .digits)[(e|E)[+-]digits]` after `strip()`. -/
def parseDecTok (s : String) : Option (Bool × Nat × Int) :=
  let (neg, body) := signSplit (trimL s.toList)
  let (mant, exPart) := splitAtChar (fun c => c == 'e' || c == 'E') body
  let ex : Option Int := match exPart with
    | none => some 0
    | some x => parseIntL x
  match ex with
  | none => none
  | some x =>
    let (a, bPart) := splitAtChar (· == '.') mant
    match bPart with
    | none => if allDigitsL a then let (m, e) := stripZeros (natOfDigits a) x; some (neg, m, e) else none
    | some b =>
      if (a.isEmpty || allDigitsL a) && (b.isEmpty || allDigitsL b) && !(a.isEmpty && b.isEmpty) then
        let (m, e) := stripZeros (natOfDigits (a ++ b)) (x - b.length)
        some (neg, m, e)
      else none

def zeros (n : Nat) : String := String.ofList (List.replicate n '0')

def takeS (s : String) (n : Nat) : String := String.ofList (s.toList.take n)
def dropS (s : String) (n : Nat) : String := String.ofList (s.toList.drop n)

/-- `repr(float)` for a decimal with at most 15 significant digits in the positional range
    (`none`: outside what this codec supports; the harness does not generate such cells). -/
def showFlt (neg : Bool) (m : Nat) (e : Int) : Option String :=
  let ds := toString m
  let sign := if neg then "-" else ""
  if m = 0 then some (sign ++ "0.0")
  else
    let decpt : Int := ds.length + e
    if ds.length > 15 || decpt ≤ -4 || decpt > 16 then none
    else if 0 ≤ e then some (sign ++ ds ++ zeros e.toNat ++ ".0")
    else
      let k := (-e).toNat
      if ds.length > k then some (sign ++ takeS ds (ds.length - k) ++ "." ++ dropS ds (ds.length - k))
      else some (sign ++ "0." ++ zeros (k - ds.length) ++ ds)

def ratOfDec (neg : Bool) (m : Nat) (e : Int) : Rat :=
  let v : Rat := if 0 ≤ e then (m : Rat) * Py.pow10 e.toNat else (m : Rat) / Py.pow10 (-e).toNat
  if neg then -v else v

/-- `value_type(tok)` with the fallback of `_import_body` for int fields. -/
def parseCell (k : Nat) (t : String) : Option Cell :=
  match Gen.EpwFields.valueType[k]? with
  | some 0 =>
    match parseIntTok t with
    | some i => some (Cell.int i)
    | none => (parseDecTok t).map fun (n, m, e) => Cell.int (Py.round (ratOfDec n m e))
  | some 1 => (parseDecTok t).map fun (n, m, e) => Cell.flt n m e
  | some 2 => some (Cell.str t)
  | _ => none

/-- `str(value)`; `"?"` marks a float outside the supported range (reported, never compared). -/
def showCell : Cell → String
  | .int i => toString i
  | .flt n m e => (showFlt n m e).getD "?"
  | .str s => s

def decCodec : Codec String Cell := ⟨parseCell, showCell⟩

/-- `'%.2f' % x` on the exact decimal value (ties to even; the harness generates no ties at the third
    decimal, where the binary double decides). -/
def fmt2 (neg : Bool) (m : Nat) (e : Int) : String :=
  let q := Py.round (ratOfDec false m e * 100)
  let s := toString q.toNat
  let s := if s.length < 3 then zeros (3 - s.length) ++ s else s
  (if neg && q ≠ 0 then "-" else if neg then "-" else "") ++ takeS s (s.length - 2) ++ "." ++ dropS s (s.length - 2)

def decNum : NumCodec (Bool × Nat × Int) where
  pf := parseDecTok
  sf := fun (n, m, e) => (showFlt n m e).getD "?"
  f2 := fun (n, m, e) => fmt2 n m e
  within := fun (n, m, e) lo hi => (lo : Rat) ≤ ratOfDec n m e && ratOfDec n m e ≤ (hi : Rat)

def decLt (a b : Bool × Nat × Int) : Bool := ratOfDec a.1 a.2.1 a.2.2 < ratOfDec b.1 b.2.1 b.2.2

#guard rot [1, 2, 3, 4] = [4, 1, 2, 3]
#guard unrot [4, 1, 2, 3] = [1, 2, 3, 4]
#guard transp 2 [[1, 2], [3, 4], [5, 6]] = [[1, 3, 5], [2, 4, 6]]
#guard showCell (Cell.flt false 15 (-1)) = "1.5"
#guard (parseCell 6 "1.50").map showCell = some "1.5"
#guard (parseCell 6 "+3").map showCell = some "3.0"
#guard (parseCell 6 "-.5").map showCell = some "-0.5"
#guard (parseCell 6 "6.50397149946918E-02").map showCell = some "0.0650397149946918"
#guard (parseCell 8 "007").map showCell = some "7"
#guard (parseCell 8 "2.5").map showCell = some "2"
#guard (parseCell 8 "3.5").map showCell = some "4"
#guard (parseCell 6 "1e5").map showCell = some "100000.0"
#guard (parseCell 6 "abc") = none
#guard fmt2 false 1234 (-3) = "1.23"
#guard fmt2 true 5 (-1) = "-0.50"
#guard canonRow decCodec 8 ["1986", "01", "1", "1", "0", "?9", "1.50", "+3"] = ["1986", "1", "1", "1", "0", "?9", "1.5", "3.0"]
#guard stampOfRow 0 = (1, 1)
#guard stampOfRow 8759 = (365, 24)
#guard minuteOfStamp false (stampOfRow 8759) = 0
#guard minuteOfStamp false (stampOfRow 23) = 1440

end Epw
