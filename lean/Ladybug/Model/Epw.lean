/-
  Model of ladybug/epw.py (EPW): body import with the last-hour-to-front rotation of point-in-time
  fields, the inverse rotation while writing (restored in `finally`), the header lines
  (parse / regenerate), lazy loading, the Wea / MOS / missing-value exports.
  Hand-written from the code as it exists; the field table comes from `Gen.EpwFields`, the design
  condition key lists from `Gen.DD` (both regenerated from /repo on every run).  No Mathlib.

  Values are a type parameter: functions that only move values are polymorphic, so agreement with the
  code on distinct ids determines them on every value list.  Number parsing / printing is a record
  (`Codec`, `NumCodec`) whose laws are hypotheses of the theorems (trusted base: CPython
  `float`/`int`/`str`/`repr`); the concrete decimal codec below is what the driver executes.

  Correspondence ops: Drv/C01.lean.  Theorems: Props/C01.lean.
-/
import Ladybug.Py
import Ladybug.Model.Cal
import Ladybug.Gen.EpwFields
import Ladybug.Gen.DesignDayTables

namespace Epw

inductive Err where
  | value | index | assert | key
deriving DecidableEq, Repr

/-! ## 1. Rotation of one column -/

/-- `last = l.pop(); l.insert(0, last)` (import, and the `finally` block of `to_file_string`). -/
def rot {α : Type} (l : List α) : List α :=
  match l.getLast? with
  | none => []
  | some x => x :: l.dropLast

/-- `first = l.pop(0); l.append(first)` (`to_file_string`). -/
def unrot {α : Type} : List α → List α
  | [] => []
  | x :: t => t ++ [x]

/-- Apply `f` to the columns whose field number is flagged (`for field in range(n): if point_in_time`). -/
def onFlagged {α : Type} (flag : Nat → Bool) (f : List α → List α) (cols : List (List α)) : List (List α) :=
  cols.mapIdx fun k c => if flag k then f c else c

/-- `point_in_time` of field `k`'s data type (regenerated table; `k < 35` always in the code). -/
def pit (k : Nat) : Bool := Gen.EpwFields.pointInTime.getD k true

/-! ## 2. Rows <-> columns -/

/-- `[row[i] for row in t]` for every `i < n` (lemma `transp_eq_range`), computed by peeling heads;
    on a rectangular table this is the transpose.  Callers check the shape first (a missing cell is an
    IndexError in the code, never skipped). -/
def transp {α : Type} : Nat → List (List α) → List (List α)
  | 0, _ => []
  | n + 1, t => t.filterMap List.head? :: transp n (t.map List.tail)

/-- `mapM` in `Except`, written out (first error wins, left to right, as the Python loops). -/
def mapE {α β ε : Type} (f : α → Except ε β) : List α → Except ε (List β)
  | [] => .ok []
  | a :: l =>
    match f a with
    | .error e => .error e
    | .ok b =>
      match mapE f l with
      | .error e => .error e
      | .ok bs => .ok (b :: bs)

/-- `mapM` in `Option`, written out. -/
def mapO {α β : Type} (f : α → Option β) : List α → Option (List β)
  | [] => some []
  | a :: l =>
    match f a with
    | none => none
    | some b =>
      match mapO f l with
      | none => none
      | some bs => some (b :: bs)

/-- Parsing / printing of one body cell: `value_type(token)` (with the `int(round(float(..)))`
    fallback for int fields) and `str(value)`.  `none` = ValueError. -/
structure Codec (Tok Val : Type) where
  parse : Nat → Tok → Option Val
  shw : Val → Tok

/-- `parse k (str v) = v` for every value that `parse k` can produce (CPython `float(repr(x)) == x`,
    `int(str(i)) == i`, `str(s) == s`): trusted base, hypothesis of the round-trip theorems. -/
def Codec.Lawful {Tok Val : Type} (c : Codec Tok Val) : Prop :=
  ∀ k t v, c.parse k t = some v → c.parse k (c.shw v) = some v

/-- Cell `k` of a data row: `value_type(data[k])` (IndexError for a short row, ValueError for a token
    that does not parse). -/
def cellAt {Tok Val : Type} (c : Codec Tok Val) (row : List Tok) (k : Nat) : Except Err Val :=
  match row[k]? with
  | none => .error .index
  | some t => match c.parse k t with
    | none => .error .value
    | some v => .ok v

/-- One data row: `value_type(data[k])` for `k < nf`. -/
def parseRow {Tok Val : Type} (c : Codec Tok Val) (nf : Nat) (row : List Tok) : Except Err (List Val) :=
  mapE (cellAt c row) (List.range nf)

def hoursInYear (leap : Bool) : Nat := 24 * Cal.daysInYear leap

structure Body (Val : Type) where
  nf : Nat
  leap : Bool
  cols : List (List Val)
deriving Repr

/-- `self._num_of_fields = min(len(body_lines[0].strip().split(',')), 35)`; a blank first line
    splits into `['']`. -/
def nfOfFirst {Tok : Type} (l0 : Option (List Tok)) : Nat :=
  match l0 with
  | none => 1
  | some r => min r.length 35

/-- `is_leap_year` after the body is read: the header's answer, or `len(body_lines) == 8784`. -/
def leapOf (leapHdr : Option Bool) (nLines : Nat) : Bool :=
  match leapHdr with
  | some b => b
  | none => nLines == 8784

/-- `EPW._import_body(body_lines)`.  A line is `none` when it is blank after `strip()` (skipped by the
    row loop but counted by `len(body_lines)`), else its tokens `strip().split(',')`.
    `leapHdr` is `is_leap_year` as left by the header (`None` when the field is neither Yes nor No). -/
def importBody {Tok Val : Type} (c : Codec Tok Val) (flag : Nat → Bool) (leapHdr : Option Bool)
    (lines : List (Option (List Tok))) : Except Err (Body Val) :=
  match lines with
  | [] => .error .index                                    -- body_lines[0]
  | l0 :: rest =>
    match mapE (parseRow c (nfOfFirst l0)) ((l0 :: rest).filterMap id) with
    | .error e => .error e
    | .ok tbl =>
      if tbl.isEmpty && (List.range (nfOfFirst l0)).any flag then .error .index    -- pop() from an empty list
      -- HourlyContinuousCollection(header, values): len(values) == len(annual datetimes)
      else if nfOfFirst l0 = 0 ∨ tbl.length = hoursInYear (leapOf leapHdr (l0 :: rest).length) then
        .ok ⟨nfOfFirst l0, leapOf leapHdr (l0 :: rest).length,
             onFlagged flag rot (transp (nfOfFirst l0) tbl)⟩
      else .error .assert

/-- The `try` / `finally` part of `to_file_string` on the columns: result (rows of printed values, or
    the ValueError raised for a column that is too short) and the columns left behind. -/
def writeBody {Tok Val : Type} (c : Codec Tok Val) (flag : Nat → Bool) (leap : Bool)
    (cols : List (List Val)) : Except Err (List (List Tok)) × List (List Val) :=
  let cols1 := onFlagged flag unrot cols
  let n := hoursInYear leap
  let res : Except Err (List (List Tok)) :=
    if cols1.all (fun col => n ≤ col.length) then
      .ok ((transp n cols1).map (·.map c.shw))
    else .error .value
  (res, onFlagged flag rot cols1)

/-- The printed form of a row that was read: only the first `nf` cells, each re-printed. -/
def canonRow {Tok Val : Type} (c : Codec Tok Val) (nf : Nat) (row : List Tok) : List Tok :=
  (List.range nf).filterMap fun k => (row[k]?.bind (c.parse k)).map c.shw

/-! ## 3. Hour convention -/

/-- Stamp of the 0-based data row `r` of an EPW file: day of year `r / 24 + 1`, hour `r % 24 + 1`
    (hours run 1..24). -/
def stampOfRow (r : Nat) : Nat × Nat := (r / 24 + 1, r % 24 + 1)

/-- The instant (minute of the year) a stamp denotes: hour `h` of day `d` is `h:00`, hour 24 is 0:00
    of the next day, and 24:00 of the last day is 0:00 of 1 Jan (the year wraps). -/
def minuteOfStamp (leap : Bool) (s : Nat × Nat) : Nat :=
  ((s.1 - 1) * 1440 + s.2 * 60) % Cal.minutesInYear leap

/-- Index in the collection at which the cell of row `r` of field `k` is stored. -/
def indexOfRow (flag : Nat → Bool) (n k r : Nat) : Nat := if flag k then (r + 1) % n else r

/-- `collection.datetimes[i]` of an annual hourly collection: `DateTime.from_moy(60 * i)`. -/
def datetimeOfIndex (leap : Bool) (i : Nat) : Except Cal.Err Cal.DT := Cal.fromMoy leap ((60 * i : Nat) : Int)

/-- Stamp columns (year is constant, month, day, hour) that `from_missing_values` writes for the
    collection index `i`: hour 0 becomes hour 24 of the previous day; index 0 is 24:00 of 31 Dec
    (modelled as repaired by fixes/C01_missing_values_last_row_month.patch; the unrepaired code
    answers month 1 there). -/
def missingStamp (leap : Bool) (i : Nat) : Except Cal.Err (Nat × Nat × Nat) :=
  match datetimeOfIndex leap i with
  | .error e => .error e
  | .ok d =>
    if d.hour ≠ 0 then .ok (d.month, d.day, d.hour)
    else if i = 0 then .ok (12, 31, 24)
    else match datetimeOfIndex leap (i - 24) with
      | .error e => .error e
      | .ok p => .ok (p.month, p.day, 24)

/-! ## 4. Object state and exports -/

structure St (Val : Type) where
  hdrLoaded : Bool
  dataLoaded : Bool
  isIp : Bool
  leap : Option Bool
  nf : Nat
  cols : List (List Val)
deriving Repr

/-- What the file behind the object holds (header leap field, body lines). -/
structure File (Tok : Type) where
  leapHdr : Option Bool
  lines : List (Option (List Tok))

/-- Per-field unit conversions of the collections (`coll.convert_to_ip()` / `convert_to_si()`):
    C06's subject, abstract here. -/
structure Conv (Val : Type) where
  toIp : Nat → Val → Val
  toSi : Nat → Val → Val

def convCols {Val : Type} (f : Nat → Val → Val) (cols : List (List Val)) : List (List Val) :=
  cols.mapIdx fun k c => c.map (f k)

section state
variable {Tok Val : Type}

/-- `_load_header_check` / `_import_data(import_header_only=True)`. -/
def St.loadHeader (f : File Tok) (s : St Val) : St Val :=
  if s.hdrLoaded then s else { s with hdrLoaded := true, leap := f.leapHdr }

/-- `_import_data()` when the data is not loaded yet. -/
def St.loadData (c : Codec Tok Val) (flag : Nat → Bool) (f : File Tok) (s : St Val) : Except Err (St Val) :=
  if s.dataLoaded then .ok s
  else
    let s1 := s.loadHeader f
    match importBody c flag s1.leap f.lines with
    | .error e => .error e
    | .ok b => .ok { s1 with dataLoaded := true, leap := some b.leap, nf := b.nf, cols := b.cols }

/-- `convert_to_ip` on loaded data. -/
def St.toIp (cv : Conv Val) (s : St Val) : St Val :=
  if s.isIp then s else { s with isIp := true, cols := convCols cv.toIp s.cols }

def St.toSi (cv : Conv Val) (s : St Val) : St Val :=
  if s.isIp then { s with isIp := false, cols := convCols cv.toSi s.cols } else s

/-- `to_file_string` on loaded data: (body rows or error, state afterwards).  The IP restore sits in
    the `finally` block (fix f030132), so it also runs on the error path. -/
def St.toFileString (c : Codec Tok Val) (flag : Nat → Bool) (cv : Conv Val) (s : St Val) :
    Except Err (List (List Tok)) × St Val :=
  let s1 := s.toSi cv
  let leap := s1.leap.getD false          -- AnalysisPeriod(is_leap_year=None) is a normal year
  let (res, cols2) := writeBody c flag leap s1.cols
  let s2 := { s1 with cols := cols2 }
  (res, if s.isIp then s2.toIp cv else s2)

/-- One line of `to_wea`: `(month, day, hour (+0.5), dni[i], dhi[i])`, fields 14 and 15 at the same
    index as the date-time; IndexError for an hour outside the data. -/
def weaLine (leap : Bool) (cols : List (List Val)) (i : Nat) : Except Err (Nat × Nat × Nat × Val × Val) :=
  match cols[14]?, cols[15]? with
  | some dn, some df =>
    match datetimeOfIndex leap i, dn[i]?, df[i]? with
    | .ok d, some a, some b => .ok (d.month, d.day, d.hour, a, b)
    | _, _, _ => .error .index
  | _, _ => .error .value                  -- _get_data_by_field: field number out of range

/-- The data part of `EPW.to_dict()` of a loaded object: unit flag, leap flag, and per data collection
    its analysis period's leap flag and its values (the header dictionaries, location, weeks and ground
    temperatures are nested `to_dict` forms of other classes: C07's subject, compared by the oracle). -/
structure EpwDict (Val : Type) where
  isIp : Bool
  leap : Bool
  collLeap : List Bool
  values : List (List Val)

/-- `to_dict` (data is loaded first, so the leap flag is decided). -/
def St.toDict (s : St Val) : EpwDict Val :=
  ⟨s.isIp, s.leap.getD false, s.cols.map fun _ => s.leap.getD false, s.cols⟩

/-- `EPW.from_dict`: 35 collections are required (`_num_of_fields` of a fresh object), every collection
    is built by `HourlyContinuousCollection.from_dict` (value count = hours of its annual period) and
    must share the leap flag of the EPW. -/
def EpwDict.fromDict (d : EpwDict Val) : Except Err (St Val) :=
  if d.values.length ≠ 35 ∨ d.collLeap.length ≠ 35 then .error .assert
  else if (d.values.zip d.collLeap).any (fun p => p.1.length != hoursInYear p.2) then .error .assert
  else if d.collLeap.any (· != d.leap) then .error .assert
  else .ok ⟨true, true, d.isIp, some d.leap, 35, d.values⟩

/-- `to_wea(path, hoys)` on loaded data: SI values are written, the object is converted back also
    when a line fails (modelled as repaired by fixes/C01_to_wea_restore_ip.patch). -/
def St.toWea (cv : Conv Val) (hoys : Option (List Nat)) (s : St Val) :
    Except Err (List (Nat × Nat × Nat × Val × Val)) × St Val :=
  let s1 := s.toSi cv
  let leap := s1.leap.getD false
  let hs := match hoys with
    | some (h :: t) => h :: t
    | _ => List.range (hoursInYear leap)          -- `hoys or range(len(datetimes))`
  let res := mapE (weaLine leap s1.cols) hs
  (res, if s.isIp then s1.toIp cv else s1)

/-- Time column of `to_mos`: seconds since the start of the year of collection index `i`
    (modelled as repaired by fixes/C01_mos_time_3600.patch; the unrepaired code multiplies by 3660). -/
def mosTime (i : Nat) : Nat := 3600 * i

/-- Data line `i` of `to_mos`: `zip(*self._data[6:])`, i.e. fields 6.. at the same collection index. -/
def mosLine (cols : List (List Val)) (i : Nat) : List Val := (cols.drop 6).filterMap (·[i]?)

/-- All data lines of `to_mos` (as many as field 6 has values). -/
def mosTable (cols : List (List Val)) : List (List Val) :=
  transp ((cols[6]?.map List.length).getD 0) (cols.drop 6)

end state

/-! ## 5. Header lines

Each of the header lines has its own small parse / render pair on token lists (`line.split(',')`);
`parseHeader` / `renderHeader` compose them.  Numbers, counters and dates are opaque tokens handled by a
`NumCodec` (CPython `float`, `int`, `'{}'.format`, `'%.2f'`, `split('/')`). -/

/-- Parsing / printing of the numbers of the header. -/
structure NumCodec (F : Type) where
  pf : String → Option F                 -- float(tok); none = ValueError
  sf : F → String                        -- '{}'.format(x)
  f2 : F → String                        -- '%.2f' % x
  within : F → Int → Int → Bool          -- lo <= x <= hi (assertions of Location)
  pi : String → Option Int               -- int(tok)
  sn : Nat → String                      -- '{}'.format(n), n a count or a month / day
  pd : String → Option (List Int)        -- [int(x) for x in tok.split('/')]
  sd : Nat → Nat → String                -- '{}/{}'.format(m, d)

/-- An `AnalysisPeriod(st_month, st_day, 0, end_month, end_day, 23)` of a typical / extreme week. -/
structure Week where
  stM : Nat
  stD : Nat
  endM : Nat
  endD : Nat
deriving DecidableEq, Repr

structure Ground (F : Type) where
  depth : F
  cond : String
  dens : String
  heat : String
  vals : List F
deriving DecidableEq, Repr

/-- Line 1 (`Location`). `lat`/`lon` are `none` for the empty token (stored as the int 0). -/
structure Loc (F : Type) where
  city : String
  state : String
  country : String
  source : String
  station : String
  lat : Option F
  lon : Option F
  tz : F
  elev : F
deriving DecidableEq, Repr

/-- Line 2: the three design-condition dictionaries (insertion order) and the layout flag. -/
structure Design where
  is2009 : Bool
  heating : List (String × String)
  cooling : List (String × String)
  extremes : List (String × String)
deriving DecidableEq, Repr

/-- Line 3: the three week dictionaries (insertion order). -/
structure Weeks where
  hot : List (String × Week)
  cold : List (String × Week)
  typical : List (String × Week)
deriving DecidableEq, Repr

structure Hdr (F : Type) where
  loc : Loc F
  des : Design
  weeks : Weeks
  ground : List (Ground F)              -- dict keyed by float(depth), insertion order
  leap : Option Bool
  dstStart : String
  dstEnd : String
  comments1 : List String               -- tokens after the tag (`','.join` / `split(',')`)
  comments2 : List String
deriving DecidableEq, Repr

/-- `d[key] = val` on an insertion-ordered dict. -/
def dictSet {K V : Type} [DecidableEq K] (d : List (K × V)) (k : K) (v : V) : List (K × V) :=
  if d.any (·.1 == k) then d.map fun p => if p.1 = k then (k, v) else p else d ++ [(k, v)]

def dictGet? {K V : Type} [DecidableEq K] (d : List (K × V)) (k : K) : Option V :=
  (d.find? (·.1 == k)).map (·.2)

def dictOfZip (keys vals : List String) : List (String × String) :=
  (keys.zip vals).foldl (fun d p => dictSet d p.1 p.2) []

/-- `city.replace('\\', ' ').replace('/', ' ')`. -/
def replaceSep (s : String) : String :=
  String.ofList (s.toList.map fun c => if c == '\\' || c == '/' then ' ' else c)

def isWs (c : Char) : Bool := c == ' ' || c == '\t' || c == '\n' || c == '\r' || c == '\x0b' || c == '\x0c'

def trimL (l : List Char) : List Char := ((l.dropWhile isWs).reverse.dropWhile isWs).reverse

def natOfDigits (l : List Char) : Nat := l.foldl (fun a c => a * 10 + (c.toNat - '0'.toNat)) 0

def allDigitsL (l : List Char) : Bool := !l.isEmpty && l.all Char.isDigit

def signSplit (l : List Char) : Bool × List Char :=
  match l with
  | '-' :: r => (true, r)
  | '+' :: r => (false, r)
  | r => (false, r)

/-- `[+-]?digits` (the grammar of `int(str)` without underscores), no surrounding blanks. -/
def parseIntL (l : List Char) : Option Int :=
  let (neg, body) := signSplit l
  if allDigitsL body then some (if neg then -(natOfDigits body : Int) else (natOfDigits body : Int)) else none

/-- `int(tok)`: blanks around the literal are ignored. -/
def parseIntTok (s : String) : Option Int := parseIntL (trimL s.toList)

/-- `sub in s` on character lists. -/
def hasSubL : List Char → List Char → Bool
  | [], sub => sub.isEmpty
  | c :: s, sub => sub.isPrefixOf (c :: s) || hasSubL s sub

/-- Python `sub in s`. -/
def hasSub (s sub : String) : Bool := hasSubL s.toList sub.toList

def dateOk (m d : Nat) : Bool := 1 ≤ m && m ≤ 12 && 1 ≤ d && d ≤ Cal.monthLen false m

/-- `[int(x) for x in tok.split('/')]` on character lists. -/
def splitOnChar (c : Char) (l : List Char) : List (List Char) :=
  l.foldr (fun x acc => if x == c then [] :: acc else
    match acc with
    | [] => [[x]]
    | h :: t => (x :: h) :: t) [[]]

def splitDate (s : String) : Option (List Int) :=
  (splitOnChar '/' s.toList).mapM fun p => parseIntL (trimL p)

/-! ### line 1: location -/

def src2009 : String := "Climate Design Data 2009 ASHRAE Handbook"
def src2021 : String := "2021 ASHRAE Handbook -- Fundamentals - Chapter 14 Climatic Design Information"

def showOptNum {F : Type} (nc : NumCodec F) (v : Option F) : String :=
  match v with
  | none => "0"
  | some x => nc.sf x

def renderLoc {F : Type} (nc : NumCodec F) (l : Loc F) : List String :=
  ["LOCATION", l.city, l.state, l.country, l.source, l.station, showOptNum nc l.lat, showOptNum nc l.lon,
   nc.sf l.tz, nc.sf l.elev]

/-- `0 if not tok else float(tok)`. -/
def parseOptNum {F : Type} (nc : NumCodec F) (t : String) : Except Err (Option F) :=
  if t = "" then .ok none else
    match nc.pf t with
    | some v => .ok (some v)
    | none => .error .value

def optWithin {F : Type} (nc : NumCodec F) (v : Option F) (lo hi : Int) : Bool :=
  match v with
  | none => true
  | some x => nc.within x lo hi

/-- `_import_location`. -/
def parseLoc {F : Type} (nc : NumCodec F) (l0 : List String) : Except Err (Loc F) :=
  match l0[1]?, l0[2]?, l0[3]?, l0[4]?, l0[5]?, l0[6]?, l0[7]?, l0[8]?, l0[9]? with
  | some city, some state, some country, some source, some station, some lat, some lon, some tz, some elev =>
    match parseOptNum nc lat with
    | .error e => .error e
    | .ok la =>
      if !(optWithin nc la (-90) 90) then .error .assert else
      match parseOptNum nc lon with
      | .error e => .error e
      | .ok lo =>
        if !(optWithin nc lo (-180) 180) then .error .assert else
        match nc.pf tz with
        | none => .error .value
        | some tzv =>
          if !(nc.within tzv (-12) 14) then .error .assert else
          match nc.pf elev with
          | none => .error .value
          | some ev => .ok ⟨replaceSep city, state, country, source, station, la, lo, tzv, ev⟩
  | _, _, _, _, _, _, _, _, _ => .error .index

/-! ### line 2: design conditions -/

def heatingKeys2009 : List String := Gen.DD.heatingKeys.dropLast
def coolingKeys2021 : List String := Gen.DD.coolingKeys.dropLast ++ ["WBmax"]
def extremeKeys2021 : List String := Gen.DD.extremeKeys.eraseIdx 3

/-- `dday_data[a:b]`. -/
def sl {α : Type} (l : List α) (a b : Nat) : List α := (l.drop a).take (b - a)

/-- The design conditions of line 2 (2009 and 2021 layouts). -/
def parseDesign {F : Type} (nc : NumCodec F) (dd : List String) : Except Err Design :=
  let hk := Gen.DD.heatingKeys
  let ck := Gen.DD.coolingKeys
  let ek := Gen.DD.extremeKeys
  match dd[1]? with
  | none => .ok ⟨false, [], [], []⟩                       -- len(dday_data) < 2
  | some one =>
    match nc.pi one with
    | none => .error .value
    | some n =>
      if n ≠ 1 then .ok ⟨false, [], [], []⟩
      else match dd[2]? with
        | none => .error .index
        | some src =>
          if hasSub src "2009" then
            match dd[4]?, dd[20]?, dd[53]? with
            | some a, some b, some c =>
              .ok ⟨true,
                   if a == "Heating" then dictOfZip hk (sl dd 5 20) else [],
                   if b == "Cooling" then dictOfZip ck (sl dd 21 53) else [],
                   if c == "Extremes" then dictOfZip ek (sl dd 54 70) else []⟩
            | _, _, _ => .error .index
          else
            match dd[4]?, dd[21]?, dd[54]? with
            | some a, some b, some c =>
              .ok ⟨false,
                   if a == "Heating" then dictOfZip hk (sl dd 5 21) else [],
                   if b == "Cooling" then
                     dictOfZip (ck.map fun k => if k == "Hrs_8-4_&_DB" then "WBmax" else k) (sl dd 22 54) else [],
                   if c == "Extremes" then dictOfZip extremeKeys2021 (sl dd 55 71) else []⟩
            | _, _, _ => .error .index

/-- `[d[key] for key in keys]`; KeyError for a missing key. -/
def lookAll (d : List (String × String)) (ks : List String) : Except Err (List String) :=
  mapE (fun k => match dictGet? d k with
    | some v => .ok v
    | none => .error .key) ks

/-- Line 2 of `EPW.header`: the full line only when all three dictionaries are non-empty. -/
def renderDesign (d : Design) : Except Err (List String) :=
  if !d.heating.isEmpty && !d.cooling.isEmpty && !d.extremes.isEmpty then
    let src := if d.is2009 then src2009 else src2021
    let hk := if d.is2009 then heatingKeys2009 else Gen.DD.heatingKeys
    let ck := if d.is2009 then Gen.DD.coolingKeys else coolingKeys2021
    let ek := if d.is2009 then Gen.DD.extremeKeys else extremeKeys2021
    match lookAll d.heating hk with
    | .error e => .error e
    | .ok a =>
      match lookAll d.cooling ck with
      | .error e => .error e
      | .ok b =>
        match lookAll d.extremes ek with
        | .error e => .error e
        | .ok c => .ok (["DESIGN CONDITIONS", "1", src, "", "Heating"] ++ a ++ ("Cooling" :: (b ++ ("Extremes" :: c))))
  else .ok ["DESIGN CONDITIONS", "0"]

/-! ### line 3: typical / extreme weeks -/

def mkWeek (st en : List Int) : Except Err Week :=
  let fin (m1 d1 m2 d2 : Int) : Except Err Week :=
    if 0 ≤ m1 ∧ 0 ≤ d1 ∧ 0 ≤ m2 ∧ 0 ≤ d2 ∧ dateOk m1.toNat d1.toNat ∧ dateOk m2.toNat d2.toNat then
      .ok ⟨m1.toNat, d1.toNat, m2.toNat, d2.toNat⟩
    else .error .value
  match st with
  | [_, m1, d1] =>
    (match en with
     | _ :: m2 :: d2 :: _ => fin m1 d1 m2 d2
     | _ => .error .index)
  | [m1, d1] =>
    (match en with
     | m2 :: d2 :: _ => fin m1 d1 m2 d2
     | _ => .error .index)
  | _ => .error .value          -- a_per unbound (UnboundLocalError is a NameError; out of the domain)

/-- Where a week goes: hot (`'Max' in name`, Extreme), cold (`'Min' in name`, Extreme), typical, or nowhere. -/
def classify (acc : Weeks) (name kind : String) (w : Week) : Weeks :=
  if hasSub name "Max" && kind == "Extreme" then { acc with hot := dictSet acc.hot name w }
  else if hasSub name "Min" && kind == "Extreme" then { acc with cold := dictSet acc.cold name w }
  else if kind == "Typical" then { acc with typical := dictSet acc.typical name w }
  else acc

/-- `for _ in range(num_weeks): week_dat = week_data[st_ind:st_ind + 4]; st_ind += 4; ...` on the tokens
    from `st_ind` on. -/
def parseWeekList {F : Type} (nc : NumCodec F) : Nat → List String → Weeks → Except Err Weeks
  | 0, _, acc => .ok acc
  | n + 1, toks, acc =>
    match toks.take 4 with
    | [name, kind, st, en] =>
      (match nc.pd st, nc.pd en with
       | some s, some e =>
         (match mkWeek s e with
          | .error er => .error er
          | .ok w => parseWeekList nc n (toks.drop 4) (classify acc name kind w))
       | _, _ => .error .value)
    | _ => .error .index

/-- `int(tokens[1]) if len(tokens) >= 2 and tokens[1] != '' else 0`. -/
def countTok {F : Type} (nc : NumCodec F) (toks : List String) : Except Err Nat :=
  match toks[1]? with
  | none => .ok 0
  | some t => if t = "" then .ok 0 else
      match nc.pi t with
      | some n => .ok n.toNat
      | none => .error .value

def parseWeeks {F : Type} (nc : NumCodec F) (toks : List String) : Except Err Weeks :=
  match countTok nc toks with
  | .error e => .error e
  | .ok n => parseWeekList nc n (toks.drop 2) ⟨[], [], []⟩

def fmtWeek {F : Type} (nc : NumCodec F) (kind : String) (p : String × Week) : List String :=
  [p.1, kind, nc.sd p.2.stM p.2.stD, nc.sd p.2.endM p.2.endD]

/-- Insertion sort by a key (`sorted(...)`, stable). -/
def sortBy {α : Type} (lt : α → α → Bool) (l : List α) : List α :=
  l.foldl (fun acc x =>
    let (a, b) := acc.span (fun y => !(lt x y))
    a ++ x :: b) []

/-- Line 3 of `EPW.header`: hot, cold, then typical weeks sorted by name;
    `'...,{},{}'.format(len(weeks), ','.join(weeks))` ends with an empty token when there is no week. -/
def renderWeeks {F : Type} (nc : NumCodec F) (w : Weeks) : List String :=
  let ws := w.hot.map (fmtWeek nc "Extreme") ++ w.cold.map (fmtWeek nc "Extreme") ++
    (sortBy (fun a b => a.1 < b.1) w.typical).map (fmtWeek nc "Typical")
  ["TYPICAL/EXTREME PERIODS", nc.sn ws.length] ++ (if ws.isEmpty then [""] else ws.flatten)

/-! ### line 4: ground temperatures -/

/-- `self._monthly_ground_temps[float(depth)] = ...`: a repeated depth overwrites in place. -/
def groundSet {F : Type} [DecidableEq F] (gs : List (Ground F)) (g : Ground F) : List (Ground F) :=
  if gs.any (·.depth == g.depth) then gs.map fun x => if x.depth = g.depth then g else x else gs ++ [g]

/-- The loop over the depths on the tokens from `st_ind` on (16 tokens per depth). -/
def parseGroundList {F : Type} [DecidableEq F] (nc : NumCodec F) :
    Nat → List String → List (Ground F) → Except Err (List (Ground F))
  | 0, _, acc => .ok acc
  | n + 1, toks, acc =>
    match toks[0]?, toks[1]?, toks[2]?, toks[3]? with
    | some d, some c, some de, some h =>
      (match nc.pf d, mapO nc.pf ((toks.drop 4).take 12) with
       | some dv, some vs =>
         -- MonthlyCollection(header, values, range(12)) needs 12 values
         if vs.length = 12 then parseGroundList nc n (toks.drop 16) (groundSet acc ⟨dv, c, de, h, vs⟩)
         else .error .assert
       | _, _ => .error .value)
    | _, _, _, _ => .error .index

def parseGround {F : Type} [DecidableEq F] (nc : NumCodec F) (toks : List String) : Except Err (List (Ground F)) :=
  match countTok nc toks with
  | .error e => .error e
  | .ok n => parseGroundList nc n (toks.drop 2) []

def fmtGround {F : Type} (nc : NumCodec F) (g : Ground F) : List String :=
  [nc.sf g.depth, g.cond, g.dens, g.heat] ++ g.vals.map nc.f2

/-- Line 4 of `EPW.header`: depths in increasing order, values with two decimals. -/
def renderGround {F : Type} (nc : NumCodec F) (fltLt : F → F → Bool) (gs : List (Ground F)) : List String :=
  let s := sortBy (fun a b => fltLt a.depth b.depth) gs
  ["GROUND TEMPERATURES", nc.sn s.length] ++ (s.map (fmtGround nc)).flatten

/-! ### lines 5-8 and the composition -/

def parseLeap (l4 : List String) : Except Err (Option Bool × String × String) :=
  match l4[1]?, l4[2]?, l4[3]? with
  | some lp, some ds, some de =>
    .ok (if lp == "Yes" then some true else if lp == "No" then some false else none, ds, de)
  | _, _, _ => .error .index

def renderLeap (leap : Option Bool) (ds de : String) : List String :=
  ["HOLIDAYS/DAYLIGHT SAVINGS", if leap == some true then "Yes" else "No", ds, de, "0"]

/-- `','.join(tokens[1:])` kept as tokens; no token at all is the empty string, i.e. `['']`. -/
def parseComments (l : List String) : List String := if l.tail = [] then [""] else l.tail

def dataPeriods : List String := ["DATA PERIODS", "1", "1", "Data", "Sunday", " 1/ 1", "12/31"]

/-- `_import_location` + `_import_header` on the eight header lines; every line is given as its
    tokens `line.strip().split(',')` (line 3 un-stripped, which only matters for a trailing blank). -/
def parseHeader {F : Type} [DecidableEq F] (nc : NumCodec F) (ls : List (List String)) : Except Err (Hdr F) :=
  match ls with
  | [l0, l1, l2, l3, l4, l5, l6, _] =>
    match parseLoc nc l0 with
    | .error e => .error e
    | .ok loc =>
      match parseDesign nc l1 with
      | .error e => .error e
      | .ok des =>
        match parseWeeks nc l2 with
        | .error e => .error e
        | .ok wk =>
          match parseGround nc l3 with
          | .error e => .error e
          | .ok gr =>
            match parseLeap l4 with
            | .error e => .error e
            | .ok (leap, ds, de) => .ok ⟨loc, des, wk, gr, leap, ds, de, parseComments l5, parseComments l6⟩
  | _ => .error .index

/-- `EPW.header`: the eight lines as token lists (to be joined with ','), `h.leap` being the object's
    `_is_leap_year` at that moment.  KeyError when a design dictionary lacks a key that is written. -/
def renderHeader {F : Type} (nc : NumCodec F) (fltLt : F → F → Bool) (h : Hdr F) : Except Err (List (List String)) :=
  match renderDesign h.des with
  | .error e => .error e
  | .ok desLine =>
    .ok [renderLoc nc h.loc, desLine, renderWeeks nc h.weeks, renderGround nc fltLt h.ground,
         renderLeap h.leap h.dstStart h.dstEnd, "COMMENTS 1" :: h.comments1, "COMMENTS 2" :: h.comments2,
         dataPeriods]

/-! ## 6. Concrete decimal codec (what the driver runs; compared with CPython by correspondence) -/

inductive Cell where
  | int (i : Int)
  | flt (neg : Bool) (m : Nat) (e : Int)       -- (-1)^neg * m * 10^e, m not divisible by 10 (or m = e = 0)
  | str (s : String)
deriving DecidableEq, Repr

/-- Normal form of `m * 10^e`: trailing zeros of `m` move into the exponent (fuel: `m` has fewer than
    `m + 1` trailing zeros). -/
def stripZerosAux : Nat → Nat → Int → Nat × Int
  | 0, m, e => (m, e)
  | f + 1, m, e => if m = 0 then (0, 0) else if m % 10 = 0 then stripZerosAux f (m / 10) (e + 1) else (m, e)

def stripZeros (m : Nat) (e : Int) : Nat × Int := stripZerosAux (m + 1) m e

def splitAtChar (p : Char → Bool) (l : List Char) : List Char × Option (List Char) :=
  match l.span (fun c => !p c) with
  | (a, []) => (a, none)
  | (a, _ :: b) => (a, some b)

/-- Decimal literal `[+-]?(digits[.digits] | .digits)[(e|E)[+-]digits]` after `strip()`. -/
def parseDecTok (s : String) : Option (Bool × Nat × Int) :=
  let (neg, body) := signSplit (trimL s.toList)
  let (mant, exPart) := splitAtChar (fun c => c == 'e' || c == 'E') body
  let ex : Option Int := match exPart with
    | none => some 0
    | some x => parseIntL x
  match ex with
  | none => none
  | some x =>
    let (a, bPart) := splitAtChar (· == '.') mant
    match bPart with
    | none => if allDigitsL a then let (m, e) := stripZeros (natOfDigits a) x; some (neg, m, e) else none
    | some b =>
      if (a.isEmpty || allDigitsL a) && (b.isEmpty || allDigitsL b) && !(a.isEmpty && b.isEmpty) then
        let (m, e) := stripZeros (natOfDigits (a ++ b)) (x - b.length)
        some (neg, m, e)
      else none

def zeros (n : Nat) : String := String.ofList (List.replicate n '0')

def takeS (s : String) (n : Nat) : String := String.ofList (s.toList.take n)
def dropS (s : String) (n : Nat) : String := String.ofList (s.toList.drop n)

/-- `repr(float)` for a decimal with at most 15 significant digits in the positional range
    (`none`: outside what this codec supports; the harness does not generate such cells). -/
def showFlt (neg : Bool) (m : Nat) (e : Int) : Option String :=
  let ds := toString m
  let sign := if neg then "-" else ""
  if m = 0 then some (sign ++ "0.0")
  else
    let decpt : Int := ds.length + e
    if ds.length > 15 || decpt ≤ -4 || decpt > 16 then none
    else if 0 ≤ e then some (sign ++ ds ++ zeros e.toNat ++ ".0")
    else
      let k := (-e).toNat
      if ds.length > k then some (sign ++ takeS ds (ds.length - k) ++ "." ++ dropS ds (ds.length - k))
      else some (sign ++ "0." ++ zeros (k - ds.length) ++ ds)

def ratOfDec (neg : Bool) (m : Nat) (e : Int) : Rat :=
  let v : Rat := if 0 ≤ e then (m : Rat) * Py.pow10 e.toNat else (m : Rat) / Py.pow10 (-e).toNat
  if neg then -v else v

/-- `value_type(tok)` with the fallback of `_import_body` for int fields. -/
def parseCell (k : Nat) (t : String) : Option Cell :=
  match Gen.EpwFields.valueType[k]? with
  | some 0 =>
    match parseIntTok t with
    | some i => some (Cell.int i)
    | none => (parseDecTok t).map fun (n, m, e) => Cell.int (Py.round (ratOfDec n m e))
  | some 1 => (parseDecTok t).map fun (n, m, e) => Cell.flt n m e
  | some 2 => some (Cell.str t)
  | _ => none

/-- `str(value)`; `"?"` marks a float outside the supported range (reported, never compared). -/
def showCell : Cell → String
  | .int i => toString i
  | .flt n m e => (showFlt n m e).getD "?"
  | .str s => s

def decCodec : Codec String Cell := ⟨parseCell, showCell⟩

/-- `'%.2f' % x` on the exact decimal value (ties to even; the harness generates no ties at the third
    decimal, where the binary double decides). -/
def fmt2 (neg : Bool) (m : Nat) (e : Int) : String :=
  let q := Py.round (ratOfDec false m e * 100)
  let s := toString q.toNat
  let s := if s.length < 3 then zeros (3 - s.length) ++ s else s
  (if neg && q ≠ 0 then "-" else if neg then "-" else "") ++ takeS s (s.length - 2) ++ "." ++ dropS s (s.length - 2)

def decNum : NumCodec (Bool × Nat × Int) where
  pf := parseDecTok
  sf := fun (n, m, e) => (showFlt n m e).getD "?"
  f2 := fun (n, m, e) => fmt2 n m e
  within := fun (n, m, e) lo hi => (lo : Rat) ≤ ratOfDec n m e && ratOfDec n m e ≤ (hi : Rat)
  pi := parseIntTok
  sn := fun n => toString n
  pd := splitDate
  sd := fun m d => toString m ++ "/" ++ toString d

def decLt (a b : Bool × Nat × Int) : Bool := ratOfDec a.1 a.2.1 a.2.2 < ratOfDec b.1 b.2.1 b.2.2

#guard rot [1, 2, 3, 4] = [4, 1, 2, 3]
#guard unrot [4, 1, 2, 3] = [1, 2, 3, 4]
#guard transp 2 [[1, 2], [3, 4], [5, 6]] = [[1, 3, 5], [2, 4, 6]]
#guard showCell (Cell.flt false 15 (-1)) = "1.5"
#guard (parseCell 6 "1.50").map showCell = some "1.5"
#guard (parseCell 6 "+3").map showCell = some "3.0"
#guard (parseCell 6 "-.5").map showCell = some "-0.5"
#guard (parseCell 6 "6.50397149946918E-02").map showCell = some "0.0650397149946918"
#guard (parseCell 8 "007").map showCell = some "7"
#guard (parseCell 8 "2.5").map showCell = some "2"
#guard (parseCell 8 "3.5").map showCell = some "4"
#guard (parseCell 6 "1e5").map showCell = some "100000.0"
#guard (parseCell 6 "abc") = none
#guard fmt2 false 1234 (-3) = "1.23"
#guard fmt2 true 5 (-1) = "-0.50"
#guard canonRow decCodec 8 ["1986", "01", "1", "1", "0", "?9", "1.50", "+3"] = ["1986", "1", "1", "1", "0", "?9", "1.5", "3.0"]
#guard stampOfRow 0 = (1, 1)
#guard stampOfRow 8759 = (365, 24)
#guard minuteOfStamp false (stampOfRow 8759) = 0
#guard minuteOfStamp false (stampOfRow 23) = 1440

/-! ## 7. Equal values of different text (round 5)

Python's `==` (and `hash`, hence every `dict` / `set` / memo keyed by a value) puts `0.0` and `-0.0`, and `1`
and `1.0`, into one class, while `str` prints them differently.  A write that looks the text of a cell up by
its VALUE is therefore not the write of `to_file_string` (which prints every cell from the cell itself). -/

/-- Python's `==` on the cells of the driver codec: numbers by their value (whatever the type and the sign
    of zero), text by its characters, a number never equals text. -/
def Cell.pyEq : Cell → Cell → Bool
  | .int i, .int j => i == j
  | .int i, .flt n m e => ((i : Int) : Rat) == ratOfDec n m e
  | .flt n m e, .int i => ratOfDec n m e == ((i : Int) : Rat)
  | .flt n m e, .flt n' m' e' => ratOfDec n m e == ratOfDec n' m' e'
  | .str s, .str t => s == t
  | _, _ => false

/-- The text a per-column memo hands out for `v`: the text of the FIRST value of the column that the key
    relation `eqv` identifies with `v` (`texts.setdefault(value, str(value))`). -/
def memoText {Tok Val : Type} (eqv : Val → Val → Bool) (shw : Val → Tok) (col : List Val) (v : Val) : Tok :=
  match col.find? (fun w => eqv w v) with
  | some w => shw w
  | none => shw v

/-- A column written through such a memo. -/
def memoCol {Tok Val : Type} (eqv : Val → Val → Bool) (shw : Val → Tok) (col : List Val) : List Tok :=
  col.map (memoText eqv shw col)

#guard Cell.pyEq (.flt true 0 0) (.flt false 0 0) && Cell.pyEq (.int 1) (.flt false 1 0) && !Cell.pyEq (.int 1) (.flt false 15 (-1))
#guard memoCol Cell.pyEq showCell [.flt false 0 0, .flt true 0 0] = ["0.0", "0.0"]
#guard [Cell.flt false 0 0, .flt true 0 0].map showCell = ["0.0", "-0.0"]
#guard (parseCell 6 "-0.0") = some (.flt true 0 0) ∧ (parseCell 6 "0.0") = some (.flt false 0 0)

end Epw
