/-
  Object state machine of the design-day humidity objects of designday.py (C09, round 3):
  one `DesignDay` seen through its `HumidityCondition` (humidity_type, humidity_value,
  barometric_pressure) and `DryBulbCondition` (dry_bulb_max, dry_bulb_range) with their public setters,
  the refusals of those setters (the `assert`s of the code) and every read the property speaks about
  (day dew point, dew point at another dry bulb, hourly dew point, hourly relative humidity, hourly pressure).

  The state is exactly the PUBLIC state the user has established: the model has no hidden slot, no memo,
  no lazily filled attribute.  That is the specification a real object is compared with step by step
  (`drv_c09 ddhist …`): whatever was read before, whatever was refused before, the next read is the pure
  function of the five public fields.

  Built on the pure functions of Model/Psychro.lean (additive: nothing there is changed).  No Mathlib.
-/
import Ladybug.Model.Psychro

namespace Psychro

open Transc

section generic

variable {α : Type} [Add α] [Sub α] [Mul α] [Div α] [Neg α] [OfScientific α]
  [LT α] [LE α] [DecidableLT α] [DecidableLE α] [Transc α]

/-- `DryBulbCondition.HOURLY_MULTIPLIERS` (the ints `1` and `0` of the tuple as exact floats). -/
def hourlyMultipliers : List α :=
  [0.82, 0.88, 0.92, 0.95, 0.98, 1.0, 0.98, 0.91, 0.74, 0.55, 0.38, 0.23, 0.13, 0.05, 0.0, 0.0, 0.06, 0.14,
   0.24, 0.39, 0.5, 0.59, 0.68, 0.75]

/-- Public state of a design day as far as humidity is concerned. -/
structure DDObj (α : Type) where
  ty : HumType
  value : α
  pressure : α
  dbMax : α
  dbRange : α

/-- `DryBulbCondition.hourly_values` -/
def DDObj.hourlyDb (o : DDObj α) : List α :=
  (hourlyMultipliers (α := α)).map fun x => o.dbMax - o.dbRange * x

/-- `HumidityCondition.dew_point(db)` on the object's state -/
def DDObj.dewAt (o : DDObj α) (db : α) : α := ddDewPoint o.ty o.value o.pressure db

/-- the day's dew point: `dew_point(dry_bulb_max)` -/
def DDObj.dayDew (o : DDObj α) : α := o.dewAt o.dbMax

/-- `DesignDay.hourly_dew_point.values` -/
def DDObj.hourlyDew (o : DDObj α) : List α := ddHourlyDewPoint o.dayDew o.hourlyDb

/-- `DesignDay.hourly_relative_humidity.values` -/
def DDObj.hourlyRh (o : DDObj α) : List α := ddHourlyRelHumid o.dayDew o.hourlyDb

/-- `HumidityCondition.hourly_pressure` -/
def DDObj.hourlyPressure (o : DDObj α) : List α := List.replicate 24 o.pressure

/-- The reads the property speaks about. -/
inductive DDRead (α : Type) where
  | dayDew
  | dewAt (db : α)
  | hourlyDb
  | hourlyDew
  | hourlyRh
  | hourlyPressure

/-- Operations on one object.  A setter argument `none` stands for a value the setter's `assert`
    rejects outright (not a number / not one of `HUMIDITY_TYPES`). -/
inductive DDOp (α : Type) where
  | setType (t : Option HumType)
  | setValue (v : Option α)
  | setPressure (v : Option α)
  | setDbMax (v : Option α)
  | setDbRange (v : Option α)
  | read (r : DDRead α)

/-- What an operation answers. -/
inductive DDOut (α : Type) where
  | done
  | refused
  | vals (l : List α)

/-- One read: a pure function of the public state. -/
def DDObj.observe (o : DDObj α) : DDRead α → List α
  | .dayDew => [o.dayDew]
  | .dewAt db => [o.dewAt db]
  | .hourlyDb => o.hourlyDb
  | .hourlyDew => o.hourlyDew
  | .hourlyRh => o.hourlyRh
  | .hourlyPressure => o.hourlyPressure

/-- `assert data >= 0` of the `dry_bulb_range` setter (false for nan). -/
abbrev rangeOk (r : α) : Prop := 0.0 ≤ r

/-- One operation: new state and answer.  Refused operations return the state unchanged. -/
def DDObj.step (o : DDObj α) : DDOp α → DDObj α × DDOut α
  | .setType (some t) => ({ o with ty := t }, .done)
  | .setType none => (o, .refused)
  | .setValue (some v) => ({ o with value := v }, .done)
  | .setValue none => (o, .refused)
  | .setPressure (some v) => ({ o with pressure := v }, .done)
  | .setPressure none => (o, .refused)
  | .setDbMax (some v) => ({ o with dbMax := v }, .done)
  | .setDbMax none => (o, .refused)
  | .setDbRange (some v) => if rangeOk v then ({ o with dbRange := v }, .done) else (o, .refused)
  | .setDbRange none => (o, .refused)
  | .read r => (o, .vals (o.observe r))

/-- A whole history: final state and the answers in order. -/
def DDObj.run (o : DDObj α) : List (DDOp α) → DDObj α × List (DDOut α)
  | [] => (o, [])
  | op :: rest =>
    let r := o.step op
    let q := r.1.run rest
    (q.1, r.2 :: q.2)

/-- The state after a history. -/
def DDObj.after (o : DDObj α) (ops : List (DDOp α)) : DDObj α := (o.run ops).1

/-! ### the final public state, computed from the op list alone (what the user has established) -/

/-- the type established by a history: argument of the last accepted `humidity_type = …` -/
def lastType (init : HumType) : List (DDOp α) → HumType
  | [] => init
  | .setType (some t) :: rest => lastType t rest
  | _ :: rest => lastType init rest

def lastValue (init : α) : List (DDOp α) → α
  | [] => init
  | .setValue (some v) :: rest => lastValue v rest
  | _ :: rest => lastValue init rest

def lastPressure (init : α) : List (DDOp α) → α
  | [] => init
  | .setPressure (some v) :: rest => lastPressure v rest
  | _ :: rest => lastPressure init rest

def lastDbMax (init : α) : List (DDOp α) → α
  | [] => init
  | .setDbMax (some v) :: rest => lastDbMax v rest
  | _ :: rest => lastDbMax init rest

def lastDbRange (init : α) : List (DDOp α) → α
  | [] => init
  | .setDbRange (some v) :: rest => if rangeOk v then lastDbRange v rest else lastDbRange init rest
  | _ :: rest => lastDbRange init rest

/-- The object a user would build directly ("fresh") from the values established by a history:
    each field is the argument of the last ACCEPTED setter of that field, or the initial value. -/
def DDObj.established (o : DDObj α) (ops : List (DDOp α)) : DDObj α :=
  ⟨lastType o.ty ops, lastValue o.value ops, lastPressure o.pressure ops, lastDbMax o.dbMax ops,
   lastDbRange o.dbRange ops⟩

end generic

/-! ### unit tests (Float) -/

private def o0 : DDObj Float := ⟨.wetbulb, 23.0, 101325.0, 32.0, 10.0⟩

#guard (o0.hourlyDb.length == 24) && (o0.hourlyDew.length == 24) && (o0.hourlyRh.length == 24)
#guard (o0.run [.setDbRange (some (-1.0)), .setType none, .setValue none]).1.dbRange == 10.0
#guard (o0.after [.setPressure (some 90000.0), .read .dayDew, .setDbRange (some (-2.0))]).pressure == 90000.0
#guard (o0.established [.setPressure (some 90000.0), .read .dayDew, .setDbRange (some (-2.0))]).dbRange == 10.0

end Psychro
