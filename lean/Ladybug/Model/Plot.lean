/-
  Executable model of the data-placement logic of ladybug's plots (property C17).  No Mathlib.

  Modelled (hand-written from the code as it exists, quirks included):
    * hourlyplot.py   `HourlyPlot.__init__` grid dimensions (`_num_x`, `_num_y`), `values`/`colors`
                      per-day reversal, `_compute_colored_mesh2d` (pattern of kept faces from
                      `m_aper.moys`, its per-column reversal, face removal, colour assignment);
    * _datacollectionbase.py  `histogram`, `histogram_circular`;
    * windrose.py     `_compute_angles`, `_compute_windrose_data`, `prevailing_direction`;
    * monthlychart.py `_compute_monthly_bars`, `_compute_daily_bars` (one group of data of one data type);
    * psychchart.py   `_compute_hour_values` (SI chart), face order of `_generate_mesh`.

  The model describes the code WITH these repairs applied (see "Repaired behaviour" notes):
    fixes/C17_hourlyplot_num_y.patch, fixes/C17_hourlyplot_reverse_by_doy.patch,
    fixes/C17_daily_bars_first_month.patch.

  Conventions: time is the minute of the year (`Cal`/`AP` conventions); the values carried by a plot
  are a type parameter `α` (data movement only); numbers that enter arithmetic are `Rat`.
  `ladybug_geometry` (trusted base): `Mesh2D.from_grid` orders its faces column by column
  (face `i` is column `i / num_y`, row `i % num_y`), `remove_faces_only(pattern)` keeps the faces
  whose pattern entry is `True`, in order, and raises when the pattern length differs from the
  number of faces; the `colors` setter raises unless there is one colour per face.

  Correspondence ops: Drv/C17.lean (harness/props/c17.py).  Theorems: Props/C17.lean.
-/
import Ladybug.Py
import Ladybug.Model.Cal
import Ladybug.Model.AP

open Cal

namespace Plot

inductive PErr where
  | assert   -- AssertionError
  | value    -- ValueError
  | index    -- IndexError
  | zero     -- ZeroDivisionError
deriving DecidableEq, Repr

/-! ## Hourly plot -/

/-- `_num_x`: number of day columns. -/
def numX (ap : AP) : Nat :=
  if ap.isReversed = false then ap.endTime.doy - ap.stTime.doy + 1
  else daysInYear ap.leap - ap.stTime.doy + ap.endTime.doy + 1

/-- `_num_y`: number of rows (time steps of one day column).

    Repaired behaviour (fixes/C17_hourlyplot_num_y.patch): the branch `(end - st + 1) * timestep` is
    taken only for the whole-day window `0 .. 23`.  The pinned code takes it for every
    `end_hour == 23`; for `st_hour > 0` and `timestep > 1` that counts the `23:xx` sub-steps which
    the analysis period does not contain (the window is closed at `end_hour:00` unless it is the
    whole day), so the plot raised `AssertionError` (pattern length ≠ number of faces). -/
def numY (ap : AP) : Nat :=
  if ap.st_hour = 0 ∧ ap.end_hour = 23 then 24 * ap.timestep
  else if ap.st_hour ≤ ap.end_hour then (ap.end_hour - ap.st_hour) * ap.timestep + 1
  else 24 * ap.timestep

/-- `m_aper`: the period whose enumeration indexes the mesh faces – the period itself, or for an
    overnight window the same days with the whole-day window. -/
def mAper (ap : AP) : AP :=
  if ap.st_hour ≤ ap.end_hour then ap
  else ⟨ap.st_month, ap.st_day, 0, ap.end_month, ap.end_day, 23, ap.timestep, ap.leap⟩

/-- The greedy `found_i` loop: one Boolean per step of `m_aper.moys`, `True` when the step equals
    the next not yet matched datum.  (After the last datum the code compares with the sentinel
    527100, which no minute of a year equals.) -/
def pattern : List Nat → List Nat → List Bool
  | [], _ => []
  | _ :: ms, [] => false :: pattern ms []
  | m :: ms, d :: ds => if m = d then true :: pattern ms ds else false :: pattern ms (d :: ds)

/-- `t_diff` of the `reverse_y` branch (chunk length of the per-column reversal). -/
def tDiff (mp : AP) : Nat :=
  let hrDiff := if mp.st_hour ≤ mp.end_hour then mp.end_hour - mp.st_hour else mp.st_hour - mp.end_hour
  if mp.timestep = 1 ∨ hrDiff ≠ 23 then mp.timestep * hrDiff + 1 else mp.timestep * (hrDiff + 1)

/-- `for i in range(0, len(l), n): out.extend(reversed(l[i:i + n]))` (`n ≥ 1`). -/
def chunkRev {α : Type} (n : Nat) (l : List α) : List α :=
  (List.range ((l.length + n - 1) / n)).flatMap fun i => ((l.drop (i * n)).take n).reverse

/-- The loop of `values` / `colors` under `reverse_y`: `cur` is `current_day`, `acc` the values of
    the running day in reverse order, the input pairs are (day key of the datum, value). -/
def revDaysGo {α : Type} : Nat → List α → List (Nat × α) → List α
  | _, acc, [] => acc
  | cur, acc, (d, v) :: rest =>
    if d = cur then revDaysGo cur (v :: acc) rest else acc ++ revDaysGo d [v] rest

/-- `values` (and `colors`) under `reverse_y`: each day's run reversed.  `dts[0]` of an empty
    collection is an IndexError.

    Repaired behaviour (fixes/C17_hourlyplot_reverse_by_doy.patch): the day key is the day of the
    year.  The pinned code compares `dat_t.day` (day of the month): sparse data whose consecutive
    values fall on the same day number of different months (5 Jan, 5 Feb) were reversed as one day,
    so faces got the values/colours of other data. -/
def revDays {α : Type} (l : List (Nat × α)) : Except PErr (List α) :=
  match l with
  | [] => .error .index
  | (d, _) :: _ => .ok (revDaysGo d [] l)

/-- Indices of the `True` entries of a pattern, counted from `i`. -/
def keptFrom : Nat → List Bool → List Nat
  | _, [] => []
  | i, b :: bs => if b then i :: keptFrom (i + 1) bs else keptFrom (i + 1) bs

/-- Cell (column, row) of face `i` of `Mesh2D.from_grid(base, num_x, num_y, …)`. -/
def cellOf (ny : Nat) (i : Nat) : Nat × Nat := (i / ny, i % ny)

/-- Day key of a minute of the year. -/
def dayOf (moy : Nat) : Nat := moy / 1440

/-- The pattern handed to `remove_faces_only` for a discontinuous collection. -/
def facePattern (ap : AP) (rev : Bool) (dataMoys : List Nat) : List Bool :=
  let mp := mAper ap
  let pat := pattern mp.moys dataMoys
  if rev then chunkRev (tDiff mp) pat else pat

/-- `HourlyPlot.values` for data `(moy, value)`. -/
def plotValues {α : Type} (rev : Bool) (data : List (Nat × α)) : Except PErr (List α) :=
  if rev then revDays (data.map fun p => (dayOf p.1, p.2)) else .ok (data.map (·.2))

/-- `colored_mesh2d` as the list of its faces: (column, row, value that colours the face).
    `continuous`: the collection is an `HourlyContinuousCollection` (no face is removed). -/
def hourlyFaces {α : Type} (ap : AP) (continuous rev : Bool) (data : List (Nat × α)) :
    Except PErr (List (Nat × Nat × α)) :=
  let nx := numX ap
  let ny := numY ap
  let pat? : Except PErr (List Bool) :=
    if continuous then .ok (List.replicate (nx * ny) true)
    else
      let pat := facePattern ap rev (data.map (·.1))
      if pat.length = nx * ny then .ok pat else .error .assert
  match pat? with
  | .error e => .error e
  | .ok pat =>
    let kept := keptFrom 0 pat
    match plotValues rev data with
    | .error e => .error e
    | .ok vals =>
      if vals.length = kept.length then
        .ok ((kept.zip vals).map fun p => ((cellOf ny p.1).1, (cellOf ny p.1).2, p.2))
      else .error .value

/-! ## Histograms -/

/-- `sorted(values, key=key)` (stable). -/
def sortByKey {α : Type} (key : α → Rat) (l : List α) : List α :=
  l.mergeSort fun a b => decide (key a ≤ key b)

def minL : List Rat → Option Rat
  | [] => none
  | x :: xs => some (xs.foldl (fun a b => if b < a then b else a) x)

def maxL : List Rat → Option Rat
  | [] => none
  | x :: xs => some (xs.foldl (fun a b => if a < b then b else a) x)

/-- `for i in range(start, stop): if k < bins[i + 1]: … break` – the first such `i`. -/
def findUpper (bins : List Rat) (k : Rat) (start stop : Nat) : Option Nat :=
  (List.range' start (stop - start)).find? fun i =>
    match bins[i + 1]? with
    | some b => decide (k < b)
    | none => false

/-- The loop of `histogram` over the sorted keys, threading `bin_index`: the index of the list the
    value is appended to (`none`: appended nowhere). -/
def histAssign (bins : List Rat) (mn mx : Rat) : Nat → List Rat → List (Option Nat)
  | _, [] => []
  | bi, k :: ks =>
    if k < mn then some 0 :: histAssign bins mn mx bi ks
    else if mx ≤ k then some bins.length :: histAssign bins mn mx bi ks
    else
      match findUpper bins k bi (bins.length - 1) with
      | some i => some (i + 1) :: histAssign bins mn mx i ks
      | none => none :: histAssign bins mn mx bi ks

/-- Collect the values of list number `j`. -/
def collect {α : Type} (vals : List α) (asg : List (Option Nat)) (j : Nat) : List α :=
  ((vals.zip asg).filter fun p => p.2 == some j).map (·.1)

/-- `histogram(values, bins, key)`: `len(bins) + 1` lists – below the first edge, one per interval
    `[bins[i], bins[i+1])`, at/above the last edge.  Empty `bins`: `min(())` raises ValueError. -/
def histogram {α : Type} (key : α → Rat) (values : List α) (bins : List Rat) :
    Except PErr (List (List α)) :=
  match minL bins, maxL bins with
  | some mn, some mx =>
    let vals := sortByKey key values
    let asg := histAssign bins mn mx 0 (vals.map key)
    .ok ((List.range (bins.length + 1)).map (collect vals asg))
  | _, _ => .error .value

/-- One test of the inner loop of `histogram_circular`: does bin `i` take key `k`? -/
def circTakes (bins : List Rat) (lo hi : Rat) (k : Rat) (i : Nat) : Bool :=
  match bins[i]?, bins[i + 1]? with
  | some a, some b =>
    if a < b then decide (a ≤ k ∧ k < b)
    else decide ((k ≤ hi ∧ a ≤ k) ∨ (k < b ∧ lo ≤ k))
  | _, _ => false

/-- Bin of key `k`: out of range → none; else the first bin that takes it. -/
def circBin (bins : List Rat) (lo hi : Rat) (k : Rat) : Option Nat :=
  if k < lo ∨ hi ≤ k then none
  else (List.range (bins.length - 1)).find? (circTakes bins lo hi k)

/-- `histogram_circular(values, bins, hist_range, key)`; `hist_range = None` takes
    `(key(vals[0]), key(vals[-1]) + 1)` (IndexError on empty input). -/
def histogramCircular {α : Type} (key : α → Rat) (values : List α) (bins : List Rat)
    (range : Option (Rat × Rat)) : Except PErr (List (List α)) :=
  let vals := sortByKey key values
  let rng? : Except PErr (Rat × Rat) :=
    match range with
    | some r => .ok r
    | none =>
      match vals.head?, vals.getLast? with
      | some a, some b => .ok (key a, key b + 1)
      | _, _ => .error .index
  match rng? with
  | .error e => .error e
  | .ok (lo, hi) =>
    let asg := (vals.map key).map (circBin bins lo hi)
    .ok ((List.range (bins.length - 1)).map (collect vals asg))

/-! ## Wind rose -/

/-- `_compute_angles(n)`: `linspace(0, 360, n + 1)` shifted back by half a sector, wrapped. -/
def angles (n : Nat) : List Rat :=
  let phi : Rat := 360 / (n : Rat) / 2
  (List.range (n + 1)).map fun (i : Nat) =>
    let b : Rat := (i : Rat) * (360 / (n : Rat)) + 0
    if 0 ≤ b - phi then b - phi else b - phi + 360

/-- The float literal `1e-10` of the calm test, exactly. -/
def calmThreshold : Rat := 7737125245533627 / 77371252455336267181195264

/-- `_compute_windrose_data`: samples are (direction already reduced `% 360`, analysis value);
    calm = not `v > 1e-10` when the analysis data is a speed.  Returns the analysis values per
    sector and the calm count. -/
def windroseData (n : Nat) (isSpeed : Bool) (samples : List (Rat × Rat)) :
    Except PErr (List (List Rat) × Nat) :=
  let kept := if isSpeed then samples.filter fun p => decide (calmThreshold < p.2) else samples
  let calm := samples.length - kept.length
  match histogramCircular (fun p : Rat × Rat => p.1) kept (angles n) (some (0, 360)) with
  | .error e => .error e
  | .ok h => .ok (h.map (·.map (·.2)), calm)

/-- The tie-keeping arg-max loop of `prevailing_direction` over (frequency, direction) pairs. -/
def prevailGo : Nat → List Rat → List (Nat × Rat) → List Rat
  | _, acc, [] => acc
  | mx, acc, (f, d) :: rest =>
    if mx < f then prevailGo f [d] rest
    else if mx = f then prevailGo mx (acc ++ [d]) rest
    else prevailGo mx acc rest

/-- `prevailing_direction` from the sector counts: directions `i / n * 360`. -/
def prevailing (counts : List Nat) : List Rat :=
  let n := counts.length
  prevailGo 0 [] (counts.zipIdx.map fun p => (p.1, (p.2 : Rat) / (n : Rat) * 360))

/-! ## Monthly chart bars -/

/-- Geometry of one bar: (start_x, start_y, bar_width, end_y). -/
structure Bar where
  x : Rat
  y0 : Rat
  w : Rat
  y1 : Rat
deriving DecidableEq, Repr

/-- Chart settings shared by the bars of one data-type group. -/
structure BarCfg where
  baseX : Rat
  baseY : Rat
  xDim : Rat
  yDim : Rat
  stack : Bool
  cumulative : Bool   -- `_is_cumulative(t)` of the group's data type
  minV : Rat          -- `_minimums[j]`
  maxV : Rat          -- `_maximums[j]`
deriving Repr

def BarCfg.dRange (c : BarCfg) : Rat := if c.maxV - c.minV = 0 then 1 else c.maxV - c.minV
def BarCfg.zeroVal (c : BarCfg) : Rat := c.yDim * (c.minV / c.dRange)
def BarCfg.baseLine (c : BarCfg) : Rat := if c.cumulative then c.baseY - c.zeroVal else c.baseY

/-- `bar_hgt` of a value. -/
def BarCfg.hgt (c : BarCfg) (v : Rat) : Rat :=
  if c.cumulative then c.yDim * ((v - c.minV) / c.dRange) + c.zeroVal
  else c.yDim * ((v - c.minV) / c.dRange)

/-- One value of one collection: start_y and the updated running base lines `(up, low)` of its
    column. -/
def BarCfg.place (c : BarCfg) (v : Rat) (up low : Rat) : Rat × Rat × Rat :=
  let h := c.hgt v
  if c.cumulative then
    if 0 ≤ h then (up, if c.stack then up + h else up, low)
    else (low, up, if c.stack then low + h else low)
  else (c.baseLine, up, low)

/-- The bars of one collection of a monthly chart (`for m_i, val in enumerate(data)`), threading the
    per-column base lines; `sx m_i` is the bar's start_x, `w m_i` its width. -/
def barsOfData (c : BarCfg) (sx w : Nat → Rat) :
    Nat → List Rat → List (Rat × Rat) → List Bar × List (Rat × Rat)
  | _, [], _ => ([], [])
  | mi, v :: vs, lines =>
    let (up, low) := match lines with | [] => (c.baseLine, c.baseLine) | l :: _ => l
    let (y0, up', low') := c.place v up low
    let r := barsOfData c sx w (mi + 1) vs lines.tail
    ({ x := sx mi, y0 := y0, w := w mi, y1 := y0 + c.hgt v } :: r.1, (up', low') :: r.2)

/-- `_compute_monthly_bars` for one data-type group: `nBars = _horizontal_bar_count()`, `bc` the
    running `bar_count`; returns one bar list per collection and the new `bar_count`. -/
def monthlyGroup (c : BarCfg) (nBars : Nat) :
    Nat → List (List Rat) → List (Rat × Rat) → List (List Bar) × Nat
  | bc, [], _ => ([], if c.stack ∧ c.cumulative then bc + 1 else bc)
  | bc, data :: rest, lines =>
    let bw : Rat := c.xDim / ((nBars : Rat) + 1)
    let sx := fun (mi : Nat) => c.baseX + (mi : Rat) * c.xDim + bw / 2 + (bc : Rat) * bw
    let (bars, lines') := barsOfData c sx (fun _ => bw) 0 data lines
    let bc' := if ¬ c.stack ∨ ¬ c.cumulative then bc + 1 else bc
    let r := monthlyGroup c nBars bc' rest lines'
    (bars :: r.1, r.2)

/-- Initial base lines of a group: `[base_y] * len(data_arr[0])`. -/
def initLines (c : BarCfg) (datas : List (List Rat)) : List (Rat × Rat) :=
  List.replicate (datas.head?.getD []).length (c.baseLine, c.baseLine)

/-- x position and width of the daily bars of one collection: the loop over
    `day_count / month_count / x_dist / bar_width`.  `dpm` = days of each month of the period,
    `big` = `big_bar_width`; yields per value (x_dist + month_count * x_dim, bar_width).

    Repaired behaviour (fixes/C17_daily_bars_first_month.patch): the loop starts at day
    `st_day - 1` of the first month (`day_count = x_dist / bar_width = st_day - 1`).  The pinned code
    starts at day 0, so for a period that does not begin on the first of a month every bar stood
    `st_day - 1` day slots too far left and the first days of each following month were drawn in
    the previous month's column. -/
def dailySlots (xDim big : Rat) (dpm : List Nat) :
    Nat → Nat → Nat → Rat → List (Rat × Rat)
  | 0, _, _, _ => []
  | n + 1, dayCount, monthCount, xDist =>
    let bw : Rat := big / ((dpm.getD monthCount 1 : Nat) : Rat)
    let here := (xDist + (monthCount : Rat) * xDim, bw)
    let dayCount' := dayCount + 1
    if dayCount' = dpm.getD monthCount 0 then
      if monthCount ≠ dpm.length - 1 then here :: dailySlots xDim big dpm n 0 (monthCount + 1) 0
      else here :: dailySlots xDim big dpm n 0 monthCount (xDist + bw)
    else here :: dailySlots xDim big dpm n dayCount' monthCount (xDist + bw)

/-- `_compute_daily_bars` for one data-type group (same structure as `monthlyGroup`). -/
def dailyGroup (c : BarCfg) (nBig : Nat) (dpm : List Nat) (stDay : Nat) :
    Nat → List (List Rat) → List (Rat × Rat) → List (List Bar) × Nat
  | bc, [], _ => ([], if c.stack ∧ c.cumulative then bc + 1 else bc)
  | bc, data :: rest, lines =>
    let big : Rat := c.xDim / (nBig : Rat)
    let bw0 : Rat := big / ((dpm.getD 0 1 : Nat) : Rat)
    let slots := dailySlots c.xDim big dpm data.length (stDay - 1) 0 (((stDay - 1 : Nat) : Rat) * bw0)
    let sx := fun (mi : Nat) => c.baseX + (slots.getD mi (0, 0)).1 + (bc : Rat) * big
    let w := fun (mi : Nat) => (slots.getD mi (0, 0)).2
    let (bars, lines') := barsOfData c sx w 0 data lines
    let bc' := if ¬ c.stack ∨ ¬ c.cumulative then bc + 1 else bc
    let r := dailyGroup c nBig dpm stDay bc' rest lines'
    (bars :: r.1, r.2)

/-! ## Psychrometric chart (SI) -/

/-- `for y, cat in enumerate(cats): if v < cat: break` – the first category above `v`, or the last
    index when there is none (the loop variable keeps its last value). -/
def catIndex (cats : List Rat) (v : Rat) : Nat :=
  match (List.range cats.length).find? fun i => decide (v < cats.getD i 0) with
  | some i => i
  | none => cats.length - 1

/-- `_rh_category`: 5, 10, …, 100. -/
def rhCats : List Rat := (List.range 20).map fun (i : Nat) => ((5 * (i + 1) : Nat) : Rat)

/-- `_t_category` of an SI chart: `min + 1 .. max`. -/
def tCats (minT maxT : Int) : List Rat :=
  (List.range (maxT - minT).toNat).map fun (i : Nat) => ((minT + 1 + (i : Int) : Int) : Rat)

/-- Is the hour on the chart? (`t < min or t > max` is skipped). -/
def onChart (minT maxT : Int) (t : Rat) : Bool := decide ((minT : Rat) ≤ t ∧ t ≤ (maxT : Rat))

/-- Cell (rh row `y`, temperature column `x`) of an hour. -/
def psyCell (minT maxT : Int) (t rh : Rat) : Nat × Nat :=
  (catIndex rhCats rh, catIndex (tCats minT maxT) t)

/-- `base_mtx` flattened row by row (`[tc for rh_l in base_mtx for tc in rh_l]`): the number of
    on-chart hours per cell. -/
def psyCounts (minT maxT : Int) (hours : List (Rat × Rat)) : List Nat :=
  let nT := (tCats minT maxT).length
  let cells := (hours.filter fun p => onChart minT maxT p.1).map fun p => psyCell minT maxT p.1 p.2
  (List.range (20 * nT)).map fun i => (cells.filter fun c => c.1 * nT + c.2 == i).length

/-- `_remove_pattern` and the kept faces with their counts (face `i` of `_generate_mesh` is rh row
    `i / nT`, temperature column `i % nT`). -/
def psyFaces (minT maxT : Int) (hours : List (Rat × Rat)) : List (Nat × Nat × Nat) :=
  let nT := (tCats minT maxT).length
  ((psyCounts minT maxT hours).zipIdx.filter fun p => p.1 ≠ 0).map fun p => (p.2 / nT, p.2 % nT, p.1)

/-! ## Unit tests of the model -/

#guard numY ⟨1, 1, 5, 1, 3, 23, 2, false⟩ = 37
#guard (⟨1, 1, 5, 1, 3, 23, 2, false⟩ : AP).moys.length = 3 * 37
#guard numY ⟨1, 1, 0, 1, 3, 23, 2, false⟩ = 48
#guard numY ⟨1, 1, 22, 1, 3, 3, 2, false⟩ = 48
#guard numX ⟨12, 30, 5, 1, 2, 17, 1, false⟩ = 4
#guard pattern [1, 2, 3, 4] [2, 4] = [false, true, false, true]
#guard chunkRev 3 [1, 2, 3, 4, 5, 6, 7] = [3, 2, 1, 6, 5, 4, 7]
#guard revDays [(1, 'a'), (1, 'b'), (2, 'c'), (4, 'd'), (4, 'e')] = .ok ['b', 'a', 'c', 'e', 'd']
#guard keptFrom 0 [false, true, true, false, true] = [1, 2, 4]
#guard hourlyFaces ⟨1, 1, 9, 1, 2, 10, 1, false⟩ false false [(600, 'x'), (1980, 'y')]
  = .ok [(0, 1, 'x'), (1, 0, 'y')]
#guard hourlyFaces ⟨1, 1, 9, 1, 2, 10, 1, false⟩ false true [(600, 'x'), (1980, 'y')]
  = .ok [(0, 0, 'x'), (1, 1, 'y')]
#guard histogram id [0, 0, 9/10, 1, 3/2, 2, 3, -1] [0, 1, 2, 3]
  = .ok [[-1], [0, 0, 9/10], [1, 3/2], [2], [3]]
#guard histogramCircular id [358, 359, 0, 1, 2, 3] [358, 0, 3] none = .ok [[358, 359], [0, 1, 2]]
#guard angles 4 = [315, 45, 135, 225, 315]
#guard angles 1 = [180, 180]
#guard (windroseData 4 true [(0, 1), (359, 2), (45, 3), (44, 0), (180, 5)]).map (fun r => (r.1.map (·.length), r.2))
  = .ok ([2, 1, 1, 0], 1)
#guard prevailing [3, 1, 3, 0] = [0, 180]
#guard prevailing [0, 0] = [0, 180]
#guard psyCell (-20) 50 50 100 = (19, 69)
#guard psyCell (-20) 50 (-20) 0 = (0, 0)
#guard psyCell (-20) 50 (5/2) 95 = (19, 22)

end Plot
