/-
  Object state machine of `ladybug.sunpath.Sunpath` (round 3): the slots of one object, its public
  setters, its sun-reading entry points, its getters and "every other public method", as a step
  function over the pure definitions of Model/Sun.lean.  No Mathlib.

  The model has NO hidden slots: the observation of a read is a function of the five slots
  (`_latitude`, `_longitude`, `_time_zone`, `_north_angle`, `_is_leap_year`) and of the question
  only.  Any memo / cache / temporarily switched flag in the code is therefore a disagreement of
  the step-by-step correspondence (`hist` op of Drv/C05.lean).

  AS THE CODE IS: on the pinned tree the four numeric setters assign first and assert afterwards
  (`self._latitude = math.radians(float(value)); assert …`), so a REFUSED numeric value stays in
  the slot (known finding C05-refused-setter-applied; `C05_refused_setter_counterexample`).  The
  order is a parameter `V : Validate` of `step`, read off the source on every run, so that the
  model follows the code when the setters are repaired (`Validate.first`:
  `C05_refused_setter_preserves`, `C05_history_refines_fresh_validating`).
  An argument that `float()` cannot convert raises before the assignment (state unchanged).

    `Obj α`            the slots
    `Obj.ofCfg c`      the object the constructor builds from accepted arguments (+ leap switch)
    `Obj.sunOfDT`      `calculate_sun_from_date_time` on the slots (`= Sun.sunOfDT` on `ofCfg`)
    `Arg α`, `Query α`, `Op α`, `Out α`
    `observe ofN o q`  what a read reports
    `step ofN o op`    one operation: new slots and output
    `run ofN o ops`    a history: final slots and the outputs in order
    `Cfg.estab c op`   SPECIFICATION side: the configuration the user has established after `op`
                       (a refused operation establishes nothing; a longitude change keeps the zone
                       the object already has)
    `refusedSetter c op`  the numeric setter calls the code refuses
-/
import Ladybug.Model.Sun

namespace Sun

/-- Errors an operation on the object can answer. -/
inductive OErr where
  | assert | value | type
deriving DecidableEq, Repr

/-- Argument of a numeric setter: a number (after `float()`), `None`, or something `float()`
    refuses with `ValueError` / `TypeError`. -/
inductive Arg (α : Type) where
  | num (x : α)
  | none
  | bad (e : OErr)

/-- The slots of one Sunpath object (radians as stored). -/
structure Obj (α : Type) where
  latRad : α
  lonRad : α
  tz : α
  northRad : α
  leap : Bool

/-- A sun-reading call. -/
inductive Query where
  | moy (m : Int) (solar : Bool)
  | hoy (hoyTimes60 : Rat) (solar : Bool)
  | mdh (month day : Nat) (hourInt : Int) (prod : Rat) (solar : Bool)
  | dt (d : Cal.DT) (solar : Bool)

inductive Op (α : Type) where
  | setLat (a : Arg α)
  | setLon (a : Arg α)
  | setTz (a : Arg α)
  | setNorth (a : Arg α)
  | setLeap (b : Bool)
  | read (q : Query)
  | get
  /-- any other public method of the object (analemmas, day arcs, sunrise/sunset, the daylight
      saving setter …), returning or raising -/
  | other

/-- Which of the four numeric setters check the range BEFORE they store the value.  Read off the
    source on every run (harness `extract`: position of the slot assignment relative to the
    `assert` in each setter) and passed to the driver; `asCoded` is the pinned tree (assign first,
    assert afterwards), `first` the repaired order. -/
structure Validate where
  lat : Bool
  lon : Bool
  tz : Bool
  north : Bool
deriving DecidableEq, Repr

def Validate.asCoded : Validate := ⟨false, false, false, false⟩
def Validate.first : Validate := ⟨true, true, true, true⟩

inductive Out (α : Type) where
  | done
  | refused (e : OErr)
  | sun (r : Except EErr (SunOut α))
  | cfg (lat lon tz north : α) (leap : Bool)

section Generic

variable {α : Type} [Add α] [Sub α] [Mul α] [Div α] [Neg α] [OfScientific α] [LT α] [LE α]
  [DecidableLT α] [DecidableLE α] [Transc α]

/-- `-self.PI / 2 <= self._latitude <= self.PI / 2`. -/
def latOk (r : α) : Bool := decide ((-(pi : α)) / 2.0 ≤ r ∧ r ≤ (pi : α) / 2.0)
/-- `-self.PI <= self._longitude <= self.PI`. -/
def lonOk (r : α) : Bool := decide (-(pi : α) ≤ r ∧ r ≤ (pi : α))
/-- `-12 <= self._time_zone <= 14`. -/
def tzOk (t : α) : Bool := decide ((-12.0 : α) ≤ t ∧ t ≤ 14.0)
/-- `-self.PI * 2 <= self._north_angle <= self.PI * 2`. -/
def northOk (r : α) : Bool := decide ((-(pi : α)) * 2.0 ≤ r ∧ r ≤ (pi : α) * 2.0)

/-- The object built by `Sunpath(lat, lon, tz, north)` (+ `is_leap_year = leap`) when every
    argument is accepted. -/
def Obj.ofCfg (c : Cfg α) : Obj α :=
  ⟨latitudeRad c.lat, rad c.lon, timeZoneOf (rad c.lon) c.tz, rad c.north, c.leap⟩

/-- Would the constructor accept the arguments? -/
def cfgOk (c : Cfg α) : Bool :=
  latOk (rad c.lat) && lonOk (rad c.lon) && tzOk (timeZoneOf (rad c.lon) c.tz) && northOk (rad c.north)

/-- `calculate_sun_from_date_time` evaluated on the slots (no daylight saving, C11). -/
def Obj.sunOfDT (ofN : Nat → α) (o : Obj α) (d : Cal.DT) (isSolar : Bool) :
    Except SErr (SunOut α) :=
  let leap := d.leap || o.leap
  let d' : Cal.DT := { d with leap := leap }
  let year := if leap then 2016 else 2017
  let days := ofN (daysFrom010119 year d.month d.day)
  let frac := ofN (dayFracHundredths (d.minute + d.hour * 60)) / 100.0
  let jd := julianDay days frac o.tz
  let hour := ofN d.hour + ofN d.minute / 60.0
  let p := position o.latRad o.lonRad o.tz hour jd isSolar
  mkSun d' p.1 p.2 (deg o.northRad)

/-- On a freshly constructed object this is the `sunOfDT` of Model/Sun.lean. -/
theorem Obj.sunOfDT_ofCfg (ofN : Nat → α) (c : Cfg α) (d : Cal.DT) (s : Bool) :
    Obj.sunOfDT ofN (Obj.ofCfg c) d s = Sun.sunOfDT ofN c d s := rfl

def Obj.withDT (ofN : Nat → α) (o : Obj α) (r : Except Cal.Err Cal.DT) (isSolar : Bool) :
    Except EErr (SunOut α) :=
  match r with
  | .error e => .error (.dt e)
  | .ok d => liftSun (Obj.sunOfDT ofN o d isSolar)

/-- What a read reports: a function of the slots and the question only. -/
def observe (ofN : Nat → α) (o : Obj α) : Query → Except EErr (SunOut α)
  | .moy m s => Obj.withDT ofN o (Cal.fromMoy o.leap m) s
  | .hoy x s => Obj.withDT ofN o (Cal.fromHoyTimes60 o.leap x) s
  | .mdh mo da h p s => Obj.withDT ofN o (dtOfMDH o.leap mo da h p) s
  | .dt d s => liftSun (Obj.sunOfDT ofN o d s)

/-- The getters `latitude, longitude, time_zone, north_angle, is_leap_year`. -/
def getters (o : Obj α) : Out α := .cfg (deg o.latRad) (deg o.lonRad) o.tz (deg o.northRad) o.leap

/-- One operation on the object, as the code is (`V`: the order of check and store in each numeric
    setter, read off the source). -/
def step (V : Validate) (ofN : Nat → α) (o : Obj α) : Op α → Obj α × Out α
  | .setLat (.num v) =>
      if latOk (rad v) then ({ o with latRad := latitudeRad v }, .done)
      else (if V.lat then o else { o with latRad := rad v }, .refused .assert)
  | .setLat .none => (o, .refused .type)
  | .setLat (.bad e) => (o, .refused e)
  | .setLon (.num v) =>
      if lonOk (rad v) then ({ o with lonRad := rad v }, .done)
      else (if V.lon then o else { o with lonRad := rad v }, .refused .assert)
  | .setLon .none => (o, .refused .type)
  | .setLon (.bad e) => (o, .refused e)
  | .setTz (.num v) =>
      if tzOk v then ({ o with tz := v }, .done)
      else (if V.tz then o else { o with tz := v }, .refused .assert)
  | .setTz .none =>
      let t := deg o.lonRad / 15.0
      if tzOk t then ({ o with tz := t }, .done)
      else (if V.tz then o else { o with tz := t }, .refused .assert)
  | .setTz (.bad e) => (o, .refused e)
  | .setNorth (.num v) =>
      if northOk (rad v) then ({ o with northRad := rad v }, .done)
      else (if V.north then o else { o with northRad := rad v }, .refused .assert)
  | .setNorth .none => (o, .refused .type)
  | .setNorth (.bad e) => (o, .refused e)
  | .setLeap b => ({ o with leap := b }, .done)
  | .read q => (o, .sun (observe ofN o q))
  | .get => (o, getters o)
  | .other => (o, .done)

/-- A history: final slots and the outputs in order. -/
def run (V : Validate) (ofN : Nat → α) (o : Obj α) : List (Op α) → Obj α × List (Out α)
  | [] => (o, [])
  | op :: rest =>
      let r := step V ofN o op
      let rr := run V ofN r.1 rest
      (rr.1, r.2 :: rr.2)

/-! ### Specification side -/

/-- The numeric setter calls the code refuses (by assertion) on an object built from `c`. -/
def refusedSetter (c : Cfg α) : Op α → Bool
  | .setLat (.num v) => !latOk (rad v)
  | .setLon (.num v) => !lonOk (rad v)
  | .setTz (.num v) => !tzOk v
  | .setTz .none => !tzOk (deg (rad c.lon) / 15.0)
  | .setNorth (.num v) => !northOk (rad v)
  | _ => false

/-- The configuration the user has established after one more operation: accepted setters
    replace their field, everything else (reads, getters, other methods, refused calls)
    establishes nothing.  The zone is kept resolved: changing the longitude does not move a zone
    that was derived from the old longitude. -/
def Cfg.estab (c : Cfg α) : Op α → Cfg α
  | .setLat (.num v) => if latOk (rad v) then { c with lat := v } else c
  | .setLon (.num v) =>
      if lonOk (rad v) then { c with lon := v, tz := some (timeZoneOf (rad c.lon) c.tz) } else c
  | .setTz (.num v) => if tzOk v then { c with tz := some v } else c
  | .setTz .none =>
      if tzOk (deg (rad c.lon) / 15.0) then { c with tz := some (deg (rad c.lon) / 15.0) } else c
  | .setNorth (.num v) => if northOk (rad v) then { c with north := v } else c
  | .setLeap b => { c with leap := b }
  | _ => c

def Cfg.estabAll (c : Cfg α) : List (Op α) → Cfg α
  | [] => c
  | op :: rest => Cfg.estabAll (c.estab op) rest

/-- No step of the history is a numeric setter call the code refuses. -/
def Clean (c : Cfg α) : List (Op α) → Prop
  | [] => True
  | op :: rest => refusedSetter c op = false ∧ Clean (c.estab op) rest

/-- Operations that by specification never change the object. -/
def Op.isPassive : Op α → Bool
  | .read _ => true
  | .get => true
  | .other => true
  | _ => false

def Out.isRefused : Out α → Bool
  | .refused _ => true
  | .sun (.error _) => true
  | _ => false

/-- A numeric setter call with a number or `None` (the calls that reach the assignment). -/
def Op.assigns : Op α → Bool
  | .setLat (.num _) => true
  | .setLon (.num _) => true
  | .setTz (.num _) => true
  | .setTz .none => true
  | .setNorth (.num _) => true
  | _ => false

end Generic

end Sun
