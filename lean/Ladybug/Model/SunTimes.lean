/-
  Model of the parts of ladybug/sunpath.py anchored by property C11: the daylight-saving window
  test and the hour shift in `calculate_sun_from_date_time`, sunrise / noon / sunset
  (`calculate_sunrise_sunset(_from_datetime)`, `_calculate_sunrise_hour_angle`), the
  before/after-midnight placement of sunrise and sunset, analemma suns and the suns of a day arc.
  Hand-written from the code, in the evaluation order of the Python expressions.  No Mathlib.
  Solar geometry is reused from Model/Sun.lean (property C05), periods from Model/AP.lean (C04),
  date-times from Model/Cal.lean (C08).

  The model describes the code WITH two repairs applied:
    * fixes/C11_dst_sunrise_direction.patch – inside the daylight-saving period the clock reading of
      sunrise / noon / sunset is standard time PLUS one hour (the pinned code subtracted the hour, so
      the reported clock times were two hours away from the instants they name);
    * fixes/C11_midnight_wrap.patch – sunrise before / sunset after local midnight are placed by
      `_datetime_from_day_and_hour` (minutes counted from the midnight that starts the day, the year
      taken cyclically).  The pinned code reported a before-midnight sunrise of 1 Jan on 1 Jan,
      raised ValueError for an after-midnight sunset of 31 Dec and for a sunrise/sunset that rounds
      to exactly 24:00 / 00:00.

  Generic numeric interface as in Sun.lean; two extra parameters carry the float → integer steps of
  `_calculate_hour_and_minute`: `toRat` (the exact value of a finite number, `none` for inf/nan) and
  `ofI` (an integer as a number).
-/
import Ladybug.Py
import Ladybug.Model.Cal
import Ladybug.Model.AP
import Ladybug.Transc
import Ladybug.Model.Sun

namespace SunTimes

open Cal

/-! ### Daylight-saving window (integer logic) -/

/-- `Sunpath.is_daylight_saving_hour(datetime)` on the minute of the year of the datetime.
    `not self.daylight_saving_period` is `None`-ness only: an AnalysisPeriod always has at least
    one time step (its start moment), so its truth value (`__len__`) is true. -/
def isDst (p : Option AP) (moy : Nat) : Bool :=
  match p with
  | none => false
  | some ap =>
    if ap.isReversed then decide (ap.stMoy ≤ moy ∨ moy < ap.endMoy)
    else decide (ap.stMoy ≤ moy ∧ moy < ap.endMoy)

/-- Specification: `m` lies in the cyclic half-open interval `[st, en)` of a year of `n` minutes –
    counted from `st`, `m` comes strictly before `en`. -/
def inCyclic (n st en m : Nat) : Prop := (m + n - st) % n < (en + n - st) % n

instance (n st en m : Nat) : Decidable (inCyclic n st en m) := by unfold inCyclic; infer_instance

/-! ### `_calculate_hour_and_minute` on exact numbers, and the placement of a float hour -/

/-- `Sunpath._calculate_hour_and_minute(q)` for an exact rational `q` (any sign):
    `(int(q), round((q - int(q)) * 60))` with the carry `minute >= 60`. -/
def hmQ (q : Rat) : Int × Int :=
  Sun.hmOfFloatHour (Py.truncRat q) ((q - (Py.truncRat q : Rat)) * 60)

/-- Signed minutes since midnight named by an (hour, minute) pair. -/
def minutesOf (hm : Int × Int) : Int := hm.1 * 60 + hm.2

/-- `_datetime_from_day_and_hour(datetime, float_hour)` (REPAIRED behaviour, see header) after
    `_calculate_hour_and_minute`: the midnight that starts `month/day` in the Sunpath's year, plus
    the signed minutes, modulo the minutes of the year, through `DateTime.from_moy`. -/
def fromDayHour (leap : Bool) (month day : Nat) (hm : Int × Int) : Except Err DT :=
  match DT.make month day 0 0 leap with
  | .error e => .error e
  | .ok ds => fromMoy leap (Py.mod ((ds.moy : Int) + minutesOf hm) (minutesInYear leap))

/-- `DateTime(month, day, hour, minute, leap_year)` for the integer pair of
    `_calculate_hour_and_minute` (a negative component always ends in `ValueError`). -/
def dtOfHM (leap : Bool) (month day : Nat) (hm : Int × Int) : Except Err DT :=
  if hm.1 < 0 ∨ hm.2 < 0 then .error .value
  else DT.make month day hm.1.toNat hm.2.toNat leap

/-! ### Generic numeric part -/

section Generic

variable {α : Type} [Add α] [Sub α] [Mul α] [Div α] [Neg α] [OfScientific α] [LT α] [LE α]
  [DecidableLT α] [DecidableLE α] [Transc α]

/-- `_calculate_hour_and_minute(f)` for a number: `int(f)` from the exact value, the product
    `(f - int(f)) * 60` formed in `α` and read exactly.  `none`: `int()` of inf/nan raises. -/
def hmOf (toRat : α → Option Rat) (ofI : Int → α) (f : α) : Option (Int × Int) :=
  match toRat f with
  | none => none
  | some q =>
    let h := Py.truncRat q
    match toRat ((f - ofI h) * 60.0) with
    | none => none
    | some p => some (Sun.hmOfFloatHour h p)

/-- The hour the sun is computed for: `hour - 1 if is_daylight_saving else hour`. -/
def shiftedHour (dst : Bool) (hour : α) : α := if dst then hour - 1.0 else hour

/-- `calculate_sun_from_date_time(datetime, is_solar_time)` WITH the daylight-saving period `p`:
    the sun and its `is_daylight_saving` flag.  Identical to `Sun.sunOfDT` except for the hour. -/
def sunOfDT (ofN : Nat → α) (c : Sun.Cfg α) (p : Option AP) (d : DT) (isSolar : Bool) :
    Except Sun.SErr (Sun.SunOut α × Bool) :=
  let leap := d.leap || c.leap
  let d' : DT := { d with leap := leap }
  let year := if leap then 2016 else 2017
  let latRad := Sun.latitudeRad c.lat
  let lonRad := Sun.rad c.lon
  let tz := Sun.timeZoneOf lonRad c.tz
  let days := ofN (Sun.daysFrom010119 year d.month d.day)
  let frac := ofN (Sun.dayFracHundredths (d.minute + d.hour * 60)) / 100.0
  let jd := Sun.julianDay days frac tz
  let dst := isDst p d'.moy
  let hour := shiftedHour dst (ofN d.hour + ofN d.minute / 60.0)
  let pos := Sun.position latRad lonRad tz hour jd isSolar
  match Sun.mkSun d' pos.1 pos.2 (Sun.deg (Sun.rad c.north)) with
  | .ok s => .ok (s, dst)
  | .error e => .error e

/-- Solar noon as a fraction of the day: `.5` in solar time, else
    `(720 - 4 * longitude - eq_of_time + time_zone * 60) / 1440.`. -/
def noonFrac (lonDeg eot tz : α) (isSolar : Bool) : α :=
  if isSolar then 0.5 else (720.0 - 4.0 * lonDeg - eot + tz * 60.0) / 1440.0

/-- Argument of the `acos` in `_calculate_sunrise_hour_angle` (`depRad` = depression in radians). -/
def sunriseArg (latRad dec depRad : α) : α :=
  Transc.cos ((Sun.pi : α) / 2.0 + depRad) / (Transc.cos latRad * Transc.cos dec) -
    Transc.tan latRad * Transc.tan dec

/-- `_calculate_sunrise_hour_angle`: degrees; `none` is `math.acos`'s `ValueError` (argument
    outside [-1, 1]: the sun does not cross the depression circle that day). -/
def sunriseHourAngle (latRad dec depRad : α) : Option α :=
  let a := sunriseArg latRad dec depRad
  if a < -1.0 ∨ 1.0 < a then none else some (Sun.deg (Transc.acos a))

/-- The three float hours (sunrise, noon, sunset) counted from the midnight that starts the day,
    before rounding; sunrise and sunset only when the hour angle exists.  Daylight saving adds one
    hour to each (REPAIRED behaviour, see header). -/
def riseSetHours (noonF : α) (ha : Option α) (dst : Bool) : Option α × α × Option α :=
  let sh (x : α) : α := if dst then x + 1.0 else x
  match ha with
  | none => (none, sh (24.0 * noonF), none)
  | some h =>
    let sunrise := noonF - h * 4.0 / 1440.0
    let sunset := noonF + h * 4.0 / 1440.0
    (some (sh (24.0 * sunrise)), sh (24.0 * noonF), some (sh (24.0 * sunset)))

/-- The float part of `calculate_sunrise_sunset_from_datetime` for the datetime `d` (its month,
    day, hour and minute enter the Julian day; its minute of the year the daylight-saving test). -/
def riseSetFloat (ofN : Nat → α) (c : Sun.Cfg α) (p : Option AP) (d : DT) (depDeg : α)
    (isSolar : Bool) : Option α × α × Option α :=
  let leap := d.leap || c.leap
  let d' : DT := { d with leap := leap }
  let year := if leap then 2016 else 2017
  let latRad := Sun.latitudeRad c.lat
  let lonRad := Sun.rad c.lon
  let tz := Sun.timeZoneOf lonRad c.tz
  let days := ofN (Sun.daysFrom010119 year d.month d.day)
  let frac := ofN (Sun.dayFracHundredths (d.minute + d.hour * 60)) / 100.0
  let g := Sun.solarGeometry (Sun.julianDay days frac tz)
  let noonF := noonFrac (Sun.deg lonRad) g.2 tz isSolar
  let ha := sunriseHourAngle latRad g.1 (Sun.rad depDeg)
  riseSetHours noonF ha (isDst p d'.moy)

/-- What `calculate_sunrise_sunset` returns: sunrise and sunset are `None` on days without. -/
structure RiseSet where
  sunrise : Option DT
  noon : DT
  sunset : Option DT
deriving DecidableEq, Repr

/-- From the integer (hour, minute) pairs to the three date-times: sunrise and sunset through
    `_datetime_from_day_and_hour`, noon through the `DateTime` constructor on the day itself. -/
def riseSetDTs (leap : Bool) (month day : Nat) (sr : Option (Int × Int)) (noon : Int × Int)
    (ss : Option (Int × Int)) : Except Err RiseSet :=
  match sr, ss with
  | some r, some s =>
    match fromDayHour leap month day r with
    | .error e => .error e
    | .ok rd =>
      match dtOfHM leap month day noon with
      | .error e => .error e
      | .ok nd =>
        match fromDayHour leap month day s with
        | .error e => .error e
        | .ok sd => .ok ⟨some rd, nd, some sd⟩
  | _, _ =>
    match dtOfHM leap month day noon with
    | .error e => .error e
    | .ok nd => .ok ⟨none, nd, none⟩

/-- `calculate_sunrise_sunset_from_datetime(datetime, depression, is_solar_time)`. -/
def riseSet (ofN : Nat → α) (toRat : α → Option Rat) (ofI : Int → α) (c : Sun.Cfg α)
    (p : Option AP) (d : DT) (depDeg : α) (isSolar : Bool) : Except Err RiseSet :=
  let f := riseSetFloat ofN c p d depDeg isSolar
  match hmOf toRat ofI f.2.1 with
  | none => .error .value
  | some noon =>
    match f.1, f.2.2 with
    | some r, some s =>
      match hmOf toRat ofI r, hmOf toRat ofI s with
      | some rh, some sh => riseSetDTs c.leap d.month d.day (some rh) noon (some sh)
      | _, _ => .error .value
    | _, _ => riseSetDTs c.leap d.month d.day none noon none

/-- `calculate_sunrise_sunset(month, day, depression, is_solar_time)`: the datetime is noon of the
    day in the Sunpath's year. -/
def riseSetMD (ofN : Nat → α) (toRat : α → Option Rat) (ofI : Int → α) (c : Sun.Cfg α)
    (p : Option AP) (month day : Nat) (depDeg : α) (isSolar : Bool) : Except Err RiseSet :=
  match DT.make month day 12 0 c.leap with
  | .error e => .error e
  | .ok d => riseSet ofN toRat ofI c p d depDeg isSolar

end Generic

/-! ### Analemmas: which dates (integer logic) -/

inductive AErr where
  | value | zero | index
deriving DecidableEq, Repr

/-- `range(1, dpm + 1, s)` for a positive step: `1, 1 + s, …` up to `dpm`. -/
def dayRange (dpm s : Nat) : List Nat :=
  (List.range dpm).filterMap fun k => if k % s = 0 then some (k + 1) else none

/-- The days of one month: the 21st when `steps_per_month == 1`, else
    `range(1, dpm + 1, int(dpm / steps_per_month))` (`ZeroDivisionError` for 0 steps, `ValueError`
    for a zero range step, an empty range for a negative one). -/
def monthDays (month : Nat) (steps : Int) : Except AErr (List Nat) :=
  if steps = 1 then .ok [21]
  else
    match (AP.numDaysTable false)[month - 1]? with
    | none => .error .index
    | some dpm =>
      if steps = 0 then .error .zero
      else
        let s := Py.truncRat ((dpm : Rat) / (steps : Rat))
        if s = 0 then .error .value
        else if s < 0 then .ok []
        else .ok (dayRange dpm s.toNat)

/-- The (month, day) pairs of an analemma in the order of the two nested loops; the first
    failing month decides the error. -/
def analemmaDates (startMonth endMonth : Nat) (steps : Int) : Except AErr (List (Nat × Nat)) :=
  (List.range' startMonth (endMonth + 1 - startMonth)).foldl
    (fun acc mon =>
      match acc with
      | .error e => .error e
      | .ok l =>
        match monthDays mon steps with
        | .error e => .error e
        | .ok ds => .ok (l ++ ds.map fun dd => (mon, dd)))
    (.ok [])

/-- `[f x for x in l]` where `f` may raise: the first failure is the result. -/
def mapE {β γ ε : Type} (f : β → Except ε γ) : List β → Except ε (List γ)
  | [] => .ok []
  | b :: bs =>
    match f b with
    | .error e => .error e
    | .ok c =>
      match mapE f bs with
      | .error e => .error e
      | .ok cs => .ok (c :: cs)

section Derived

variable {α : Type} [Add α] [Sub α] [Mul α] [Div α] [Neg α] [OfScientific α] [LT α] [LE α]
  [DecidableLT α] [DecidableLE α] [Transc α]

inductive DErr where
  | dt (e : Err)
  | sun (e : Sun.SErr)
  | a (e : AErr)
deriving DecidableEq, Repr

/-- The sun of a (non-leap, as the code builds it) `DateTime(month, day, hour, minute)`. -/
def sunAt (ofN : Nat → α) (c : Sun.Cfg α) (p : Option AP) (isSolar : Bool) (leap : Bool)
    (month day hour minute : Nat) : Except DErr (Sun.SunOut α × Bool) :=
  match DT.make month day hour minute leap with
  | .error e => .error (.dt e)
  | .ok d =>
    match sunOfDT ofN c p d isSolar with
    | .error e => .error (.sun e)
    | .ok s => .ok s

/-- `analemma_suns(time, daytime_only, is_solar_time, start_month, end_month, steps_per_month)`:
    `calculate_sun_from_date_time(DateTime(mon, day, time.hour, time.minute))` of every listed
    date (month by month: the days of the month are generated – and can fail – before its suns),
    then the daytime filter. -/
def analemmaSuns (ofN : Nat → α) (c : Sun.Cfg α) (p : Option AP) (hour minute : Nat)
    (daytimeOnly isSolar : Bool) (startMonth endMonth : Nat) (steps : Int) :
    Except DErr (List (Sun.SunOut α × Bool)) :=
  let month (mon : Nat) : Except DErr (List (Sun.SunOut α × Bool)) :=
    match monthDays mon steps with
    | .error e => .error (.a e)
    | .ok ds => mapE (fun dd => sunAt ofN c p isSolar false mon dd hour minute) ds
  match mapE month (List.range' startMonth (endMonth + 1 - startMonth)) with
  | .error e => .error e
  | .ok ll => .ok (if daytimeOnly then ll.flatten.filter (fun s => s.1.duringDay) else ll.flatten)

/-- `hourly_analemma_suns(...)`: one analemma per hour 0..23 (minute 0). -/
def hourlyAnalemmaSuns (ofN : Nat → α) (c : Sun.Cfg α) (p : Option AP)
    (daytimeOnly isSolar : Bool) (startMonth endMonth : Nat) (steps : Int) :
    Except DErr (List (List (Sun.SunOut α × Bool))) :=
  mapE (fun hr =>
    analemmaSuns ofN c p hr 0 daytimeOnly isSolar startMonth endMonth steps) (List.range 24)

/-- The three suns through which `day_arc3d(month, day, …, daytime_only, depression)` draws its
    arc (`none`: the method returns `None`).  `polar = true`: no sunrise that day, the suns are those
    of 6:00, the reported noon and 18:00 and the arc is a full circle. -/
structure ArcSuns (α : Type) where
  polar : Bool
  first : Sun.SunOut α
  mid : Sun.SunOut α
  last : Sun.SunOut α

def dayArcSuns (ofN : Nat → α) (toRat : α → Option Rat) (ofI : Int → α) (c : Sun.Cfg α)
    (p : Option AP) (month day : Nat) (depDeg : α) (daytimeOnly : Bool) :
    Except DErr (Option (ArcSuns α)) :=
  let sunDT (d : DT) : Except DErr (Sun.SunOut α) :=
    match sunOfDT ofN c p d false with
    | .error e => .error (.sun e)
    | .ok s => .ok s.1
  match riseSetMD ofN toRat ofI c p month day depDeg false with
  | .error e => .error (.dt e)
  | .ok rs =>
    match rs.sunrise, rs.sunset with
    | some r, some s =>
      match sunDT r, sunDT rs.noon, sunDT s with
      | .ok a, .ok b, .ok cc => .ok (some ⟨false, a, b, cc⟩)
      | .error e, _, _ => .error e
      | _, .error e, _ => .error e
      | _, _, .error e => .error e
    | _, _ =>
      match sunDT rs.noon with
      | .error e => .error e
      | .ok noon =>
        if daytimeOnly ∧ (0.0 : α) < noon.vec.2.2 then .ok none
        else
          match sunAt ofN c p false c.leap month day 6 0, sunAt ofN c p false c.leap month day 18 0 with
          | .ok a, .ok b => .ok (some ⟨true, a.1, noon, b.1⟩)
          | .error e, _ => .error e
          | _, .error e => .error e

end Derived

/-! ### Unit tests of the integer part -/

#guard hmQ (-1/2) = (0, -30)
#guard hmQ (-1) = (-1, 0)
#guard hmQ (-3/2) = (-1, -30)
#guard hmQ (-1/200) = (0, 0)
#guard hmQ (2399/100) = (23, 59)
#guard hmQ (23999/1000) = (24, 0)
#guard hmQ (49/2) = (24, 30)
#guard fromDayHour false 1 1 (0, -30) = .ok ⟨12, 31, 23, 30, false⟩
#guard fromDayHour false 1 1 (-1, 0) = .ok ⟨12, 31, 23, 0, false⟩
#guard fromDayHour true 3 1 (-1, -30) = .ok ⟨2, 29, 22, 30, true⟩
#guard fromDayHour false 3 1 (-1, -30) = .ok ⟨2, 28, 22, 30, false⟩
#guard fromDayHour false 12 31 (24, 30) = .ok ⟨1, 1, 0, 30, false⟩
#guard fromDayHour false 6 21 (24, 0) = .ok ⟨6, 22, 0, 0, false⟩
#guard fromDayHour false 6 21 (0, 0) = .ok ⟨6, 21, 0, 0, false⟩
#guard fromDayHour false 2 29 (5, 0) = .error .value
#guard isDst (some ⟨10, 1, 2, 4, 1, 3, 1, false⟩) (⟨6, 21, 12, 0, false⟩ : DT).moy = false
#guard isDst (some ⟨10, 1, 2, 4, 1, 3, 1, false⟩) (⟨12, 21, 12, 0, false⟩ : DT).moy = true
#guard isDst (some ⟨10, 1, 2, 4, 1, 3, 1, false⟩) (⟨1, 1, 0, 0, false⟩ : DT).moy = true
#guard isDst (some ⟨3, 8, 2, 11, 1, 2, 1, false⟩) (⟨11, 1, 1, 59, false⟩ : DT).moy = true
#guard isDst (some ⟨3, 8, 2, 11, 1, 2, 1, false⟩) (⟨11, 1, 2, 0, false⟩ : DT).moy = false
#guard dayRange 31 7 = [1, 8, 15, 22, 29]
#guard dayRange 28 14 = [1, 15]
#guard monthDays 2 2 = .ok [1, 15]
#guard monthDays 1 40 = .error .value
#guard monthDays 1 0 = .error .zero
#guard monthDays 1 (-3) = .ok []
#guard analemmaDates 11 12 3 = .ok [(11, 1), (11, 11), (11, 21), (12, 1), (12, 11), (12, 21), (12, 31)]

end SunTimes
