/-
  C07 — dictionary codecs of color.py `ColorRange` and legend.py `LegendParameters`,
  `LegendParametersCategorized`, `Legend`, written from the code as it is.  No Mathlib.

  Floats are opaque bit patterns.  Where the code does float arithmetic while *reading*
  (`ColorRange.domain` re-maps a 2-value domain of a continuous range to one stop per colour:
  `lo + c * (hi - lo) / (n - 1)`), the driver executes it with Lean's IEEE `Float` (`remapBits`);
  nothing is proved about that arithmetic: the round-trip law carries the explicit hypothesis
  that re-mapping the two stops of a constructed 2-colour range reproduces them (the stops of a
  constructed range are themselves the result of this re-mapping; a search over 2 million random
  pairs found no pair on which the real arithmetic is not idempotent).

  Not modelled: non-default `properties_3d` / `properties_2d` (the harness sends the model only
  dictionaries without these keys) and the text of generated category names (a parameter `gen`).
-/
import Ladybug.Model.Serial.Basic

namespace Codec

/-! ### helpers -/

/-- A key that `from_dict` first normalises to `None`: missing, `null`, or `{'type': 'Default'}`. -/
def defArg (x : Option PyVal) : PyVal :=
  match x with
  | Option.none => .none
  | some v => if v.isTag "Default" then .none else v

/-- missing or `null`. -/
def noneArg (x : Option PyVal) : PyVal :=
  match x with
  | Option.none => .none
  | some v => v

/-- Order of two numbers by value (`none` for inf/nan is treated as unordered = "in order"). -/
def Num.le (a b : Num) : Bool :=
  match a.rat?, b.rat? with
  | some x, some y => decide (x ≤ y)
  | _, _ => true

/-- Stable insertion sort (`sorted`): an element is placed before the first element that is
    not smaller. -/
def insNum (x : Num) : List Num → List Num
  | [] => [x]
  | y :: ys => if Num.le x y then x :: y :: ys else y :: insNum x ys

def sortNum : List Num → List Num
  | [] => []
  | x :: xs => insNum x (sortNum xs)

/-- A list already in order (each element `≤` its successor). -/
def SortedNum : List Num → Prop
  | [] => True
  | [_] => True
  | x :: y :: r => Num.le x y = true ∧ SortedNum (y :: r)

theorem sortNum_sorted : ∀ l : List Num, SortedNum l → sortNum l = l
  | [], _ => rfl
  | [x], _ => rfl
  | x :: y :: r, h => by
    have ih := sortNum_sorted (y :: r) h.2
    simp only [sortNum] at ih ⊢
    rw [ih]
    simp [insNum, h.1]

/-- `[Color.from_dict(c) for c in data['colors']]`. -/
def decColors (l : List PyVal) : Option (List Col) := decList Col.rd.dec l

/-- `Colorset.original()`. -/
def originalColors : List Col :=
  [⟨75, 107, 169, 255⟩, ⟨115, 147, 202, 255⟩, ⟨170, 200, 247, 255⟩, ⟨193, 213, 208, 255⟩,
   ⟨245, 239, 103, 255⟩, ⟨252, 230, 74, 255⟩, ⟨239, 156, 21, 255⟩, ⟨234, 123, 0, 255⟩,
   ⟨234, 74, 0, 255⟩, ⟨234, 38, 0, 255⟩]

/-- `isinstance(v, (float, int))` for every entry, then `map(float, …)`. -/
def decNums (l : List PyVal) : Option (List Num) := decList PyVal.num? l

/-! ### ColorRange -/

structure CRange where
  colors : List Col
  domain : List Num
  continuous : Bool
deriving DecidableEq, Repr, Inhabited

def CRange.enc (c : CRange) : PyVal :=
  .dict [kv "colors" (.list (c.colors.map Col.enc)), kv "domain" (.tuple (c.domain.map Num.enc)),
         kv "continuous_colors" (.bool c.continuous), kv "type" (.str "ColorRange")]

def numBits : Num → Nat
  | .flt b => b
  | .int i => floatBitsOfInt i

/-- `tuple(lo + c * step for c in range(n))`, `step = float(hi - lo) / (n - 1)`, in IEEE
    arithmetic (executable; opaque to the proofs). -/
def remapBits (n : Nat) (lo hi : Num) : List Num :=
  let a := Float.ofBits (UInt64.ofNat (numBits lo))
  let b := Float.ofBits (UInt64.ofNat (numBits hi))
  let step := (b - a) / Float.ofNat (n - 1)
  (List.range n).map fun c => Num.flt (a + Float.ofNat c * step).toBits.toNat

/-- The `domain` setter on an already decoded argument. -/
def CRange.mkDomain (ncol : Nat) (cont : Bool) (dom : PyVal) : Option (List Num) := do
  let d ← if !dom.truthy then some [Num.int 0, Num.int 1]
          else (do let l ← dom.list?
                   let ns ← decNums l
                   pure (sortNum (ns.map Num.toFloat)))
  if cont then
    match d with
    | [lo, hi] => if ncol ≤ 1 then Option.none else some (remapBits ncol lo hi)
    | _ => if d.length ≤ ncol then some d else Option.none
  else if d.length < ncol then some d else Option.none

/-- `ColorRange.from_dict` + `__init__` on the looked-up keys. -/
def CRange.make (colors domain cont : Option PyVal) : Option CRange := do
  let cont ← match noneArg cont with
    | .none => some true
    | .bool b => some b
    | _ => Option.none
  let cols ← match noneArg colors with
    | .none => some originalColors
    | v => do
      let l ← v.list?
      let cs ← decColors l
      pure (if cs.isEmpty then originalColors else cs)
  let d ← CRange.mkDomain cols.length cont (noneArg domain)
  pure ⟨cols, d, cont⟩

def CRange.run (g : Env) : Option CRange :=
  CRange.make (g "colors") (g "domain") (g "continuous_colors")

def CRange.rd : RecDec CRange where
  keys := ["colors", "domain", "continuous_colors"]
  run := CRange.run
  loc := by
    intro g g' h
    simp only [CRange.run, h "colors" (by simp), h "domain" (by simp),
      h "continuous_colors" (by simp)]

/-- Normal form of a ColorRange whose domain was given (float stops, in order, as many as the
    constructor accepts); for a continuous range with exactly two colours the hypothesis that the
    float re-mapping of its two stops reproduces them is part of the normal form. -/
def CRange.wf (c : CRange) : Prop :=
  c.colors ≠ [] ∧ (∀ x ∈ c.colors, x.wf) ∧ c.domain ≠ [] ∧ (∀ n ∈ c.domain, ∃ b, n = .flt b) ∧
  SortedNum c.domain ∧
  (if c.continuous then
      c.domain.length ≤ c.colors.length ∧
      (∀ lo hi, c.domain = [lo, hi] → 2 ≤ c.colors.length ∧ remapBits c.colors.length lo hi = [lo, hi])
   else c.domain.length < c.colors.length)

/-! ### LegendParameters (default 3D / 2D properties) -/

structure LP where
  min : Option Num
  max : Option Num
  /-- `none` = default segment count (`is_segment_count_default`) -/
  segCount : Option Nat
  /-- `none` = default colours -/
  colors : Option (List Col)
  /-- `none` = default title -/
  title : Option String
  contLegend : Bool
  ordinal : Option (List (Int × PyVal))
  decimalCount : Int
  inclLS : Bool
  vertical : Bool
  font : String
  userData : Option (List (Key × PyVal))
deriving Repr, Inhabited

def encOrdinal (o : Option (List (Int × PyVal))) : PyVal :=
  match o with
  | Option.none => .none
  | some l => .dict (l.map fun p => (Key.int p.1, p.2))

/-- An optional key: written only when the value is there. -/
def optKV (k : String) (o : Option PyVal) : List (Key × PyVal) :=
  match o with
  | some v => [kv k v]
  | Option.none => []

def LP.baseKV (contLegend : Bool) (decimalCount : Int) (inclLS vertical : Bool) (font : String)
    (colors : Option (List Col)) (title : Option String) (userData : Option (List (Key × PyVal))) :
    List (Key × PyVal) :=
  [kv "continuous_legend" (.bool contLegend), kv "decimal_count" (.int decimalCount),
   kv "include_larger_smaller" (.bool inclLS), kv "vertical" (.bool vertical),
   kv "font" (.str font)] ++
  optKV "colors" (colors.map fun cs => .list (cs.map Col.enc)) ++
  optKV "title" (title.map PyVal.str) ++ optKV "user_data" (userData.map PyVal.dict)

def LP.enc (p : LP) : PyVal :=
  .dict (LP.baseKV p.contLegend p.decimalCount p.inclLS p.vertical p.font p.colors p.title p.userData ++
    optKV "min" (p.min.map Num.enc) ++ optKV "max" (p.max.map Num.enc) ++
    optKV "segment_count" (p.segCount.map natV) ++
    [kv "ordinal_dictionary" (encOrdinal p.ordinal), kv "type" (.str "LegendParameters")])

/-- an optional number (`None` allowed). -/
def optNum (v : PyVal) : Option (Option Num) :=
  match v with
  | .none => some Option.none
  | v => v.num?.map some

def optBoolD (v : PyVal) (d : Bool) : Option Bool :=
  match v with
  | .none => some d
  | .bool b => some b
  | _ => Option.none

def optStrD (v : PyVal) : Option (Option String) :=
  match v with
  | .none => some Option.none
  | .str s => some (some s)
  | _ => Option.none

/-- `{int(k): v for k, v in d.items()}`. -/
def decOrdKV : List (Key × PyVal) → Option (List (Int × PyVal))
  | [] => some []
  | (k, v) :: r => do
    let i ← k.toInt?
    let rest ← decOrdKV r
    pure ((i, v) :: rest)

def decOrdinal (v : PyVal) : Option (Option (List (Int × PyVal))) :=
  match v with
  | .none => some Option.none
  | .dict l => (decOrdKV l).map some
  | _ => Option.none

/-- optional colours: `None` = default, else at least two. -/
def optColors (v : PyVal) : Option (Option (List Col)) :=
  match v with
  | .none => some Option.none
  | v => do
    let l ← v.list?
    let cs ← decColors l
    if 2 ≤ cs.length then some (some cs) else Option.none

def optUser (v : PyVal) : Option (Option (List (Key × PyVal))) :=
  match v with
  | .none => some Option.none
  | .dict d => some (some d)
  | _ => Option.none       -- the setter asserts a dictionary

/-- `min <= max` when both are given (checked by the `max` setter). -/
def minLeMax (mn mx : Option Num) : Bool :=
  match mn, mx with
  | some a, some b => Num.le a b
  | _, _ => true

/-- `segment_count` setter: an integer `>= 1`, `None` = default. -/
def segOf (v : PyVal) : Option (Option Nat) :=
  match v with
  | .none => some Option.none
  | .int i => if 1 ≤ i then some (some i.toNat) else Option.none
  | _ => Option.none

/-- `decimal_count` setter: an integer, `None` = 2. -/
def decOf (v : PyVal) : Option Int :=
  match v with
  | .none => some 2
  | .int i => some i
  | _ => Option.none

/-- `font` setter: a string, `None` = 'Arial'. -/
def fontOf (v : PyVal) : Option String :=
  match v with
  | .none => some "Arial"
  | .str s => some s
  | _ => Option.none

/-- `LegendParameters.from_dict` on the looked-up keys (3D / 2D properties absent). -/
def LP.make (mn mx seg cols title cont ord dec ils vert font user : Option PyVal) : Option LP := do
  let mn ← optNum (defArg mn)
  let mx ← optNum (defArg mx)
  if !minLeMax mn mx then Option.none else
  let seg ← segOf (defArg seg)
  let cols ← optColors (defArg cols)
  let title ← optStrD (defArg title)
  let cont ← optBoolD (defArg cont) false
  let ord ← decOrdinal (defArg ord)
  let dec ← decOf (defArg dec)
  let ils := (defArg ils).truthy                 -- `bool(lgsm)`
  let vert ← optBoolD (defArg vert) true
  let font ← fontOf (defArg font)
  let user ← optUser (noneArg user)
  pure ⟨mn, mx, seg, cols, title, cont, ord, dec, ils, vert, font, user⟩

/-- `LegendParameters()`. -/
def LP.default : LP :=
  ⟨Option.none, Option.none, Option.none, Option.none, Option.none, false, Option.none, 2, false,
   true, "Arial", Option.none⟩

/-- `assert data['type'] == tag` (KeyError when the key is missing). -/
def typeIs (x : Option PyVal) (tag : String) : Bool :=
  match x with
  | some (.str s) => s == tag
  | _ => false

def LP.run (g : Env) : Option LP :=
  if typeIs (g "type") "LegendParameters" then
    LP.make (g "min") (g "max") (g "segment_count") (g "colors") (g "title") (g "continuous_legend")
      (g "ordinal_dictionary") (g "decimal_count") (g "include_larger_smaller") (g "vertical")
      (g "font") (g "user_data")
  else Option.none

def LP.rd : RecDec LP where
  keys := ["type", "min", "max", "segment_count", "colors", "title", "continuous_legend",
           "ordinal_dictionary", "decimal_count", "include_larger_smaller", "vertical", "font",
           "user_data"]
  run := LP.run
  loc := by
    intro g g' h
    simp only [LP.run, h "type" (by simp), h "min" (by simp), h "max" (by simp),
      h "segment_count" (by simp), h "colors" (by simp), h "title" (by simp),
      h "continuous_legend" (by simp), h "ordinal_dictionary" (by simp),
      h "decimal_count" (by simp), h "include_larger_smaller" (by simp), h "vertical" (by simp),
      h "font" (by simp), h "user_data" (by simp)]

def LP.wf (p : LP) : Prop :=
  minLeMax p.min p.max = true ∧ (∀ n, p.segCount = some n → 1 ≤ n) ∧
  (∀ cs, p.colors = some cs → 2 ≤ cs.length ∧ ∀ x ∈ cs, x.wf) ∧
  (∀ o, p.ordinal = some o → ∀ q ∈ o, jsonRT q.2 = q.2) ∧
  -- the written ordinal dictionary is not the `{'type': 'Default'}` placeholder (automatic unless
  -- it has exactly one entry, see `ordinal_notTag_of_length`)
  (jsonRT (encOrdinal p.ordinal)).isTag "Default" = false ∧
  (∀ u, p.userData = some u → jsonRT (.dict u) = .dict u)

/-! ### LegendParametersCategorized (default 3D / 2D properties) -/

structure LPC where
  domain : List Num
  colors : List Col
  /-- `_category_names`: `none` = generated from the domain -/
  names : Option (List String)
  title : Option String
  contColors : Bool
  contLegend : Bool
  decimalCount : Int
  inclLS : Bool
  vertical : Bool
  font : String
  userData : Option (List (Key × PyVal))
deriving Repr, Inhabited

/-- The `category_names` property: the explicit names when there are any (`if self._category_names`),
    else the generated ones; `gen p` stands for their text (`'%.2f' % x` …), which is not modelled. -/
def LPC.writtenNames (gen : LPC → List String) (p : LPC) : List String :=
  match p.names with
  | some (n :: ns) => n :: ns
  | _ => gen p

/-- `to_dict`. -/
def LPC.enc (gen : LPC → List String) (p : LPC) : PyVal :=
  .dict (LP.baseKV p.contLegend p.decimalCount p.inclLS p.vertical p.font (some p.colors) p.title
      p.userData ++
    [kv "type" (.str "LegendParametersCategorized"), kv "domain" (.tuple (p.domain.map Num.enc)),
     kv "category_names" (.tuple ((LPC.writtenNames gen p).map PyVal.str)),
     kv "continuous_colors" (.bool p.contColors)])

/-- `tuple(str(x) for x in categories)` on strings. -/
def decNames (l : List PyVal) : Option (List String) := decList PyVal.str? l

def LPC.make (dom cols names title ccol cleg dec ils vert font user : Option PyVal) : Option LPC := do
  let cl ← (← cols).list?                       -- required key
  let cs ← decColors cl
  let dl ← (← dom).list?                         -- required key
  let ns ← decNums dl
  let d := (sortNum ns).map Num.toFloat          -- `tuple(float(x) for x in sorted(domain))`
  if d.isEmpty then Option.none else
  if cs.length != d.length + 1 then Option.none else
  let names ← match defArg names with
    | .none => some Option.none
    | v => do
      let l ← v.list?
      let n ← decNames l
      if n.length == d.length + 1 then some (some n) else Option.none
  let title ← optStrD (defArg title)
  let ccol ← optBoolD (defArg ccol) false
  let cleg ← optBoolD (defArg cleg) false
  let dec ← decOf (defArg dec)
  let ils ← optBoolD (defArg ils) true
  let vert ← optBoolD (defArg vert) true
  let font ← fontOf (defArg font)
  let user ← optUser (noneArg user)
  pure ⟨d, cs, names, title, ccol, cleg, dec, ils, vert, font, user⟩

def LPC.run (g : Env) : Option LPC :=
  if typeIs (g "type") "LegendParametersCategorized" then
    LPC.make (g "domain") (g "colors") (g "category_names") (g "title") (g "continuous_colors")
      (g "continuous_legend") (g "decimal_count") (g "include_larger_smaller") (g "vertical")
      (g "font") (g "user_data")
  else Option.none

def LPC.rd : RecDec LPC where
  keys := ["type", "domain", "colors", "category_names", "title", "continuous_colors",
           "continuous_legend", "decimal_count", "include_larger_smaller", "vertical", "font",
           "user_data"]
  run := LPC.run
  loc := by
    intro g g' h
    simp only [LPC.run, h "type" (by simp), h "domain" (by simp), h "colors" (by simp),
      h "category_names" (by simp), h "title" (by simp), h "continuous_colors" (by simp),
      h "continuous_legend" (by simp), h "decimal_count" (by simp),
      h "include_larger_smaller" (by simp), h "vertical" (by simp), h "font" (by simp),
      h "user_data" (by simp)]

/-- Normal form with explicit, non-empty category names. -/
def LPC.wf (p : LPC) : Prop :=
  p.domain ≠ [] ∧ (∀ n ∈ p.domain, ∃ b, n = .flt b) ∧ SortedNum p.domain ∧
  p.colors.length = p.domain.length + 1 ∧ (∀ x ∈ p.colors, x.wf) ∧
  (∃ ns, p.names = some ns ∧ ns.length = p.domain.length + 1) ∧
  (∀ u, p.userData = some u → jsonRT (.dict u) = .dict u)

/-- The normal form without the clause on the names (used by the counterexample). -/
def LPC.wfBase (p : LPC) : Prop :=
  p.domain ≠ [] ∧ (∀ n ∈ p.domain, ∃ b, n = .flt b) ∧ SortedNum p.domain ∧
  p.colors.length = p.domain.length + 1 ∧ (∀ x ∈ p.colors, x.wf) ∧
  (∀ u, p.userData = some u → jsonRT (.dict u) = .dict u)

/-! ### Legend (plain parameters) -/

structure Leg where
  values : List Num
  par : LP
  /-- `_is_min_default` / `_is_max_default`: whatever `from_dict` finds under the key -/
  isMinDefault : PyVal
  isMaxDefault : PyVal
deriving Repr, Inhabited

def Leg.enc (l : Leg) : PyVal :=
  .dict [kv "values" (.tuple (l.values.map Num.enc)), kv "legend_parameters" l.par.enc,
         kv "is_min_default" l.isMinDefault, kv "is_max_default" l.isMaxDefault,
         kv "type" (.str "Legend")]

/-- `min(values)` / `max(values)`: the first extreme element. -/
def minNum : List Num → Option Num
  | [] => Option.none
  | x :: xs => some (xs.foldl (fun m y => if Num.le m y then m else y) x)

def maxNum : List Num → Option Num
  | [] => Option.none
  | x :: xs => some (xs.foldl (fun m y => if Num.le y m then m else y) x)

/-- `Legend.from_dict` for plain `LegendParameters` on the looked-up keys.  `Legend.__init__`
    fills a missing min/max of the parameters from the values (the later `is_*_default` flags
    come from the dictionary); the `segment_count = 1` and horizontal-width adjustments leave the
    dictionary form unchanged (their `is_default` flags stay set) and are not modelled. -/
def Leg.make (vals par mnD mxD : Option PyVal) : Option Leg := do
  let vl ← (← vals).list?
  let vs ← decNums vl
  if vs.isEmpty then Option.none else
  let p ← match noneArg par with
    | .none => some LP.default
    | v => LP.rd.dec v
  let mn ← match p.min with | some m => some m | Option.none => minNum vs
  -- the `min` setter checks `min <= max` against a given max
  if !minLeMax (some mn) p.max then Option.none else
  let mx ← match p.max with | some m => some m | Option.none => maxNum vs
  if !minLeMax (some mn) (some mx) then Option.none else
  let mnD := match mnD with | Option.none => PyVal.bool false | some v => v
  let mxD := match mxD with | Option.none => PyVal.bool false | some v => v
  pure ⟨vs, { p with min := some mn, max := some mx }, mnD, mxD⟩

def Leg.run (g : Env) : Option Leg :=
  Leg.make (g "values") (g "legend_parameters") (g "is_min_default") (g "is_max_default")

def Leg.rd : RecDec Leg where
  keys := ["values", "legend_parameters", "is_min_default", "is_max_default"]
  run := Leg.run
  loc := by
    intro g g' h
    simp only [Leg.run, h "values" (by simp), h "legend_parameters" (by simp),
      h "is_min_default" (by simp), h "is_max_default" (by simp)]

/-- A constructed legend always carries both bounds in its parameters. -/
def Leg.wf (l : Leg) : Prop :=
  l.values ≠ [] ∧ l.par.wf ∧ (∃ a, l.par.min = some a) ∧ (∃ b, l.par.max = some b) ∧
  (∃ b, l.isMinDefault = .bool b) ∧ (∃ b, l.isMaxDefault = .bool b)

end Codec
