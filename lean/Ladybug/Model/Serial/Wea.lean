/-
  C07 — dictionary codec of wea.py `Wea` (to_dict / from_dict at /repo HEAD: the headers that
  `from_dict` builds carry the source/country/city metadata since e31dde2), as a composition of
  the Location codec, the DateTime arrays and the analysis-period constructor.  No Mathlib.

  A Wea is a location and two aligned hourly collections (direct normal, diffuse horizontal);
  `to_dict` writes the location, the two value lists, timestep, leap flag and – unless the data are
  annual – the datetime arrays.  `from_dict` *derives* the analysis period from the first and last
  datetime, checks its length against the values and builds continuous or discontinuous
  collections.  `len(AnalysisPeriod)` and its datetimes come from the C04 model (Model/AP.lean).
-/
import Ladybug.Model.Serial.Coll
import Ladybug.Model.AP

namespace Codec
open Cal

/-- The same period in the C04 model (for `len` and the enumeration of its datetimes). -/
def AP.toC04 (a : AP) : _root_.AP := ⟨a.stM, a.stD, a.stH, a.endM, a.endD, a.endH, a.ts, a.leap⟩

/-- `len(analysis_period)`. -/
def AP.len (a : AP) : Nat := a.toC04.len

def AP.isAnnual (a : AP) : Bool :=
  a.stM == 1 && a.stD == 1 && a.stH == 0 && a.endM == 12 && a.endD == 31 && a.endH == 23

def AP.annual (ts : Nat) (leap : Bool) : AP := ⟨1, 1, 0, 12, 31, 23, ts, leap⟩

/-- `analysis_period.datetimes` (steps the calendar cannot place are dropped; there are none for
    a well-formed period). -/
def AP.datetimes (a : AP) : List DT :=
  a.toC04.datetimes.filterMap fun e => match e with | .ok d => some d | .error _ => Option.none

structure WeaC where
  loc : Loc
  /-- the analysis period of both headers -/
  ap : AP
  dni : List PyVal
  dhi : List PyVal
  /-- `none` = continuous collections, `some l` = discontinuous collections with datetimes `l` -/
  times : Option (List DT)
  /-- `validated_a_period` of the two collections (always True for continuous ones) -/
  validated : Bool
deriving Repr, Inhabited

/-- The header metadata every Wea constructor sets. -/
def WeaC.metadata (l : Loc) : List (Key × PyVal) :=
  [kv "source" l.source, kv "country" (.str l.country), kv "city" (.str l.city)]

/-- The two collections of the Wea (what `Wea.__eq__` compares, next to the location). -/
def WeaC.collections (w : WeaC) : Coll × Coll :=
  let hdr (t : String) : Hdr := ⟨.std t Option.none, "W/m2", w.ap, WeaC.metadata w.loc⟩
  match w.times with
  | Option.none =>
    (⟨.hourlyCont, hdr "DirectNormalIrradiance", w.dni, .derived, .bool true, false⟩,
     ⟨.hourlyCont, hdr "DiffuseHorizontalIrradiance", w.dhi, .derived, .bool true, false⟩)
  | some l =>
    (⟨.hourlyDisc, hdr "DirectNormalIrradiance", w.dni, .dts l, .bool w.validated, false⟩,
     ⟨.hourlyDisc, hdr "DiffuseHorizontalIrradiance", w.dhi, .dts l, .bool w.validated, false⟩)

def WeaC.isAnnual (w : WeaC) : Bool := w.times.isNone && w.ap.isAnnual

def WeaC.enc (w : WeaC) : PyVal :=
  .dict ([kv "type" (.str "Wea"), kv "location" w.loc.enc,
          kv "direct_normal_irradiance" (.tuple w.dni),
          kv "diffuse_horizontal_irradiance" (.tuple w.dhi), kv "timestep" (natV w.ap.ts),
          kv "is_leap_year" (.bool w.ap.leap)] ++
    (if w.isAnnual then []
     else [kv "datetimes" (.list ((match w.times with
        | some l => l
        | Option.none => w.ap.datetimes).map dtArray))]))

/-- `DateTime(d.month, d.day, d.hour, leap_year=leap)` when the flags differ, else `d`. -/
def withLeap (d : DT) (leap : Bool) : Option DT :=
  if d.leap == leap then some d else okOpt (DT.make d.month d.day d.hour 0 leap)

def tagIs (x : Option PyVal) (tag : String) : Bool :=
  match x with
  | some (.str s) => s == tag
  | _ => false

/-- `AnalysisPeriod(timestep=ts, is_leap_year=leap)`. -/
def AP.annual? (ts : Nat) (leap : Bool) : Option AP :=
  AP.make (some 1) (some 1) (some 0) (some 12) (some 31) (some 23) (some ts) leap

/-- The analysis period `from_dict` derives, and whether the collections are continuous;
    `n` = number of direct-normal values. -/
def WeaC.period (dtl : Option (List PyVal)) (ts : Nat) (leap : Bool) (n : Nat) : Option (AP × Bool) :=
  match dtl with
  | Option.none => (AP.annual? ts leap).map fun a => (a, true)
  | some l => do
    let st0 ← dtOfArray (← l.head?)
    let en0 ← dtOfArray (← l.getLast?)
    let st ← withLeap st0 leap
    let en ← if st0.leap == leap then some en0 else okOpt (DT.make en0.month en0.day en0.hour 0 leap)
    if st.leap != en.leap then Option.none else
    let a ← AP.make (some st.month) (some st.day) (some st.hour) (some en.month) (some en.day)
      (some en.hour) (some ts) st.leap
    if a.len != n then (AP.annual? ts leap).map fun a' => (a', false)
    else some (a, a.stH == 0 && a.endH == 23)

/-- `data['datetimes']`: missing or `null` = none. -/
def dtListOf (x : Option PyVal) : Option (Option (List PyVal)) :=
  match x with
  | Option.none => some Option.none
  | some .none => some Option.none
  | some v => v.list?.map some

/-- `Wea.from_dict` on the looked-up keys. -/
def WeaC.make (ty loc dni dhi ts leap dts : Option PyVal) : Option WeaC := do
  if !tagIs ty "Wea" then Option.none else
  let locV ← loc
  let dniL ← (← dni).list?
  let dhiL ← (← dhi).list?
  let ts ← (match ts with | Option.none => some 1 | some v => v.nat?)
  let leap := match leap with | Option.none => false | some v => v.truthy
  let dtl ← dtListOf dts
  let pc ← WeaC.period dtl ts leap dniL.length
  let l ← Loc.rd.dec locV
  if pc.2 then
    if pc.1.stH != 0 || pc.1.endH != 23 then Option.none else
    if dniL.length != pc.1.len || dhiL.length != pc.1.len then Option.none else
    pure ⟨l, pc.1, dniL, dhiL, Option.none, true⟩
  else
    let ds ← decList dtOfArray (← dtl)
    if dniL.length != ds.length || dhiL.length != ds.length || ds.isEmpty then Option.none else
    pure ⟨l, pc.1, dniL, dhiL, some ds, false⟩

def WeaC.run (g : Env) : Option WeaC :=
  WeaC.make (g "type") (g "location") (g "direct_normal_irradiance")
    (g "diffuse_horizontal_irradiance") (g "timestep") (g "is_leap_year") (g "datetimes")

def WeaC.rd : RecDec WeaC where
  keys := ["type", "location", "direct_normal_irradiance", "diffuse_horizontal_irradiance",
           "timestep", "is_leap_year", "datetimes"]
  run := WeaC.run
  loc := by
    intro g g' h
    simp only [WeaC.run, h "type" (by simp), h "location" (by simp),
      h "direct_normal_irradiance" (by simp), h "diffuse_horizontal_irradiance" (by simp),
      h "timestep" (by simp), h "is_leap_year" (by simp), h "datetimes" (by simp)]

/-- Normal form of an *annual* Wea (the case every file-based constructor produces). -/
def WeaC.wfAnnual (w : WeaC) : Prop :=
  w.loc.wf ∧ w.times = Option.none ∧ w.validated = true ∧ w.ap = AP.annual w.ap.ts w.ap.leap ∧
  w.ap.ts ∈ validTimesteps ∧ w.dni.length = w.ap.len ∧ w.dhi.length = w.ap.len ∧
  (∀ v ∈ w.dni, jsonRT v = v) ∧ (∀ v ∈ w.dhi, jsonRT v = v)

/-- Normal form of a Wea with *discontinuous* collections whose header period is the one spanned
    by its first and last datetime (what `filter_by_analysis_period` produces) and does not cover
    whole days. -/
def WeaC.wfDisc (w : WeaC) : Prop :=
  w.loc.wf ∧ w.ap.wf ∧ (w.ap.stH ≠ 0 ∨ w.ap.endH ≠ 23) ∧
  (∃ l first last, w.times = some l ∧ l.head? = some first ∧ l.getLast? = some last ∧
    (∀ d ∈ l, d.valid ∧ d.leap = w.ap.leap) ∧
    first.month = w.ap.stM ∧ first.day = w.ap.stD ∧ first.hour = w.ap.stH ∧
    last.month = w.ap.endM ∧ last.day = w.ap.endD ∧ last.hour = w.ap.endH ∧
    w.ap.len = l.length ∧ w.dni.length = l.length ∧ w.dhi.length = l.length) ∧
  (∀ v ∈ w.dni, jsonRT v = v) ∧ (∀ v ∈ w.dhi, jsonRT v = v)

/-- Round 5.  Normal form of a Wea handed two *unflagged discontinuous collections over the whole year*
    whose steps are in ANY order (December before January, the order `filter_by_hoys` was given, descending …)
    and do not fill the period spanned by the first and the last of them (`sp`): the reader's fallback
    branch.  No condition relates the order of the steps to the calendar. -/
def WeaC.wfScattered (w : WeaC) : Prop :=
  w.loc.wf ∧ w.ap = AP.annual w.ap.ts w.ap.leap ∧ w.ap.ts ∈ validTimesteps ∧ w.validated = false ∧
  (∃ l first last, w.times = some l ∧ l.head? = some first ∧ l.getLast? = some last ∧
    (∀ d ∈ l, d.valid ∧ d.leap = w.ap.leap) ∧
    (∃ sp, AP.make (some first.month) (some first.day) (some first.hour) (some last.month)
        (some last.day) (some last.hour) (some w.ap.ts) w.ap.leap = some sp ∧ sp.len ≠ l.length) ∧
    w.dni.length = l.length ∧ w.dhi.length = l.length) ∧
  (∀ v ∈ w.dni, jsonRT v = v) ∧ (∀ v ∈ w.dhi, jsonRT v = v)

end Codec
