/-
  C07 — the text forms: CSV header strings (header.py `to_csv_strings` / `from_csv_strings`,
  used by datautil's CSV files) and the data-type text (`to_string` / `from_string` of
  datatype/base.py and datatype/generic.py).  No Mathlib.

  Two levels:
    * character level (executable, tied to the code by correspondence): Python's `str.split(sep)`
      and `sep.join(...)` on lists of characters (`splitL`, `joinL`);
    * token level (what the theorems are about): a cell is a list of `k: v` items, an item a pair.
      The step between the levels – that splitting a joined text gives the pieces back – is
      the explicit hypothesis `SplitsBack`; it is what the guard "no ' | ', ': ' (or ',') inside
      metadata strings" is for, and it fails outside the guard (counterexamples by evaluation).
-/
import Ladybug.Model.Serial.Coll

namespace Codec

/-! ### character level -/

/-- `s.startswith(p)` on character lists. -/
def isPrefixL : List Char → List Char → Bool
  | [], _ => true
  | _ :: _, [] => false
  | p :: ps, c :: cs => p == c && isPrefixL ps cs

/-- Python `s.split(sep)` for a non-empty separator: leftmost, non-overlapping matches. -/
def splitAux (sep : List Char) : Nat → List Char → List Char → List (List Char)
  | 0, cur, _ => [cur.reverse]
  | _ + 1, cur, [] => [cur.reverse]
  | fuel + 1, cur, c :: cs =>
    if isPrefixL sep (c :: cs) then cur.reverse :: splitAux sep fuel [] ((c :: cs).drop sep.length)
    else splitAux sep fuel (c :: cur) cs

def splitL (sep s : List Char) : List (List Char) := splitAux sep (s.length + 1) [] s

/-- `sep.join(parts)`. -/
def joinL (sep : List Char) : List (List Char) → List Char
  | [] => []
  | [x] => x
  | x :: y :: r => x ++ sep ++ joinL sep (y :: r)

def splitS (sep s : String) : List String := (splitL sep.toList s.toList).map String.ofList
def joinS (sep : String) (l : List String) : String :=
  String.ofList (joinL sep.toList (l.map String.toList))

#guard splitS " | " "a | b |  | c" = ["a", "b", "", "c"]
#guard splitS " | " "x: a | | y: b" = ["x: a", "| y: b"]
#guard splitS ": " "k: v: w" = ["k", "v", "w"]
#guard splitS " | " "" = [""]
#guard joinS " | " ["a: 1", "b: 2"] = "a: 1 | b: 2"
#guard joinS " | " [] = ""

/-! ### token level: metadata items and cells -/

/-- One metadata entry as text: `'{}: {}'.format(k, v)`. -/
def itemText (p : String × String) : String := p.1 ++ ": " ++ p.2

/-- `str(v)` of a metadata value (`'{}'.format(v)`); floats and containers are not modelled. -/
def metaValText (v : PyVal) : Option String := pyStrV v
where
  pyStrV : PyVal → Option String
    | .str s => some s
    | .int i => some i.repr
    | .none => some "None"
    | .bool true => some "True"
    | .bool false => some "False"
    | _ => Option.none

/-- `Header.to_csv_strings(metadata_per_row)` after the data-type text and the unit. -/
def metaCells (perRow : Bool) (md : List (String × String)) : List String :=
  if perRow then md.map itemText else [joinS " | " (md.map itemText)]

/-- One `k: v` item read back: `p.split(': ')`, first two pieces (IndexError when there is
    no `': '`; further pieces are dropped). -/
def readItem (p : String) : Option (String × String) :=
  match splitS ": " p with
  | k :: v :: _ => some (k, v)
  | _ => Option.none

/-- `Header.from_csv_strings` on the cells after data type and unit (with the repair of
    a0-empty cells, fix C07_header_csv_empty_metadata): split every cell at `' | '`, drop empty
    pieces, read the items.  (`metadata[k] = v`: a repeated key keeps the last value; keys are
    distinct in a dictionary that was written.) -/
def readItems : List String → Option (List (String × String))
  | [] => some []
  | p :: r => do
    let kv ← readItem p
    let rest ← readItems r
    pure (kv :: rest)

def readCells (cells : List String) : Option (List (String × String)) :=
  readItems ((cells.flatMap (splitS " | ")).filter (· != ""))

/-- The character-level facts the round trip rests on, for one metadata list: splitting the
    joined row gives the items back, no item is empty, and every item splits into its key and
    value.  This is what the guard on metadata text (no `' | '`, no `': '`, and – for the file
    form – no `','`) is for. -/
structure SplitsBack (md : List (String × String)) : Prop where
  row : md ≠ [] → splitS " | " (joinS " | " (md.map itemText)) = md.map itemText
  cell : ∀ p ∈ md, splitS " | " (itemText p) = [itemText p]
  nonempty : ∀ p ∈ md, itemText p ≠ ""
  item : ∀ p ∈ md, readItem (itemText p) = some p

/-! ### data-type text -/

/-- The pieces of `to_string()`: a standard type prints its name; a generic type prints eight
    fields joined by `' | '` (`num`, `descr` stand for the text of numbers and of the unit
    description, which are not modelled). -/
def DType.textParts (num : Option Num → String) (descr : Option (List (Key × PyVal)) → String) :
    DType → List String
  | d@(.std ..) => [d.name]
  | .generic name unit mn mx abbr ud pit cum =>
    [name, unit, num mn, num mx, abbr, descr ud, if pit then "True" else "False",
     if cum then "True" else "False"]

/-- `DataTypeBase.from_string` on the pieces of the text: a name that title-cases to a standard
    class gives that class (default name); anything else is handed to `GenericType(*pieces)`, whose
    constructor takes name and unit as text and asserts that `min`, `max` are numbers – so text in
    third place is rejected, and a single piece lacks the unit. -/
def DType.ofParts (parts : List String) : Option DType :=
  match parts with
  | [s] => if Gen.DataTypes.names.contains (titleKey s) then some (.std (titleKey s) Option.none)
           else Option.none                       -- GenericType(name): TypeError, unit missing
  | [name, unit] => some (.generic name unit Option.none Option.none name Option.none true false)
  | _ => Option.none                              -- AssertionError: min must be a number

/-- Character level: the text is split at `' | '` only when it is not a standard type's name. -/
def DType.ofText (s : String) : Option DType :=
  if Gen.DataTypes.names.contains (titleKey s) then some (.std (titleKey s) Option.none)
  else match splitS " | " s with
    | [_] => Option.none
    | [name, unit] => some (.generic name unit Option.none Option.none name Option.none true false)
    | _ => Option.none

/-! ### the CSV form of a header -/

/-- A header whose metadata values are text (the CSV form has no other kind). -/
structure CsvHdr where
  dataType : DType
  unit : String
  md : List (String × String)
deriving Repr, Inhabited

/-- `to_csv_strings`: data-type text, unit, metadata cells. -/
def CsvHdr.write (num : Option Num → String) (descr : Option (List (Key × PyVal)) → String)
    (perRow : Bool) (h : CsvHdr) : List String :=
  [joinS " | " (h.dataType.textParts num descr), h.unit] ++ metaCells perRow h.md

/-- `from_csv_strings` (the analysis period is handed over separately by the caller). -/
def CsvHdr.read (cells : List String) : Option CsvHdr :=
  match cells with
  | dt :: unit :: rest => do
    let d ← DType.ofText dt
    if !d.unitOk unit then Option.none else
    let md ← if rest.isEmpty then some [] else readCells rest
    pure ⟨d, unit, md⟩
  | _ => Option.none

/-- Executable: the whole header through its CSV strings (metadata values stringified as the
    writer does; `none` when a value's text is not modelled). -/
def Hdr.csvRoundTrip (perRow : Bool) (h : Hdr) : Option (Option Hdr) := do
  let md ← h.metadata.mapM fun p => match p.1 with
    | .str k => (metaValText p.2).map fun v => (k, v)
    | .int i => (metaValText p.2).map fun v => (i.repr, v)
  let cells := CsvHdr.write (fun _ => "?") (fun _ => "?") perRow ⟨h.dataType, h.unit, md⟩
  pure ((CsvHdr.read cells).map fun c =>
    ⟨c.dataType, c.unit, h.ap, dedup (c.md.map fun p => (Key.str p.1, PyVal.str p.2))⟩)
where
  /-- `metadata[k] = v` in a loop: the last value of a repeated key wins, first position kept -/
  dedup (l : List (Key × PyVal)) : List (Key × PyVal) :=
    l.foldl (fun acc p => if acc.any (·.1 == p.1) then acc.map (fun q => if q.1 == p.1 then p else q)
                          else acc ++ [p]) []

/-! ### round 6: the header block of a CSV file that SEVERAL collections share

`collections_to_csv` writes one column per collection: the member's own `to_csv_strings(layout)`, then its
values.  The layout is the only thing the members share: one metadata item per row when every member has the
same NUMBER of items (and that number is not 1: `header_len == 3` selects the joined row), else one joined
row.  Nothing else of a sibling enters a member's column - in particular not the sibling's keys.  (The rows
of the file are `zip(*columns)`; `collections_from_csv` reads `zip(*rows)` back: the transposition itself
is compared by the correspondence `csv_series`, not modelled.) -/

/-- The layout flag `meta_per_row` of `collections_to_csv` from the metadata sizes of the members
    (`are_metadatas_aligned`: every member as many items as the first; `header_len = 2 + that size`
    when aligned, else 3; `meta_per_row = header_len != 3`). -/
def csvLayout : List Nat → Bool
  | [] => true
  | n :: r => r.all (· == n) && n != 1

/-- The columns of the header block (without the analysis-period / datetime column): every member's own
    CSV strings under the shared layout flag. -/
def csvColumns (num : Option Num → String) (descr : Option (List (Key × PyVal)) → String)
    (hs : List CsvHdr) : List (List String) :=
  hs.map (CsvHdr.write num descr (csvLayout (hs.map (·.md.length))))

/-- `collections_from_csv`: every column read on its own. -/
def csvReadColumns (cols : List (List String)) : Option (List CsvHdr) := cols.mapM CsvHdr.read

#guard csvLayout [2, 2, 2] = true
#guard csvLayout [2, 3] = false
#guard csvLayout [1, 1] = false
#guard csvLayout [0, 0] = true
#guard csvLayout [3] = true

/-- Executable: the headers of a series through one CSV file (`none`: a metadata value whose text is not
    modelled); the layout flag and every member's header as read back.  `collections_to_csv` writes
    `str(data_collections[0].header.analysis_period)` once and `collections_from_csv` hands that period to
    every column: every member comes back under the FIRST member's period (finding
    C07-csv-one-period-per-file). -/
def Hdr.csvSeries (hs : List Hdr) : Option (Bool × List (Option Hdr)) :=
  let perRow := csvLayout (hs.map (·.metadata.length))
  (hs.mapM (Hdr.csvRoundTrip perRow)).map fun l =>
    (perRow, l.map fun o => o.map fun h => match hs.head? with
      | some h0 => { h with ap := h0.ap }      -- the file has ONE period cell: the first member's (as the code is)
      | Option.none => h)

end Codec
