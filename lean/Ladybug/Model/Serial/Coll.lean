/-
  C07 — dictionary codecs of data types, headers and the five data-collection classes
  (datatype/base.py, datatype/generic.py, header.py, _datacollectionbase.py, datacollection.py;
  the immutable twins of datacollectionimmutable.py share `to_dict`/`from_dict` with their
  mutable classes).  Written from the code as it is, except `MonthlyPerHourCollection.from_dict`,
  which is modelled as repaired by fixes/C07_mph_from_dict.patch (datetimes converted to tuples).
  No Mathlib.
-/
import Ladybug.Model.Serial.Basic
import Ladybug.Gen.DataTypeNames

namespace Codec

open Cal

/-! ### Data types -/

def isWordChar (c : Char) : Bool := c.isAlphanum || c == '_'

/-- `re.sub(r"(?<=\w)([A-Z])", r" \1", cls)`: a space before every capital that follows a word
    character (default `name` of a standard data type). -/
def spacedAux : Option Char → List Char → List Char
  | _, [] => []
  | prev, c :: r =>
    let rest := spacedAux (some c) r
    match prev with
    | some p => if isWordChar p && c.isUpper then ' ' :: c :: rest else c :: rest
    | Option.none => c :: rest

def spaced (cls : String) : String := String.ofList (spacedAux Option.none cls.toList)

/-- `s.title()` on ASCII text: a letter is upper-cased when the previous character is not a
    letter, lower-cased otherwise. -/
def titleAux : Bool → List Char → List Char
  | _, [] => []
  | prevAlpha, c :: r =>
    (if c.isAlpha then (if prevAlpha then c.toLower else c.toUpper) else c) :: titleAux c.isAlpha r

/-- `name.title().replace(' ', '')`. -/
def titleKey (name : String) : String :=
  String.ofList ((titleAux false name.toList).filter (· != ' '))

#guard spaced "DryBulbTemperature" = "Dry Bulb Temperature"
#guard spaced "UTCI" = "U T C I"
#guard titleKey "Dry bulb temperature" = "DryBulbTemperature"
#guard titleKey "pm25 a1b" = "Pm25A1B"
-- every standard type: the default name leads back to the class (tested on the generated list;
-- a test of the extracted table, not a theorem)
#guard Gen.DataTypes.names.all (fun c => titleKey (spaced c) == c)

inductive DType where
  /-- a standard type: class name and `_name` (`none` = default name derived from the class) -/
  | std (cls : String) (name : Option String)
  /-- `GenericType(name, unit, min, max, abbreviation, unit_descr, point_in_time, cumulative)`;
      `min`/`max` `none` = -inf/+inf -/
  | generic (name unit : String) (min max : Option Num) (abbr : String)
      (unitDescr : Option (List (Key × PyVal))) (pit cum : Bool)
deriving Repr, Inhabited

/-- The `name` property. -/
def DType.name : DType → String
  | .std cls Option.none => spaced cls
  | .std _ (some n) => n
  | .generic n .. => n

def DType.enc : DType → PyVal
  | d@(.std cls _) =>
    .dict [kv "name" (.str d.name), kv "data_type" (.str cls), kv "type" (.str "DataType")]
  | .generic name unit mn mx abbr ud pit cum =>
    .dict ([kv "type" (.str "GenericDataType"), kv "name" (.str name),
            kv "data_type" (.str "GenericType"), kv "base_unit" (.str unit)] ++
      (match mn with | some m => [kv "min" m.enc] | Option.none => []) ++
      (match mx with | some m => [kv "max" m.enc] | Option.none => []) ++
      (if abbr != name then [kv "abbreviation" (.str abbr)] else []) ++
      (match ud with | some d => [kv "unit_descr" (.dict d)] | Option.none => []) ++
      (if !pit then [kv "point_in_time" (.bool pit)] else []) ++
      (if cum then [kv "cumulative" (.bool cum)] else []))

/-- `min` / `max` of a generic type: missing or `{'type': 'Default'}` = infinite. -/
def boundOf (x : Option PyVal) : Option (Option Num) :=
  match x with
  | Option.none => some Option.none
  | some v => if v.isTag "Default" then some Option.none else v.num?.map some

def boolOr (x : Option PyVal) (d : Bool) : Option Bool :=
  match x with
  | Option.none => some d
  | some v => v.bool?

/-- `DataTypeBase.from_dict` on the looked-up keys. -/
def DType.make (name dataType baseUnit mn mx abbr ud pit cum : Option PyVal) : Option DType := do
  let name ← name
  let dt ← (← dataType).str?
  if dt == "GenericType" then
    let name ← name.str?
    let unit ← (← baseUnit).str?
    let mn ← boundOf mn
    let mx ← boundOf mx
    -- `abbreviation if abbreviation else name`; a truthy abbreviation must be a string
    let abbr ← match abbr with
      | Option.none => some name
      | some a => if a.truthy then a.str? else some name
    let ud ← match ud with
      | Option.none => some Option.none
      | some .none => some Option.none
      | some (.dict d) => some (some d)
      | some _ => Option.none
    let pit ← boolOr pit true
    let cum ← boolOr cum false
    if pit && cum then Option.none else
    pure (.generic name unit mn mx abbr ud pit cum)
  else if Gen.DataTypes.names.contains dt then
    let name ← name.str?
    if dt == titleKey name then pure (.std dt Option.none) else pure (.std dt (some name))
  else Option.none

def DType.run (g : Env) : Option DType :=
  DType.make (g "name") (g "data_type") (g "base_unit") (g "min") (g "max") (g "abbreviation")
    (g "unit_descr") (g "point_in_time") (g "cumulative")

def DType.rd : RecDec DType where
  keys := ["name", "data_type", "base_unit", "min", "max", "abbreviation", "unit_descr",
           "point_in_time", "cumulative"]
  run := DType.run
  loc := by
    intro g g' h
    simp only [DType.run, h "name" (by simp), h "data_type" (by simp), h "base_unit" (by simp),
      h "min" (by simp), h "max" (by simp), h "abbreviation" (by simp), h "unit_descr" (by simp),
      h "point_in_time" (by simp), h "cumulative" (by simp)]

/-- Normal form of a data type object. -/
def DType.wf : DType → Prop
  | .std cls Option.none => Gen.DataTypes.names.contains cls = true ∧ cls ≠ "GenericType" ∧
      titleKey (spaced cls) = cls
  | .std cls (some n) => Gen.DataTypes.names.contains cls = true ∧ cls ≠ "GenericType" ∧
      titleKey n ≠ cls
  | .generic name _ _ _ abbr ud pit cum =>
      abbr ≠ "" ∧ (pit && cum) = false ∧
      (∀ d, ud = some d → jsonRT (.dict d) = .dict d) ∧ name = name

/-- `is_unit_acceptable`: only the generic type's single unit is modelled; the unit lists of the
    standard types are not (the harness only sends acceptable units). -/
def DType.unitOk : DType → String → Bool
  | .std .., _ => true
  | .generic _ u .., unit => u == unit

/-! ### Header -/

structure Hdr where
  dataType : DType
  unit : String
  ap : AP
  metadata : List (Key × PyVal)
deriving Repr, Inhabited

def Hdr.enc (h : Hdr) : PyVal :=
  .dict [kv "data_type" h.dataType.enc, kv "unit" (.str h.unit), kv "analysis_period" h.ap.enc,
         kv "metadata" (.dict h.metadata), kv "type" (.str "Header")]

/-- `Header.from_dict` + `Header.__init__` on the looked-up keys. -/
def Hdr.make (dt unit ap md : Option PyVal) : Option Hdr := do
  let dt ← DType.rd.dec (← dt)
  let unit ← (← unit).str?
  let ap ← AP.rd.dec (← ap)
  if !dt.unitOk unit then Option.none else
  let md ← match md with
    | Option.none => some []
    | some .none => some []
    | some (.dict d) => some d
    | some _ => Option.none
  pure ⟨dt, unit, ap, md⟩

def Hdr.run (g : Env) : Option Hdr :=
  Hdr.make (g "data_type") (g "unit") (g "analysis_period") (g "metadata")

def Hdr.rd : RecDec Hdr where
  keys := ["data_type", "unit", "analysis_period", "metadata"]
  run := Hdr.run
  loc := by
    intro g g' h
    simp only [Hdr.run, h "data_type" (by simp), h "unit" (by simp),
      h "analysis_period" (by simp), h "metadata" (by simp)]

def Hdr.wf (h : Hdr) : Prop :=
  h.dataType.wf ∧ h.ap.wf ∧ h.dataType.unitOk h.unit = true ∧
  jsonRT (.dict h.metadata) = .dict h.metadata

/-! ### Data collections -/

inductive CollKind where
  | hourlyDisc | hourlyCont | daily | monthly | mph
deriving DecidableEq, Repr, Inhabited

def CollKind.tag : CollKind → String
  | .hourlyDisc => "HourlyDiscontinuous"
  | .hourlyCont => "HourlyContinuous"
  | .daily => "Daily"
  | .monthly => "Monthly"
  | .mph => "MonthlyPerHour"

/-- The time keys of a collection. -/
inductive Times where
  | dts (l : List DT)         -- HourlyDiscontinuous: DateTime objects
  | raw (l : List PyVal)      -- Daily / Monthly / MonthlyPerHour: kept as delivered
  | derived                   -- HourlyContinuous: computed from the analysis period
deriving Repr, Inhabited

structure Coll where
  kind : CollKind
  header : Hdr
  values : List PyVal
  times : Times
  /-- `_validated_a_period`: whatever `from_dict` found under the key (a boolean in normal use) -/
  validated : PyVal
  /-- immutable twin (`values` is a tuple on the object; `to_dict` exports a list copy for both twins) -/
  imm : Bool
deriving Repr, Inhabited

def dtArray (d : DT) : PyVal := .tuple (d.toArray.map natV)

def Times.enc : Times → List (Key × PyVal)
  | .dts l => [kv "datetimes" (.list (l.map dtArray))]
  | .raw l => [kv "datetimes" (.tuple l)]
  | .derived => []

def Coll.enc (c : Coll) : PyVal :=
  .dict ([kv "header" c.header.enc,
          kv "values" (.list c.values)] ++ c.times.enc ++
    (match c.kind with
      | .hourlyCont => []
      | _ => [kv "validated_a_period" c.validated]) ++
    [kv "type" (.str c.kind.tag)])

/-- `DateTime.from_array(arr)` on a JSON list of integers. -/
def dtOfArray (v : PyVal) : Option DT := do
  let l ← v.list?
  let ns ← decList PyVal.nat? l
  okOpt (DT.fromArray ns)

/-- `len(AnalysisPeriod)` for `st_hour = 0`, `end_hour = 23` (the fast branch of `__len__`). -/
def AP.lenFullDays (a : AP) : Nat :=
  let st : DT := ⟨a.stM, a.stD, 0, 0, a.leap⟩
  let en : DT := ⟨a.endM, a.endD, 23, 0, a.leap⟩
  if en.intHoy < st.intHoy then
    ((24 * daysInYear a.leap - 1 - st.intHoy) + en.intHoy + 2) * a.ts
  else (en.intHoy + 1 - st.intHoy) * a.ts

/-- `tuple(d)` of the repaired `MonthlyPerHourCollection.from_dict`. -/
def toTuple : PyVal → Option PyVal
  | .list l => some (.tuple l)
  | .tuple l => some (.tuple l)
  | _ => Option.none

/-- `from_dict` of the class `kind` on the looked-up keys (`type` must be present and match). -/
def Coll.make (kind : CollKind) (imm : Bool) (ty hdr vals dts valid : Option PyVal) :
    Option Coll := do
  let ty ← (← ty).str?
  -- HourlyDiscontinuous checks `'HourlyDiscontinuous' in data['type']`, the others equality
  if ty != kind.tag then Option.none else
  let h ← Hdr.rd.dec (← hdr)
  let vals ← (← vals).list?
  match kind with
  | .hourlyCont =>
    if h.ap.stH != 0 || h.ap.endH != 23 then Option.none else
    if vals.length != h.ap.lenFullDays then Option.none else
    pure ⟨kind, h, vals, .derived, .bool true, imm⟩
  | _ =>
    let dl ← (← dts).list?
    let times ← match kind with
      | .hourlyDisc => (decList dtOfArray dl).map Times.dts
      | .mph => (decList toTuple dl).map Times.raw
      | _ => some (Times.raw dl)
    if vals.length != dl.length || vals.length == 0 then Option.none else
    let valid := match valid with | Option.none => PyVal.bool false | some v => v
    pure ⟨kind, h, vals, times, valid, imm⟩

def Coll.run (kind : CollKind) (imm : Bool) (g : Env) : Option Coll :=
  Coll.make kind imm (g "type") (g "header") (g "values") (g "datetimes") (g "validated_a_period")

def Coll.rd (kind : CollKind) (imm : Bool) : RecDec Coll where
  keys := ["type", "header", "values", "datetimes", "validated_a_period"]
  run := Coll.run kind imm
  loc := by
    intro g g' h
    simp only [Coll.run, h "type" (by simp), h "header" (by simp), h "values" (by simp),
      h "datetimes" (by simp), h "validated_a_period" (by simp)]

/-- Normal form of a constructed collection. -/
def Coll.wf (c : Coll) : Prop :=
  c.header.wf ∧ (∀ v ∈ c.values, jsonRT v = v) ∧ (∃ b, c.validated = .bool b) ∧
  match c.kind, c.times with
  | .hourlyCont, .derived => c.header.ap.stH = 0 ∧ c.header.ap.endH = 23 ∧
      c.values.length = c.header.ap.lenFullDays ∧ c.validated = .bool true
  | .hourlyDisc, .dts l => (∀ d ∈ l, d.valid) ∧ c.values.length = l.length ∧ c.values ≠ []
  | .daily, .raw l => (∀ v ∈ l, jsonRT v = v) ∧ c.values.length = l.length ∧ c.values ≠ []
  | .monthly, .raw l => (∀ v ∈ l, jsonRT v = v) ∧ c.values.length = l.length ∧ c.values ≠ []
  | .mph, .raw l => (∀ v ∈ l, ∃ t, v = .tuple t ∧ ∀ x ∈ t, jsonRT x = x) ∧
      c.values.length = l.length ∧ c.values ≠ []
  | _, _ => False

end Codec
