/-
  C07 (round 4) — sibling classes and the JSON / pickle file forms of series of collections.

  `Coll.toMutable` / `Coll.toImmutable` are the twin conversions (`to_mutable()`, `to_immutable()`).
  `encFile` is what `collections_to_json` / `collections_to_pkl` dump: the list of the dictionaries,
  in the order of the series (the series may be handed over as list, tuple, generator, iterator or
  map object: the model takes the list of its elements - the harness feeds the real writers the
  same data in every shape).  `decFileOf rd` is `collections_from_json`: every dictionary of the
  file read by the reader `rd` of its class (the file readers build MUTABLE collections).
-/
import Ladybug.Model.Serial.Coll

namespace Codec

def Coll.toMutable (c : Coll) : Coll := { c with imm := false }
def Coll.toImmutable (c : Coll) : Coll := { c with imm := true }

def encFile (xs : List Coll) : PyVal := .list (xs.map Coll.enc)

def decFileOf (rd : PyVal → Option Coll) (v : PyVal) : Option (List Coll) := do
  let l ← v.list?
  decList rd l

end Codec
