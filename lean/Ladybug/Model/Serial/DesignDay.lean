/-
  C07 — dictionary codecs of designday.py (`DryBulbCondition`, `HumidityCondition`,
  `WindCondition`, `_SkyCondition` / `ASHRAEClearSky` / `ASHRAETau`, `DesignDay`) and ddy.py (`DDY`),
  written from the code as it is at /repo HEAD (the condition `to_dict`s write the optional
  fields since d07ae0e).  No Mathlib.
-/
import Ladybug.Model.Serial.Basic

namespace Codec
open Cal

/-- `data[k]` for a required key that must be a number. -/
def reqNum (x : Option PyVal) : Option Num :=
  match x with
  | some v => v.num?
  | Option.none => Option.none

/-- `data[k] if k in data else d` (any value). -/
def orVal (x : Option PyVal) (d : PyVal) : PyVal :=
  match x with
  | some v => v
  | Option.none => d

/-- `lo <= x` / `x <= hi` by value (`false` for inf/nan, which the code's comparison also mostly
    rejects; not generated). -/
def Num.geRat (n : Num) (lo : Rat) : Bool :=
  match n.rat? with | some q => decide (lo ≤ q) | Option.none => false
def Num.leRat (n : Num) (hi : Rat) : Bool :=
  match n.rat? with | some q => decide (q ≤ hi) | Option.none => false

/-- `str(x)` on strings, integers, booleans and `None` (floats and containers: not modelled). -/
def pyStr (v : PyVal) : Option String :=
  match v with
  | .str s => some s
  | .int i => some i.repr
  | .none => some "None"
  | .bool true => some "True"
  | .bool false => some "False"
  | _ => Option.none

/-! ### DryBulbCondition -/

structure DryBulb where
  max : Num
  range : Num
  modType : String
  modSchedule : String
deriving DecidableEq, Repr, Inhabited

def DryBulb.enc (c : DryBulb) : PyVal :=
  .dict [kv "type" (.str "DryBulbCondition"), kv "dry_bulb_max" c.max.enc,
         kv "dry_bulb_range" c.range.enc, kv "modifier_type" (.str c.modType),
         kv "modifier_schedule" (.str c.modSchedule)]

def DryBulb.make (mx rng mt ms : Option PyVal) : Option DryBulb := do
  let mx ← reqNum mx
  let rng ← reqNum rng
  if !rng.geRat 0 then Option.none else
  let mt ← pyStr (orVal mt (.str "DefaultMultipliers"))
  let ms ← pyStr (orVal ms (.str ""))
  pure ⟨mx, rng, mt, ms⟩

def DryBulb.run (g : Env) : Option DryBulb :=
  DryBulb.make (g "dry_bulb_max") (g "dry_bulb_range") (g "modifier_type") (g "modifier_schedule")

def DryBulb.rd : RecDec DryBulb where
  keys := ["dry_bulb_max", "dry_bulb_range", "modifier_type", "modifier_schedule"]
  run := DryBulb.run
  loc := by
    intro g g' h
    simp only [DryBulb.run, h "dry_bulb_max" (by simp), h "dry_bulb_range" (by simp),
      h "modifier_type" (by simp), h "modifier_schedule" (by simp)]

def DryBulb.wf (c : DryBulb) : Prop := c.range.geRat 0 = true

/-! ### HumidityCondition -/

def humidityTypes : List String := ["Wetbulb", "Dewpoint", "HumidityRatio", "Enthalpy"]

structure Humidity where
  hType : String
  value : Num
  pressure : Num
  rain : Bool
  snow : Bool
  /-- `schedule` / `wet_bulb_range` are stored as given (strings in normal use) -/
  schedule : PyVal
  wbRange : PyVal
deriving Repr, Inhabited

def Humidity.enc (c : Humidity) : PyVal :=
  .dict [kv "type" (.str "HumidityCondition"), kv "humidity_type" (.str c.hType),
         kv "humidity_value" c.value.enc, kv "barometric_pressure" c.pressure.enc,
         kv "rain" (.bool c.rain), kv "snow_on_ground" (.bool c.snow), kv "schedule" c.schedule,
         kv "wet_bulb_range" c.wbRange]

def Humidity.make (ht hv bp rain snow sch wbr : Option PyVal) : Option Humidity := do
  let ht ← (← ht).str?          -- membership in HUMIDITY_TYPES (a non-string is rejected too)
  if !humidityTypes.contains ht then Option.none else
  let hv ← reqNum hv
  let bp ← (orVal bp (.int 101325)).num?
  pure ⟨ht, hv, bp, (orVal rain (.bool false)).truthy, (orVal snow (.bool false)).truthy,
        orVal sch (.str ""), orVal wbr (.str "")⟩

def Humidity.run (g : Env) : Option Humidity :=
  Humidity.make (g "humidity_type") (g "humidity_value") (g "barometric_pressure") (g "rain")
    (g "snow_on_ground") (g "schedule") (g "wet_bulb_range")

def Humidity.rd : RecDec Humidity where
  keys := ["humidity_type", "humidity_value", "barometric_pressure", "rain", "snow_on_ground",
           "schedule", "wet_bulb_range"]
  run := Humidity.run
  loc := by
    intro g g' h
    simp only [Humidity.run, h "humidity_type" (by simp), h "humidity_value" (by simp),
      h "barometric_pressure" (by simp), h "rain" (by simp), h "snow_on_ground" (by simp),
      h "schedule" (by simp), h "wet_bulb_range" (by simp)]

def Humidity.wf (c : Humidity) : Prop :=
  humidityTypes.contains c.hType = true ∧ jsonRT c.schedule = c.schedule ∧
  jsonRT c.wbRange = c.wbRange

/-! ### WindCondition -/

structure Wind where
  speed : Num
  direction : Num
deriving DecidableEq, Repr, Inhabited

def Wind.enc (c : Wind) : PyVal :=
  .dict [kv "type" (.str "WindCondition"), kv "wind_speed" c.speed.enc,
         kv "wind_direction" c.direction.enc]

def Wind.make (sp dir : Option PyVal) : Option Wind := do
  let sp ← reqNum sp
  let dir ← (orVal dir (.int 0)).num?
  if dir.geRat 0 && dir.leRat 360 then pure ⟨sp, dir⟩ else Option.none

def Wind.run (g : Env) : Option Wind := Wind.make (g "wind_speed") (g "wind_direction")

def Wind.rd : RecDec Wind where
  keys := ["wind_speed", "wind_direction"]
  run := Wind.run
  loc := by
    intro g g' h
    simp only [Wind.run, h "wind_speed" (by simp), h "wind_direction" (by simp)]

def Wind.wf (c : Wind) : Prop := (c.direction.geRat 0 && c.direction.leRat 360) = true

/-! ### Sky conditions -/

inductive Sky where
  | plain (date : D) (dst : Bool) (beam diffuse : PyVal)
  | clear (date : D) (clearness : Num) (dst : Bool)
  | tau (date : D) (tauB tauD : Num) (use2017 dst : Bool)
deriving Repr, Inhabited

def dateArray (d : D) : PyVal := .tuple (d.toArray.map natV)

def Sky.enc : Sky → PyVal
  | .plain d dst b f =>
    .dict [kv "type" (.str "SkyCondition"), kv "date" (dateArray d),
           kv "daylight_savings" (.bool dst), kv "beam_schedule" b, kv "diffuse_schedule" f]
  | .clear d c dst =>
    .dict [kv "type" (.str "ASHRAEClearSky"), kv "date" (dateArray d), kv "clearness" c.enc,
           kv "daylight_savings" (.bool dst)]
  | .tau d tb td u dst =>
    .dict [kv "type" (.str "ASHRAETau"), kv "date" (dateArray d), kv "tau_b" tb.enc,
           kv "tau_d" td.enc, kv "use_2017" (.bool u), kv "daylight_savings" (.bool dst)]

/-- `Date.from_array(data['date'])`. -/
def dateOfArray (x : Option PyVal) : Option D := do
  let l ← (← x).list?
  let ns ← decList PyVal.nat? l
  okOpt (D.fromArray ns)

/-- `_SkyCondition.from_dict`: dispatch on `data['type']` (KeyError when missing). -/
def Sky.make (ty date dst beam diff clr tb td u : Option PyVal) : Option Sky := do
  let ty ← ty
  let isClear := match ty with | .str s => s == "ASHRAEClearSky" | _ => false
  let isTau := match ty with | .str s => s == "ASHRAETau" | _ => false
  let d ← dateOfArray date
  let dst := (orVal dst (.bool false)).truthy
  if isClear then
    let c ← reqNum clr
    if c.geRat 0 && c.leRat (6 / 5) then pure (.clear d c dst) else Option.none
  else if isTau then
    let tb ← reqNum tb
    let td ← reqNum td
    pure (.tau d tb td (orVal u (.bool false)).truthy dst)
  else pure (.plain d dst (orVal beam (.str "")) (orVal diff (.str "")))

def Sky.run (g : Env) : Option Sky :=
  Sky.make (g "type") (g "date") (g "daylight_savings") (g "beam_schedule") (g "diffuse_schedule")
    (g "clearness") (g "tau_b") (g "tau_d") (g "use_2017")

def Sky.rd : RecDec Sky where
  keys := ["type", "date", "daylight_savings", "beam_schedule", "diffuse_schedule", "clearness",
           "tau_b", "tau_d", "use_2017"]
  run := Sky.run
  loc := by
    intro g g' h
    simp only [Sky.run, h "type" (by simp), h "date" (by simp), h "daylight_savings" (by simp),
      h "beam_schedule" (by simp), h "diffuse_schedule" (by simp), h "clearness" (by simp),
      h "tau_b" (by simp), h "tau_d" (by simp), h "use_2017" (by simp)]

def Sky.wf : Sky → Prop
  | .plain d _ b f => d.valid ∧ jsonRT b = b ∧ jsonRT f = f
  | .clear d c _ => d.valid ∧ (c.geRat 0 && c.leRat (6 / 5)) = true
  | .tau d _ _ _ _ => d.valid

/-! ### DesignDay -/

def dayTypes : List String :=
  ["SummerDesignDay", "WinterDesignDay", "Sunday", "Monday", "Tuesday", "Wednesday", "Thursday",
   "Friday", "Holiday", "CustomDay1", "CustomDay2"]

structure DDay where
  name : String
  dayType : String
  location : Loc
  dryBulb : DryBulb
  humidity : Humidity
  wind : Wind
  sky : Sky
deriving Repr, Inhabited

def DDay.enc (d : DDay) : PyVal :=
  .dict [kv "type" (.str "DesignDay"), kv "name" (.str d.name), kv "day_type" (.str d.dayType),
         kv "dry_bulb_condition" d.dryBulb.enc, kv "humidity_condition" d.humidity.enc,
         kv "wind_condition" d.wind.enc, kv "sky_condition" d.sky.enc,
         kv "location" d.location.enc]

/-- `Location()`. -/
def Loc.default : Loc := ⟨"-", "-", "-", .int 0, .int 0, .int 0, .flt 0, Option.none, .none⟩

def DDay.make (name dt loc db hum wind sky : Option PyVal) : Option DDay := do
  let name ← pyStr (← name)
  let dt ← (← dt).str?
  if !dayTypes.contains dt then Option.none else
  let loc ← match loc with
    | Option.none => some Loc.default
    | some .none => some Loc.default
    | some v => Loc.rd.dec v
  let db ← DryBulb.rd.dec (← db)
  let hum ← Humidity.rd.dec (← hum)
  let wind ← Wind.rd.dec (← wind)
  let sky ← Sky.rd.dec (← sky)
  pure ⟨name, dt, loc, db, hum, wind, sky⟩

def DDay.run (g : Env) : Option DDay :=
  DDay.make (g "name") (g "day_type") (g "location") (g "dry_bulb_condition")
    (g "humidity_condition") (g "wind_condition") (g "sky_condition")

def DDay.rd : RecDec DDay where
  keys := ["name", "day_type", "location", "dry_bulb_condition", "humidity_condition",
           "wind_condition", "sky_condition"]
  run := DDay.run
  loc := by
    intro g g' h
    simp only [DDay.run, h "name" (by simp), h "day_type" (by simp), h "location" (by simp),
      h "dry_bulb_condition" (by simp), h "humidity_condition" (by simp),
      h "wind_condition" (by simp), h "sky_condition" (by simp)]

def DDay.wf (d : DDay) : Prop :=
  dayTypes.contains d.dayType = true ∧ d.location.wf ∧ d.dryBulb.wf ∧ d.humidity.wf ∧ d.wind.wf ∧
  d.sky.wf

/-! ### DDY -/

structure DDYc where
  location : Loc
  days : List DDay
deriving Repr, Inhabited

def DDYc.enc (d : DDYc) : PyVal :=
  .dict [kv "type" (.str "DDY"), kv "location" d.location.enc,
         kv "design_days" (.list (d.days.map DDay.enc))]

/-- `DDY.from_dict` on the looked-up keys.  The `design_days` setter gives every design day whose
    location differs (`!=`) the location of the DDY, so afterwards every day carries a location
    equal to the DDY's: modelled as every day carrying the DDY's location. -/
def DDYc.make (loc days : Option PyVal) : Option DDYc := do
  let lv ← loc
  let l ← Loc.rd.dec lv
  let dl ← (← days).list?
  let ds ← decList DDay.rd.dec dl
  pure ⟨l, ds.map fun d => { d with location := l }⟩

def DDYc.run (g : Env) : Option DDYc := DDYc.make (g "location") (g "design_days")

def DDYc.rd : RecDec DDYc where
  keys := ["location", "design_days"]
  run := DDYc.run
  loc := by
    intro g g' h
    simp only [DDYc.run, h "location" (by simp), h "design_days" (by simp)]

def DDYc.wf (d : DDYc) : Prop :=
  d.location.wf ∧ ∀ x ∈ d.days, x.wf ∧ x.location = d.location

end Codec
