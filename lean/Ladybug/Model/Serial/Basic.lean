/-
  C07 — dictionary codecs of the basic value classes, written from the code as it is:
  dt.py (DateTime/Date/Time), analysisperiod.py, location.py, color.py (Color).
  Each class has `enc` (= `to_dict`), a record decoder `rd` (= `from_dict` followed by the
  constructor's normalisation; `none` = the code raises) and `wf` (the constructor's normal form).
  No Mathlib.
-/
import Ladybug.Model.Codec
import Ladybug.Model.Cal

namespace Codec

open Cal

/-- `data[k] if k in data else d` for a non-negative integer field (`none` = wrong type). -/
def natOr (g : Env) (k : String) (d : Nat) : Option Nat :=
  match g k with
  | Option.none => some d
  | some v => v.nat?

/-- `data[k] if k in data else False`, used as a truth value. -/
def truthOr (g : Env) (k : String) : Bool :=
  match g k with
  | Option.none => false
  | some v => v.truthy

def kv (k : String) (v : PyVal) : Key × PyVal := (.str k, v)
def natV (n : Nat) : PyVal := .int (n : Int)

@[simp] theorem nat?_natV (n : Nat) : (natV n).nat? = some n := by simp [natV, PyVal.nat?]
@[simp] theorem jsonRT_natV (n : Nat) : jsonRT (natV n) = natV n := by simp [natV]

/-! ### DateTime / Date / Time (dt.py) -/

def DTc.enc (d : DT) : PyVal :=
  .dict ([kv "month" (natV d.month), kv "day" (natV d.day), kv "hour" (natV d.hour),
          kv "minute" (natV d.minute), kv "type" (.str "DateTime")] ++
         (if d.leap then [kv "leap_year" (.bool true)] else []))

def okOpt {α : Type} : Except Err α → Option α
  | .ok a => some a
  | .error _ => Option.none

def DTc.run (g : Env) : Option DT := do
  let mo ← natOr g "month" 1
  let da ← natOr g "day" 1
  let h ← natOr g "hour" 0
  let mi ← natOr g "minute" 0
  okOpt (DT.make mo da h mi (truthOr g "leap_year"))

def DTc.rd : RecDec DT where
  keys := ["month", "day", "hour", "minute", "leap_year"]
  run := DTc.run
  loc := by
    intro g g' h
    simp only [DTc.run, natOr, truthOr, h _ (List.mem_cons_self ..),
      h "day" (by simp), h "hour" (by simp), h "minute" (by simp), h "leap_year" (by simp)]

def Dc.enc (d : D) : PyVal :=
  .dict ([kv "month" (natV d.month), kv "day" (natV d.day), kv "type" (.str "Date")] ++
         (if d.leap then [kv "leap_year" (.bool true)] else []))

def intOr (g : Env) (k : String) (d : Int) : Option Int :=
  match g k with
  | Option.none => some d
  | some v => v.int?

def Dc.run (g : Env) : Option D := do
  let mo ← intOr g "month" 1
  let da ← intOr g "day" 1
  okOpt (D.make mo da (truthOr g "leap_year"))

def Dc.rd : RecDec D where
  keys := ["month", "day", "leap_year"]
  run := Dc.run
  loc := by
    intro g g' h
    simp only [Dc.run, intOr, truthOr, h "month" (by simp), h "day" (by simp),
      h "leap_year" (by simp)]

def Tc.enc (t : T) : PyVal :=
  .dict [kv "hour" (natV t.hour), kv "minute" (natV t.minute), kv "type" (.str "Time")]

def Tc.run (g : Env) : Option T := do
  let h ← natOr g "hour" 0
  let mi ← natOr g "minute" 0
  okOpt (T.make h mi)

def Tc.rd : RecDec T where
  keys := ["hour", "minute"]
  run := Tc.run
  loc := by
    intro g g' h
    simp only [Tc.run, natOr, h "hour" (by simp), h "minute" (by simp)]

/-! ### AnalysisPeriod (analysisperiod.py) — self-contained field-level model

  `from_dict` sets every missing key to `None` and calls the constructor, which applies
  `x or default` to every field but `end_hour` (`23 if end_hour is None`), clips `end_day` to the
  month length, builds the two `DateTime`s (validation) and checks the timestep. -/

structure AP where
  stM : Nat
  stD : Nat
  stH : Nat
  endM : Nat
  endD : Nat
  endH : Nat
  ts : Nat
  leap : Bool
deriving DecidableEq, Repr, Inhabited

def validTimesteps : List Nat := [1, 2, 3, 4, 5, 6, 10, 12, 15, 20, 30, 60]

/-- The normal form the constructor establishes. -/
def AP.wf (a : AP) : Prop :=
  (DT.mk a.stM a.stD a.stH 0 a.leap).valid ∧ (DT.mk a.endM a.endD a.endH 0 a.leap).valid ∧
  a.ts ∈ validTimesteps

instance (a : AP) : Decidable a.wf := by unfold AP.wf; infer_instance

def AP.enc (a : AP) : PyVal :=
  .dict [kv "st_month" (natV a.stM), kv "st_day" (natV a.stD), kv "st_hour" (natV a.stH),
         kv "end_month" (natV a.endM), kv "end_day" (natV a.endD), kv "end_hour" (natV a.endH),
         kv "timestep" (natV a.ts), kv "is_leap_year" (.bool a.leap),
         kv "type" (.str "AnalysisPeriod")]

/-- A constructor argument as `from_dict` passes it: missing key or `null` → `None`. -/
def argNat (g : Env) (k : String) : Option (Option Nat) :=
  match g k with
  | Option.none => some Option.none
  | some .none => some Option.none
  | some v => v.nat?.map some

/-- `x or d` on an optional non-negative integer. -/
def orD (x : Option Nat) (d : Nat) : Nat :=
  match x with
  | Option.none => d
  | some 0 => d
  | some n => n

/-- `AnalysisPeriod.__init__` on integer / `None` arguments. -/
def AP.make (stM stD stH endM endD endH ts : Option Nat) (leap : Bool) : Option AP := do
  let stM := orD stM 1
  let stD := orD stD 1
  let stH := orD stH 0
  let endM := orD endM 12
  let endD := orD endD 31
  let endH := match endH with | Option.none => 23 | some h => h
  let ts := orD ts 1
  let st ← okOpt (DT.make stM stD stH 0 leap)
  -- `self._num_of_days_each_month[int(end_month) - 1]`: IndexError for months > 12
  if 12 < endM then Option.none else
  let endD := if monthLen leap endM < endD then monthLen leap endM else endD
  let en ← okOpt (DT.make endM endD endH 0 leap)
  if ts ∈ validTimesteps then
    some ⟨st.month, st.day, st.hour, en.month, en.day, en.hour, ts, leap⟩
  else Option.none

def AP.run (g : Env) : Option AP := do
  let a1 ← argNat g "st_month"
  let a2 ← argNat g "st_day"
  let a3 ← argNat g "st_hour"
  let a4 ← argNat g "end_month"
  let a5 ← argNat g "end_day"
  let a6 ← argNat g "end_hour"
  let a7 ← argNat g "timestep"
  AP.make a1 a2 a3 a4 a5 a6 a7 (truthOr g "is_leap_year")

def AP.rd : RecDec AP where
  keys := ["st_month", "st_day", "st_hour", "end_month", "end_day", "end_hour", "timestep",
           "is_leap_year"]
  run := AP.run
  loc := by
    intro g g' h
    simp only [AP.run, argNat, truthOr, h "st_month" (by simp), h "st_day" (by simp),
      h "st_hour" (by simp), h "end_month" (by simp), h "end_day" (by simp),
      h "end_hour" (by simp), h "timestep" (by simp), h "is_leap_year" (by simp)]

/-- `__copy__` / `duplicate()`: the constructor on the object's own fields. -/
def AP.copy (a : AP) : Option AP :=
  AP.make (some a.stM) (some a.stD) (some a.stH) (some a.endM) (some a.endD) (some a.endH)
    (some a.ts) a.leap

/-- `__repr__` at token level: `"%s/%s to %s/%s between %s and %s @%d"` + `*` for leap years. -/
def AP.strTokens (a : AP) : List Nat × Bool :=
  ([a.stM, a.stD, a.endM, a.endD, a.stH, a.endH, a.ts], a.leap)

/-- `from_string` at token level: seven numbers in the printed order and the leap marker. -/
def AP.parseTokens : List Nat × Bool → Option AP
  | ([stM, stD, endM, endD, stH, endH, ts], leap) =>
    -- `from_string` hands the constructor *strings*; its clipping branch computes
    -- `end_month - 1` on the string and raises (TypeError -> ValueError): no clipping here
    if monthLen leap (orD (some endM) 12) < orD (some endD) 31 then Option.none else
    AP.make (some stM) (some stD) (some stH) (some endM) (some endD) (some endH) (some ts) leap
  | _ => Option.none

/-- Character level (executable, tied by correspondence only). -/
def AP.str (a : AP) : String :=
  s!"{a.stM}/{a.stD} to {a.endM}/{a.endD} between {a.stH} and {a.endH} @{a.ts}" ++
    (if a.leap then "*" else "")

/-- The `replace` chain of `from_string` (executable, tied by correspondence only). -/
def AP.lex (s : String) : Option (List Nat × Bool) :=
  let leap := (s.replace " " "").endsWith "*"
  let t := ((((((s.toLower.replace " " "").replace "to" " ").replace "and" " ").replace "/" " ").replace
    "between" " ").replace "@" " ").replace "*" ""
  match (t.splitOn " ").mapM String.toNat? with
  | some l => some (l, leap)
  | Option.none => Option.none

def AP.parse (s : String) : Option AP :=
  match AP.lex s with
  | some t => AP.parseTokens t
  | Option.none => Option.none

#guard AP.parse "1/1 to 12/31 between 0 and 23 @1" = some ⟨1, 1, 0, 12, 31, 23, 1, false⟩
#guard AP.parse (AP.str ⟨2, 29, 5, 2, 29, 7, 4, true⟩) = some ⟨2, 29, 5, 2, 29, 7, 4, true⟩
#guard AP.make (some 1) (some 1) (some 0) (some 2) (some 30) Option.none Option.none false
  = some ⟨1, 1, 0, 2, 28, 23, 1, false⟩

/-! ### Color (color.py) -/

structure Col where
  r : Nat
  g : Nat
  b : Nat
  a : Nat
deriving DecidableEq, Repr, Inhabited

def Col.wf (c : Col) : Prop := c.r ≤ 255 ∧ c.g ≤ 255 ∧ c.b ≤ 255 ∧ c.a ≤ 255
instance (c : Col) : Decidable c.wf := by unfold Col.wf; infer_instance

def Col.enc (c : Col) : PyVal :=
  .dict [kv "r" (natV c.r), kv "g" (natV c.g), kv "b" (natV c.b), kv "a" (natV c.a),
         kv "type" (.str "Color")]

/-- `data[k]` for a required channel (KeyError when missing); setter `0 <= int(v) <= 255`. -/
def chan (v : Option PyVal) : Option Nat :=
  match v with
  | some x => match x.nat? with
    | some n => if n ≤ 255 then some n else Option.none
    | Option.none => Option.none
  | Option.none => Option.none

def Col.run (g : Env) : Option Col := do
  let a ← match g "a" with | Option.none => some 255 | some v => chan (some v)
  let r ← chan (g "r")
  let gg ← chan (g "g")
  let b ← chan (g "b")
  pure ⟨r, gg, b, a⟩

def Col.rd : RecDec Col where
  keys := ["r", "g", "b", "a"]
  run := Col.run
  loc := by
    intro g g' h
    simp only [Col.run, h "r" (by simp), h "g" (by simp), h "b" (by simp), h "a" (by simp)]

/-! ### Location (location.py) -/

/-- Exact rational value of a number (`none` for inf / nan). -/
def Num.rat? : Num → Option Rat
  | .int i => some (i : Rat)
  | .flt b => Py.ratOfFloatBits (UInt64.ofNat b)

/-- `float(i)` for an integer, as IEEE bits (executable; nothing is proved about it). -/
def floatBitsOfInt (i : Int) : Nat := (Float.ofInt i).toBits.toNat

/-- `float(x)` for a number. -/
def Num.toFloat : Num → Num
  | .int i => .flt (floatBitsOfInt i)
  | .flt b => .flt b

def Num.truthy (n : Num) : Bool := n.enc.truthy

def Num.inRange (n : Num) (lo hi : Int) : Bool :=
  match n.rat? with
  | some q => decide ((lo : Rat) ≤ q) && decide (q ≤ (hi : Rat))
  | Option.none => false

structure Loc where
  city : String
  state : String
  country : String
  lat : Num
  lon : Num
  tz : Num
  elev : Num
  stationId : Option String
  source : PyVal
deriving Repr, Inhabited

def optStr : Option String → PyVal
  | some s => .str s
  | Option.none => .none

def Loc.enc (l : Loc) : PyVal :=
  .dict [kv "city" (.str l.city), kv "state" (.str l.state), kv "country" (.str l.country),
         kv "latitude" l.lat.enc, kv "longitude" l.lon.enc, kv "time_zone" l.tz.enc,
         kv "elevation" l.elev.enc, kv "station_id" (optStr l.stationId), kv "source" l.source,
         kv "type" (.str "Location")]

/-- `from_dict`: a missing key or the `{'type': 'Autocalculate'}` placeholder becomes `None`. -/
def locArg (x : Option PyVal) : PyVal :=
  match x with
  | Option.none => .none
  | some v => if v.isTag "Autocalculate" then .none else v

/-- `'-' if not x else str(x)` (strings and integers; other types are not modelled). -/
def dashStr (v : PyVal) : Option String :=
  if !v.truthy then some "-" else
  match v with
  | .str s => some s
  | .int i => some i.repr
  | _ => Option.none

/-- latitude / longitude: `x or 0`, then the setter `0 if not x else float(x)` and its range. -/
def angle (v : PyVal) (lo hi : Int) : Option Num :=
  if !v.truthy then some (.int 0) else
  match v.num? with
  | some n => let f := n.toFloat; if f.inRange lo hi then some f else Option.none
  | Option.none => Option.none

/-- `time_zone` setter: `round(self._lon / 15) if tz is None else float(tz)`, then the range. -/
def tzOf (v : PyVal) (lon : Num) : Option Num := do
  let tz ← match v with
    | .none => lon.rat?.map (fun q => Num.int (Py.round (q / 15)))
    | v => v.num?.map Num.toFloat
  if tz.inRange (-12) 14 then some tz else Option.none

def elevOf (e : PyVal) : Option Num :=
  if !e.truthy then some (Num.flt 0) else e.num?.map Num.toFloat

def sidOf (s : PyVal) : Option (Option String) :=
  if !s.truthy then some Option.none else (dashStr s).map some

/-- `Location.__init__` on the nine arguments as `from_dict` passes them. -/
def Loc.make (city state country lat lon tz elev sid source : PyVal) : Option Loc := do
  let city ← dashStr city
  let state ← dashStr state
  let country ← dashStr country
  let lat ← angle lat (-90) 90
  let lon ← angle lon (-180) 180
  let tz ← tzOf tz lon
  let elev ← elevOf elev
  let sid ← sidOf sid
  pure ⟨city, state, country, lat, lon, tz, elev, sid, source⟩

def Loc.run (g : Env) : Option Loc :=
  Loc.make (locArg (g "city")) (locArg (g "state")) (locArg (g "country"))
    (locArg (g "latitude")) (locArg (g "longitude")) (locArg (g "time_zone"))
    (locArg (g "elevation")) (locArg (g "station_id")) (locArg (g "source"))

def Loc.rd : RecDec Loc where
  keys := ["city", "state", "country", "latitude", "longitude", "time_zone", "elevation",
           "station_id", "source"]
  run := Loc.run
  loc := by
    intro g g' h
    simp only [Loc.run, h "city" (by simp), h "state" (by simp), h "country" (by simp),
      h "latitude" (by simp), h "longitude" (by simp), h "time_zone" (by simp),
      h "elevation" (by simp), h "station_id" (by simp), h "source" (by simp)]

/-- `__copy__` / `duplicate()`. -/
def Loc.copy (l : Loc) : Option Loc :=
  Loc.make (.str l.city) (.str l.state) (.str l.country) l.lat.enc l.lon.enc l.tz.enc l.elev.enc
    (optStr l.stationId) l.source

/-- Normal form of a constructed Location whose time zone was given (a float after `float(tz)`). -/
def Loc.wf (l : Loc) : Prop :=
  l.city ≠ "" ∧ l.state ≠ "" ∧ l.country ≠ "" ∧
  (l.lat = .int 0 ∨ ∃ b, l.lat = .flt b ∧ l.lat.truthy = true ∧ l.lat.inRange (-90) 90 = true) ∧
  (l.lon = .int 0 ∨ ∃ b, l.lon = .flt b ∧ l.lon.truthy = true ∧ l.lon.inRange (-180) 180 = true) ∧
  (∃ b, l.tz = .flt b ∧ l.tz.inRange (-12) 14 = true) ∧
  (∃ b, l.elev = .flt b ∧ (l.elev.truthy = true ∨ b = 0)) ∧
  (∀ s, l.stationId = some s → s ≠ "") ∧
  jsonRT l.source = l.source ∧ l.source.isTag "Autocalculate" = false

end Codec
