/-
  C07 (round 3) — objects as state machines: histories of assignments, in-place operations,
  refused operations and reads on ONE object.

  The state of a machine IS the public state of the object (the fields its dictionary is written
  from); there are no hidden slots, lazily filled attributes or memos: that is the specification a
  history of the real object is compared with, step by step (driver op `hist`).  A refused operation
  (the code raises) returns the unchanged state.  The setters are written from the code
  (location.py, _datacollectionbase.py, datacollection.py, datacollectionimmutable.py, header.py)
  with the validation placed BEFORE the assignment (for `Location.latitude/longitude/time_zone`
  that is the behaviour of fixes/C07_location_setters_refused_assignment.patch; the pinned code
  assigns first - recorded finding C07-location-refused-assignment-sticks).
  No Mathlib.
-/
import Ladybug.Model.Serial.Coll

namespace Codec
namespace Hist

/-- What one operation answers. -/
inductive Out where
  | done                 -- an accepted assignment / in-place operation
  | refused              -- the operation raised
  | value (v : PyVal)    -- a read
deriving Repr, Inhabited

/-- A class as an object state machine over its public state `σ`. -/
structure Machine (σ ω ρ : Type) where
  /-- a mutating operation; `none` = refused -/
  apply : σ → ω → Option σ
  /-- a read; `none` = the read raises -/
  read : σ → ρ → Option PyVal

inductive Op (ω ρ : Type) where
  | asg (o : ω)
  | read (r : ρ)
deriving Repr

variable {σ ω ρ : Type}

def Machine.step (m : Machine σ ω ρ) (s : σ) : Op ω ρ → σ × Out
  | .asg o =>
    match m.apply s o with
    | some s' => (s', .done)
    | Option.none => (s, .refused)
  | .read r =>
    (s, match m.read s r with
        | some v => .value v
        | Option.none => .refused)

/-- The state after a history. -/
def Machine.run (m : Machine σ ω ρ) (s : σ) : List (Op ω ρ) → σ
  | [] => s
  | o :: r => m.run (m.step s o).1 r

/-- The answers of a history, and the state after every step (what the driver prints). -/
def Machine.trace (m : Machine σ ω ρ) (s : σ) : List (Op ω ρ) → List (σ × Out)
  | [] => []
  | o :: r => m.step s o :: m.trace (m.step s o).1 r

/-- The serial-form reads every machine offers. -/
inductive Read where
  | dict        -- `to_dict()`
  | roundTrip   -- `from_dict(json.loads(json.dumps(to_dict()))).to_dict()`
  | copy        -- `duplicate().to_dict()`
deriving DecidableEq, Repr, Inhabited

/-! ### Location -/

inductive LocSet where
  | lat (v : PyVal) | lon (v : PyVal) | tz (v : PyVal) | elev (v : PyVal)
  | city (s : String) | state (s : String) | country (s : String)
  | station (s : Option String) | source (v : PyVal)
deriving Repr, Inhabited

/-- `elevation` setter: `float(elev)` (no `or 0` here, unlike the constructor). -/
def elevSet (v : PyVal) : Option Num := v.num?.map Num.toFloat

def locApply (l : Loc) : LocSet → Option Loc
  | .lat v => (angle v (-90) 90).map fun n => { l with lat := n }
  | .lon v => (angle v (-180) 180).map fun n => { l with lon := n }
  | .tz v => (tzOf v l.lon).map fun n => { l with tz := n }
  | .elev v => (elevSet v).map fun n => { l with elev := n }
  -- plain attributes (slots without a setter)
  | .city s => some { l with city := s }
  | .state s => some { l with state := s }
  | .country s => some { l with country := s }
  | .station s => some { l with stationId := s }
  | .source v => some { l with source := v }

def locRead (l : Loc) : Read → Option PyVal
  | .dict => some l.enc
  | .roundTrip => (Loc.rd.dec (jsonRT l.enc)).map Loc.enc
  | .copy => l.copy.map Loc.enc

def locM : Machine Loc LocSet Read := ⟨locApply, locRead⟩

/-- The assignments the invariant theorem speaks about: numbers arrive as floats (the conversion
    `float(int)` is executed by the driver but opaque to proofs), the time zone is given, an
    elevation is not `-0.0`, plain text attributes are non-empty (what the constructor establishes). -/
def LocSet.modelled : LocSet → Prop
  | .lat v => ∀ i, v = .int i → i = 0
  | .lon v => ∀ i, v = .int i → i = 0
  | .tz v => v ≠ .none ∧ ∀ i, v ≠ .int i
  | .elev v => (∀ i, v ≠ .int i) ∧ v ≠ .flt (2 ^ 63)
  | .city s => s ≠ ""
  | .state s => s ≠ ""
  | .country s => s ≠ ""
  | .station s => ∀ t, s = some t → t ≠ ""
  | .source v => jsonRT v = v ∧ v.isTag "Autocalculate" = false

/-! ### Data collections -/

inductive CollSet where
  | values (v : PyVal)            -- `coll.values = v`
  | item (i : Int) (v : PyVal)    -- `coll[i] = v`
  | mdata (v : PyVal)             -- `coll.header.metadata = v`
deriving Repr, Inhabited

/-- Number of time keys the value list has to match. -/
def slots (c : Coll) : Nat :=
  match c.times with
  | .dts l => l.length
  | .raw l => l.length
  | .derived => c.header.ap.lenFullDays

def collApply (c : Coll) : CollSet → Option Coll
  | .values v =>
    -- the immutable twins refuse (`AttributeError`); `_check_values`: a list / tuple of the
    -- length of the time keys, not empty; stored as `list(values)`
    if c.imm then Option.none else
    match v.list? with
    | some l => if l.length = slots c ∧ l ≠ [] then some { c with values := l } else Option.none
    | Option.none => Option.none
  | .item i v =>
    if c.imm then Option.none else
    let n : Int := c.values.length
    if 0 ≤ i ∧ i < n then some { c with values := c.values.set i.toNat v }
    else if -n ≤ i ∧ i < 0 then some { c with values := c.values.set (i + n).toNat v }
    else Option.none
  | .mdata v =>
    -- `Header.metadata` setter: `None` or a dictionary (`value or {}`), for every collection
    match v with
    | .none => some { c with header := { c.header with metadata := [] } }
    | .dict d => some { c with header := { c.header with metadata := d } }
    | _ => Option.none

def collRead (c : Coll) : Read → Option PyVal
  | .dict => some c.enc
  | .roundTrip => ((Coll.rd c.kind c.imm).dec (jsonRT c.enc)).map Coll.enc
  -- `duplicate()` rebuilds the collection from header copy, value list and time keys: in the
  -- model the same function of the public state as the read-back
  | .copy => ((Coll.rd c.kind c.imm).dec (jsonRT c.enc)).map Coll.enc

def collM : Machine Coll CollSet Read := ⟨collApply, collRead⟩

def CollSet.modelled : CollSet → Prop
  | .values v => ∀ l, v.list? = some l → ∀ x ∈ l, jsonRT x = x
  | .item _ v => jsonRT v = v
  | .mdata v => ∀ d, v = .dict d → jsonRT (.dict d) = .dict d

end Hist
end Codec
