/-
  C06 — executable model of ladybug's unit machinery (datatype/base.py, the collection-level
  `convert_to_*`/`to_*` of _datacollectionbase.py and the unit acceptance of Header.__init__).
  No Mathlib.  The per-unit formulas and per-type tables are NOT here: they are regenerated from the
  Python source into `Gen/Units.lean` on every run; this file holds what is written by hand from
  base.py:

    * `toUnit`      = DataTypeBase._to_unit_base          (via-base dispatch, both legs guarded)
    * `isInRange`   = DataTypeBase.is_in_range            (limits converted with `_<units[0]>_to_<unit>`)
    * `toIp/toSi`   = <Type>.to_ip / to_si                 (finite target maps, regenerated)
    * `Coll.*`      = BaseCollection.convert_to_unit/ip/si, to_unit/ip/si
    * `headerOk`    = Header.__init__ -> data_type.is_unit_acceptable(unit)
-/
import Ladybug.Py

namespace Units

/-- An affine map `x ↦ a * x + b`; every unit formula of ladybug is one (proved per formula). -/
structure Aff where
  a : Rat
  b : Rat
  deriving DecidableEq, Repr, Inhabited

namespace Aff
def eval (f : Aff) (x : Rat) : Rat := f.a * x + f.b
/-- `comp g f = g ∘ f`. -/
def comp (g f : Aff) : Aff := ⟨g.a * f.a, g.a * f.b + g.b⟩
def idn : Aff := ⟨1, 0⟩
end Aff

/-- A range limit: Python's `float('-inf')`, a finite number, `float('+inf')`, or `nan`
    (`inf * 0`; every comparison with it is false). -/
inductive Bound where
  | negInf | fin (r : Rat) | posInf | nan
  deriving DecidableEq, Repr, Inhabited

inductive Err where
  | value   -- ValueError (unit not acceptable / out of range)
  | attr    -- AttributeError (a listed unit without its `_u_to_v` method)
  deriving DecidableEq, Repr

/-- One data type as the unit machinery sees it.  `toBase[i]` is `_<units[i]>_to_<base>`,
    `fromBase[i]` is `_<base>_to_<units[i]>`; the entry at `baseIdx` is a placeholder that the
    dispatch never calls (both legs are guarded by `== base_unit`).  `ipTarget[i]`/`siTarget[i]` are the
    indices of the units `to_ip`/`to_si` convert `units[i]` to (obtained by evaluating the real
    methods on every unit).  `strict` = `to_ip/to_si` reject units the type does not list
    (types whose `to_ip` is `return values, from_unit` accept anything). -/
structure UType where
  name : String
  parent : String
  units : List String
  siUnits : List String
  ipUnits : List String
  baseIdx : Nat
  toBase : List (Rat → Rat)
  fromBase : List (Rat → Rat)
  min : Bound
  max : Bound
  ipTarget : List Nat
  siTarget : List Nat
  strictIp : Bool
  strictSi : Bool
  /-- per formula: does it do arithmetic on `value` (false for the bare `return value`)?  Only used
      by the model of non-numeric values (`legRaw`): a bare `return value` lets a string through. -/
  toBaseArith : List Bool := []
  fromBaseArith : List Bool := []

/-- Position of the first occurrence of `u`. -/
def findIdx (u : String) : List String → Option Nat
  | [] => none
  | a :: as => if a = u then some 0 else (findIdx u as).map (· + 1)

/-- No unit string is listed twice. -/
def noDup : List String → Bool
  | [] => true
  | a :: as => !as.contains a && noDup as

namespace UType

def n (T : UType) : Nat := T.units.length

/-- `unit in self.units` resolved to its (first) position. -/
def idx? (T : UType) (u : String) : Option Nat := findIdx u T.units

/-- `is_unit_acceptable(unit, True)`. -/
def acceptable (T : UType) (u : String) : Bool := T.units.contains u

def base (T : UType) : String := T.units.getD T.baseIdx ""

/-- Value-level conversion between two *listed* units given by index: the composite the
    dispatch performs (leg 1 skipped when `i` is the base, leg 2 skipped when `j` is the base). -/
def convIdx (T : UType) (i j : Nat) (x : Rat) : Rat :=
  let y := if i = T.baseIdx then x else (T.toBase.getD i id) x
  if j = T.baseIdx then y else (T.fromBase.getD j id) y

/-- First leg of `_to_unit_base`: `if not from_unit == base_unit:` check the unit, map `_<from>_to_<base>`. -/
def legFrom (T : UType) (fromUnit : String) (values : List Rat) : Except Err (List Rat) :=
  if fromUnit = T.base then .ok values
  else match T.idx? fromUnit with
    | none => .error Err.value
    | some i => match T.toBase[i]? with
      | none => .error Err.attr
      | some f => .ok (values.map f)

/-- Second leg: `if not unit == base_unit:` check the unit, map `_<base>_to_<unit>`. -/
def legTo (T : UType) (unit : String) (values : List Rat) : Except Err (List Rat) :=
  if unit = T.base then .ok values
  else match T.idx? unit with
    | none => .error Err.value
    | some j => match T.fromBase[j]? with
      | none => .error Err.attr
      | some f => .ok (values.map f)

/-- `_to_unit_base(base, values, unit, from_unit)`: returns the converted list or the error the
    code raises (ValueError for a unit that is not listed). -/
def toUnit (T : UType) (values : List Rat) (unit fromUnit : String) : Except Err (List Rat) :=
  match T.legFrom fromUnit values with
  | .error e => .error e
  | .ok v1 => T.legTo unit v1

/-- Image of a limit under an affine unit formula, as IEEE arithmetic produces it for ±inf. -/
def convBound (f : Rat → Rat) (b : Bound) : Bound :=
  let slope := f 1 - f 0
  match b with
  | .fin r => .fin (f r)
  | .nan => .nan
  | .negInf => if 0 < slope then .negInf else if slope < 0 then .posInf else .nan
  | .posInf => if 0 < slope then .posInf else if slope < 0 then .negInf else .nan

def belowMin (x : Rat) : Bound → Bool
  | .fin r => x < r
  | .posInf => true
  | _ => false

def aboveMax (x : Rat) : Bound → Bool
  | .fin r => r < x
  | .negInf => true
  | _ => false

/-- The loop of `is_in_range`: no value below the lower or above the upper limit. -/
def rangeCheck (lo hi : Bound) (values : List Rat) : Bool :=
  values.all fun v => !(belowMin v lo || aboveMax v hi)

/-- `is_in_range(values, unit, raise_exception=False)`; `unit = none` is Python's `None`.
    `error value` = the unit is not listed.  (With `raise_exception=True` a `false` result is
    the ValueError instead; the driver prints that variant as well.)  For a unit other than
    `units[0]` both limits are converted with the formula `_<units[0]>_to_<unit>`. -/
def isInRange (T : UType) (values : List Rat) (unit : Option String) : Except Err Bool :=
  match unit with
  | none => .ok (rangeCheck T.min T.max values)
  | some u =>
    if u = T.units.getD 0 "" then .ok (rangeCheck T.min T.max values)
    else match T.idx? u with
      | none => .error Err.value
      | some j => match T.fromBase[j]? with
        | none => .error Err.attr
        | some f => .ok (rangeCheck (convBound f T.min) (convBound f T.max) values)

/-- `to_ip` / `to_si` through the regenerated target map. -/
def toSys (T : UType) (targets : List Nat) (strict : Bool) (values : List Rat) (fromUnit : String) :
    Except Err (List Rat × String) :=
  match T.idx? fromUnit with
  | none => if strict then .error Err.value else .ok (values, fromUnit)
  | some i =>
    match targets[i]? with
    | none => .error Err.attr
    | some j =>
      if j = i then .ok (values, fromUnit)
      else
        match T.toUnit values (T.units.getD j "") fromUnit with
        | .error e => .error e
        | .ok v => .ok (v, T.units.getD j "")

def toIp (T : UType) := T.toSys T.ipTarget T.strictIp
def toSi (T : UType) := T.toSys T.siTarget T.strictSi

end UType


/-! ### Certificates (checked by the kernel in the generated proof modules)

A certificate proposes, for one data type, the affine coefficients of every leg and the SI
definition of every listed unit.  `LegsOK` ties the coefficients to the regenerated formulas
(proved per formula by `ring`); `siOk`, `rtOk`, `targetsOk` are decidable checks over exact
rationals / the finite tables. -/

def rabs (x : Rat) : Rat := if x < 0 then -x else x

/-- `|x - ref| ≤ tol * |ref|`. -/
def closeTo (tol x ref : Rat) : Bool := decide (rabs (x - ref) ≤ tol * rabs ref)

/-- Pointwise agreement of a list of formulas with a list of affine maps. -/
def LegsMatch : List (Rat → Rat) → List Aff → Prop
  | [], [] => True
  | f :: fs, c :: cs => (∀ x, f x = c.eval x) ∧ LegsMatch fs cs
  | _, _ => False

structure Cert where
  T : UType
  cTo : List Aff
  cFrom : List Aff
  /-- `(unit, ⟨a, b⟩)`: a quantity of `x` units is `a * x + b` coherent SI units. -/
  si : List (String × Aff)

namespace UType

/-- Table sanity: the base unit is the first listed unit (the translator refuses anything else,
    because `is_in_range` converts from `units[0]`), one formula per unit and direction, one
    target per unit. -/
def wf (T : UType) : Bool :=
  T.baseIdx == 0 && decide (0 < T.n) && T.toBase.length == T.n
    && T.fromBase.length == T.n && T.ipTarget.length == T.n && T.siTarget.length == T.n
    && noDup T.units

/-- One target map lands in `sys`, is idempotent, and leaves units of `sys` alone. -/
def targetOk (T : UType) (targets : List Nat) (sys : List String) : Bool :=
  (List.range T.n).all fun i =>
    match targets[i]? with
    | some j => decide (j < T.n) && sys.contains (T.units.getD j "") && targets[j]? == some j
        && (!(sys.contains (T.units.getD i "")) || j == i)
    | none => false

def targetsOk (T : UType) : Bool :=
  T.targetOk T.ipTarget T.ipUnits && T.targetOk T.siTarget T.siUnits

end UType

namespace Cert

def n (c : Cert) : Nat := c.T.units.length

/-- Affine map of `to_unit(·, units[j], units[i])` according to the certificate. -/
def pair (c : Cert) (i j : Nat) : Aff :=
  let f := if i = c.T.baseIdx then Aff.idn else c.cTo.getD i Aff.idn
  let g := if j = c.T.baseIdx then Aff.idn else c.cFrom.getD j Aff.idn
  Aff.comp g f

def siOf (c : Cert) (i : Nat) : Aff := (c.si.getD i ("", Aff.idn)).2

/-- What the SI definitions say about converting unit `su` to unit `sv`:
    `x ↦ (su.a * x + su.b - sv.b) / sv.a`. -/
def siPair (su sv : Aff) : Aff := ⟨su.a / sv.a, (su.b - sv.b) / sv.a⟩

def LegsOK (c : Cert) : Prop :=
  c.T.wf = true ∧ LegsMatch c.T.toBase c.cTo ∧ LegsMatch c.T.fromBase c.cFrom

/-- Every ordered pair of listed units: code factor within 0.2 % of the SI factor, code offset
    within 0.2 % of the SI offset; the SI table names exactly the listed units, positive scales. -/
def siOk (c : Cert) : Bool :=
  c.si.map (·.1) == c.T.units && c.si.all (fun s => decide (0 < s.2.a)) &&
  (List.range c.n).all fun i => (List.range c.n).all fun j =>
    let p := c.pair i j
    let s := siPair (c.siOf i) (c.siOf j)
    closeTo (1 / 500) p.a s.a && closeTo (1 / 500) p.b s.b

/-- `r` is `x ↦ a * x` with `|a - 1| ≤ 2e-5`. -/
def nearId (r : Aff) : Bool := r.b == 0 && decide (rabs (r.a - 1) ≤ 1 / 50000)

/-- Every ordered pair: there-and-back is within 2e-5 of the identity, and so is converting
    to the unit already held. -/
def rtOk (c : Cert) : Bool :=
  (List.range c.n).all fun i => nearId (c.pair i i) &&
    (List.range c.n).all fun j => nearId (Aff.comp (c.pair j i) (c.pair i j))

def Valid (c : Cert) : Prop :=
  c.LegsOK ∧ c.siOk = true ∧ c.rtOk = true ∧ c.T.targetsOk = true

end Cert

/-- What the conversion methods of a data collection touch: the values, the header's unit label
    and the header's data type (kept as the type record); `immutable` = the collection is one of the
    `*Immutable` classes of datacollectionimmutable.py. -/
structure Coll where
  T : UType
  unit : String
  values : List Rat
  immutable : Bool := false

namespace Coll

/-- `Header.__init__`: the unit must be listed by the data type. -/
def headerOk (T : UType) (unit : String) : Bool := T.acceptable unit

/-- The conversion itself (what `convert_to_unit` does to a mutable collection): values and label
    are replaced together, data type and class stay; an error leaves everything. -/
def convUnit (c : Coll) (unit : String) : Except Err Coll :=
  match c.T.toUnit c.values unit c.unit with
  | .error e => .error e
  | .ok v => .ok { c with values := v, unit := unit }

def convIp (c : Coll) : Except Err Coll :=
  match c.T.toIp c.values c.unit with
  | .error e => .error e
  | .ok (v, u) => .ok { c with values := v, unit := u }

def convSi (c : Coll) : Except Err Coll :=
  match c.T.toSi c.values c.unit with
  | .error e => .error e
  | .ok (v, u) => .ok { c with values := v, unit := u }

/-- `convert_to_unit(unit)` (in place).  On an immutable collection it raises AttributeError before
    looking at the unit and changes nothing (`_ImmutableCollectionBase.convert_to_unit`). -/
def convertToUnit (c : Coll) (unit : String) : Except Err Coll :=
  if c.immutable then .error Err.attr else c.convUnit unit

def convertToIp (c : Coll) : Except Err Coll :=
  if c.immutable then .error Err.attr else c.convIp

def convertToSi (c : Coll) : Except Err Coll :=
  if c.immutable then .error Err.attr else c.convSi

/-- `to_unit(unit)` / `to_ip()` / `to_si()`: a converted *copy* of the same class (an immutable
    collection converts through a mutable copy and comes back immutable); the source is untouched
    (the model is functional: the source value simply persists). -/
def toUnitCopy (c : Coll) (unit : String) : Except Err Coll := c.convUnit unit
def toIpCopy (c : Coll) : Except Err Coll := c.convIp
def toSiCopy (c : Coll) : Except Err Coll := c.convSi

end Coll

/-! ### Area normalisation and time aggregation of collections (`_datacollectionbase.py`) -/

/-- The tables these methods consult (all regenerated from the source). -/
structure Reg where
  types : List UType
  normalized : List (String × String)
  timeAgg : List (String × String × Rat)
  ancestors : List (String × List String)
  baseNames : List String

inductive Err2 where
  | assert | zero | value | attr
  deriving DecidableEq, Repr

namespace Reg

def find (R : Reg) (name : String) : Option UType := R.types.find? (·.name = name)

def ancestorsOf (R : Reg) (name : String) : List String := (R.ancestors.lookup name).getD [name]

/-- Unit label after `normalize_by_area`: `u/a`, or `u-a` when `u` already has a `/`. -/
def normUnit (unit areaUnit : String) : String :=
  if unit.contains '/' then unit ++ "-" ++ areaUnit else unit ++ "/" ++ areaUnit

/-- Unit label after `aggregate_by_area`: drop `/a`, or `-a` when the part after the last `/` has a `-`. -/
def aggUnit (unit areaUnit : String) : String :=
  let last := (unit.splitOn "/").getLast?.getD ""
  if last.contains '-' then unit.replace ("-" ++ areaUnit) "" else unit.replace ("/" ++ areaUnit) ""

def liftErr : Err → Err2
  | .value => .value
  | .attr => .attr

/-- `normalize_by_area(area, area_unit)`. -/
def normalizeByArea (R : Reg) (c : Coll) (area : Rat) (areaUnit : String) : Except Err2 Coll :=
  match R.normalized.lookup c.T.name with
  | none => .error .assert
  | some nt =>
    if area = 0 then .error .zero
    else match R.find nt with
      | none => .error .attr
      | some T' =>
        let u := normUnit c.unit areaUnit
        if T'.acceptable u then .ok { c with T := T', unit := u, values := c.values.map (· / area) }
        else .error .value

/-- The class `aggregate_by_area` goes back to: the base type whose `_normalized_type` is exactly the class at
    hand, else the first base type (sorted) whose `_normalized_type` is an ancestor of it. -/
def aggTarget (R : Reg) (name : String) : Option String :=
  match R.baseNames.find? (fun b => R.normalized.lookup b == some name) with
  | some b => some b
  | none => R.baseNames.find? fun b =>
      match R.normalized.lookup b with
      | some nt => (R.ancestorsOf name).contains nt
      | none => false

/-- `aggregate_by_area(area, area_unit)`. -/
def aggregateByArea (R : Reg) (c : Coll) (area : Rat) (areaUnit : String) : Except Err2 Coll :=
  match R.aggTarget c.T.name with
  | none => .error .value
  | some b =>
    match R.find b with
    | none => .error .attr
    | some T' =>
      let u := aggUnit c.unit areaUnit
      if T'.acceptable u then .ok { c with T := T', unit := u, values := c.values.map (· * area) }
      else .error .value

/-- `_time_aggregated_collection(timestep)`: to the first unit, times `factor / timestep`, relabelled with the
    aggregated type and its first unit. -/
def timeAggregated (R : Reg) (c : Coll) (timestep : Rat) : Except Err2 Coll :=
  match R.timeAgg.lookup c.T.name with
  | none => .error .assert
  | some (tt, f) =>
    match c.toUnitCopy (c.T.units.getD 0 "") with
    | .error e => .error (liftErr e)
    | .ok c1 =>
      match R.find tt with
      | none => .error .attr
      | some T' => .ok { c1 with T := T', unit := T'.units.getD 0 "",
                                 values := c1.values.map (· * (f / timestep)) }

/-- The base type `_time_rate_of_change_collection` goes back to. -/
def rateTarget (R : Reg) (name : String) : Option (String × Rat) :=
  (R.baseNames.find? fun b =>
      match R.timeAgg.lookup b with
      | some (tt, _) => (R.ancestorsOf name).contains tt
      | none => false).bind fun b => (R.timeAgg.lookup b).map fun p => (b, p.2)

/-- `_time_rate_of_change_collection(timestep)`. -/
def timeRateOfChange (R : Reg) (c : Coll) (timestep : Rat) : Except Err2 Coll :=
  match R.rateTarget c.T.name with
  | none => .error .value
  | some (b, f) =>
    match c.toUnitCopy (c.T.units.getD 0 "") with
    | .error e => .error (liftErr e)
    | .ok c1 =>
      match R.find b with
      | none => .error .attr
      | some T' => .ok { c1 with T := T', unit := T'.units.getD 0 "",
                                 values := c1.values.map (· / (f / timestep)) }

end Reg

/-! ### `_is_numeric` and GenericType -/

inductive Err3 where
  | assert   -- AssertionError of `_is_numeric`
  | value | attr
  | type     -- TypeError: arithmetic on a non-number further down the list
  deriving DecidableEq, Repr

namespace UType

/-- `_is_numeric(values)`: only the first value is looked at (`none` = not a float/int). -/
def isNumeric (vs : List (Option Rat)) : Bool :=
  match vs with
  | [] => true
  | v :: _ => v.isSome

/-- One leg of `_to_unit_base` on values that may contain non-numbers. -/
def legRaw (T : UType) (fns : List (Rat → Rat)) (arith : List Bool) (u : String) (vs : List (Option Rat)) :
    Except Err3 (List (Option Rat)) :=
  if u = T.base then .ok vs
  else match T.idx? u with
    | none => .error .value
    | some i => match fns[i]? with
      | none => .error .attr
      | some f =>
        if vs.all Option.isSome || !(arith.getD i true) then .ok (vs.map (Option.map f)) else .error .type

/-- `_to_unit_base` including the `_is_numeric` assertion that precedes everything else. -/
def toUnitRaw (T : UType) (vs : List (Option Rat)) (unit fromUnit : String) : Except Err3 (List (Option Rat)) :=
  if !isNumeric vs then .error .assert
  else match T.legRaw T.toBase T.toBaseArith fromUnit vs with
    | .error e => .error e
    | .ok v1 => T.legRaw T.fromBase T.fromBaseArith unit v1

end UType

/-- `GenericType(name, unit, min, max)`: one unit, no conversion methods. -/
structure Generic where
  unit : String
  min : Bound
  max : Bound

inductive GErr where
  | notimpl   -- NotImplementedError (DataTypeBase.to_unit is not overridden)
  | value
  deriving DecidableEq, Repr

namespace Generic

/-- `to_unit` is the base-class stub: it raises whatever the units are (also for the unit held). -/
def toUnit (_g : Generic) (_values : List Rat) (_unit _fromUnit : String) : Except GErr (List Rat) :=
  .error .notimpl

/-- `to_ip` / `to_si`: values and unit are handed back untouched, whatever the unit. -/
def toSys (_g : Generic) (values : List Rat) (fromUnit : String) : List Rat × String := (values, fromUnit)

/-- `Header.__init__` / `is_unit_acceptable`: only the type's own unit. -/
def acceptable (g : Generic) (u : String) : Bool := u == g.unit

def isInRange (g : Generic) (values : List Rat) (unit : Option String) : Except GErr Bool :=
  match unit with
  | none => .ok (UType.rangeCheck g.min g.max values)
  | some u => if u = g.unit then .ok (UType.rangeCheck g.min g.max values) else .error .value

end Generic

end Units
