/-
  C06 (round 3) — object state machine for HISTORIES of collections.

  Two machines over the same operations:

    * `Hist.step`  — value level ("the specification"): a heap is a list of public states
      (`Units.Coll` = data type, unit label, values, mutable/immutable); every operation is a pure
      function of the public state of the object it is called on; objects do not influence each other.
    * `Hist.rstep` — reference level ("the code as it is"): a collection object holds a REFERENCE to a
      Header object (`Cell`: `_unit`, `_data_type`), in-place conversions write through that
      reference (`self._header._unit = unit`), and every method that makes a collection
      (`duplicate`, `to_immutable`, `to_mutable`, `to_unit/ip/si`, `normalize_by_area`, ...) allocates a
      fresh Header (`self.header.duplicate()`), as _datacollectionbase.py / datacollection.py /
      datacollectionimmutable.py do.  The driver runs `rstep`; `Props/C06.lean` proves that on heaps
      built by the operations it is observably the value-level machine (no object is affected by an
      operation on another one; a refused operation changes nothing).

  Operations (object index `i` into the heap):
    cu/ci/cs   convert_to_unit / convert_to_ip / convert_to_si   (in place; refused on immutable)
    tu/ti/ts   to_unit / to_ip / to_si                            (new object)
    dup/imm/mut  duplicate / to_immutable / to_mutable           (new object)
    set        coll[k] = x       (refused: immutable -> AttributeError, k out of range -> IndexError)
    vals       coll.values = xs  (refused: immutable -> AttributeError, wrong length -> AssertionError)
    norm/agg   normalize_by_area / aggregate_by_area              (new object or refused)
    tagg/trate to_time_aggregated / to_time_rate_of_change        (new object or refused)
    rng        is_in_data_type_range(raise_exception=False)       (a read)
  No Mathlib.
-/
import Ladybug.Model.Units

namespace Units
namespace Hist

inductive HErr where
  | value | attr | assert | zero | index
  deriving DecidableEq, Repr

def ofErr : Err → HErr
  | .value => .value
  | .attr => .attr

def ofErr2 : Err2 → HErr
  | .assert => .assert
  | .zero => .zero
  | .value => .value
  | .attr => .attr

inductive Op where
  | cu (i : Nat) (u : String) | ci (i : Nat) | cs (i : Nat)
  | tu (i : Nat) (u : String) | ti (i : Nat) | ts (i : Nat)
  | dup (i : Nat) | imm (i : Nat) | mut (i : Nat)
  | set (i k : Nat) (x : Rat) | vals (i : Nat) (xs : List Rat)
  | norm (i : Nat) (area : Rat) (au : String) | agg (i : Nat) (area : Rat) (au : String)
  | tagg (i : Nat) (step : Rat) | trate (i : Nat) (step : Rat)
  | rng (i : Nat)

/-- The object an operation is called on. -/
def Op.target : Op → Nat
  | .cu i _ | .ci i | .cs i | .tu i _ | .ti i | .ts i | .dup i | .imm i | .mut i
  | .set i _ _ | .vals i _ | .norm i _ _ | .agg i _ _ | .tagg i _ | .trate i _ | .rng i => i

/-- Is the operation a pure read (never changes any object, makes no object)? -/
def Op.isRead : Op → Bool
  | .rng _ => true
  | _ => false

/-- What an operation does, as a function of the PUBLIC STATE of the object it is called on. -/
inductive Act where
  | upd (c : Coll)      -- the object itself now has this public state (in-place operation)
  | new (c : Coll)      -- a new object with this public state is returned
  | obs (b : Bool)      -- an observation
  | refuse (e : HErr)   -- the operation raises

def lift (r : Except Err Coll) (k : Coll → Act) : Act :=
  match r with
  | .ok c => k c
  | .error e => .refuse (ofErr e)

def lift2 (r : Except Err2 Coll) (k : Coll → Act) : Act :=
  match r with
  | .ok c => k c
  | .error e => .refuse (ofErr2 e)

def act (R : Reg) (c : Coll) : Op → Act
  | .cu _ u => lift (c.convertToUnit u) .upd
  | .ci _ => lift c.convertToIp .upd
  | .cs _ => lift c.convertToSi .upd
  | .tu _ u => lift (c.toUnitCopy u) .new
  | .ti _ => lift c.toIpCopy .new
  | .ts _ => lift c.toSiCopy .new
  | .dup _ => .new c
  | .imm _ => .new { c with immutable := true }
  | .mut _ => .new { c with immutable := false }
  | .set _ k x =>
    if c.immutable then .refuse .attr
    else if k < c.values.length then .upd { c with values := c.values.set k x }
    else .refuse .index
  | .vals _ xs =>
    if c.immutable then .refuse .attr
    else if xs.length = c.values.length then .upd { c with values := xs }
    else .refuse .assert
  | .norm _ a au => lift2 (R.normalizeByArea c a au) .new
  | .agg _ a au => lift2 (R.aggregateByArea c a au) .new
  | .tagg _ s => lift2 (R.timeAggregated c s) .new
  | .trate _ s => lift2 (R.timeRateOfChange c s) .new
  | .rng _ =>
    match c.T.isInRange c.values (some c.unit) with
    | .ok b => .obs b
    | .error e => .refuse (ofErr e)

inductive Out where
  | done | made (k : Nat) | flag (b : Bool) | err (e : HErr)
  deriving DecidableEq, Repr

/-! ### value level -/

def step (R : Reg) (h : List Coll) (op : Op) : List Coll × Out :=
  match h[op.target]? with
  | none => (h, .err .index)
  | some c =>
    match act R c op with
    | .upd c' => (h.set op.target c', .done)
    | .new c' => (h ++ [c'], .made h.length)
    | .obs b => (h, .flag b)
    | .refuse e => (h, .err e)

def run (R : Reg) (h : List Coll) : List Op → List Coll × List Out
  | [] => (h, [])
  | op :: ops =>
    let r := step R h op
    let rest := run R r.1 ops
    (rest.1, r.2 :: rest.2)

/-! ### reference level -/

/-- A Header object: what the conversions read and write through `self._header`. -/
structure Cell where
  T : UType
  unit : String

/-- A collection object: a reference to its Header, its values, its class (mutable or not). -/
structure RObj where
  hdr : Nat
  values : List Rat
  imm : Bool

structure RHeap where
  cells : List Cell
  objs : List RObj

def emptyT : UType :=
  { name := "", parent := "", units := [], siUnits := [], ipUnits := [], baseIdx := 0, toBase := [],
    fromBase := [], min := .negInf, max := .posInf, ipTarget := [], siTarget := [], strictIp := false,
    strictSi := false }

/-- The public state of an object: what the user reads through `header.data_type`, `header.unit`,
    `values`, and the class. -/
def view (cells : List Cell) (o : RObj) : Coll :=
  match cells[o.hdr]? with
  | some cell => { T := cell.T, unit := cell.unit, values := o.values, immutable := o.imm }
  | none => { T := emptyT, unit := "", values := o.values, immutable := o.imm }

def RHeap.abs (h : RHeap) : List Coll := h.objs.map (view h.cells)

/-- A fresh heap holding the objects with the given public states, each with a Header of its own. -/
def RHeap.fresh (cs : List Coll) : RHeap :=
  { cells := cs.map fun c => ⟨c.T, c.unit⟩,
    objs := (List.range cs.length).zipWith (fun k c => ⟨k, c.values, c.immutable⟩) cs }

def rstep (R : Reg) (h : RHeap) (op : Op) : RHeap × Out :=
  match h.objs[op.target]? with
  | none => (h, .err .index)
  | some o =>
    match act R (view h.cells o) op with
    | .upd c' =>
      -- in place: write the values into the object, unit (and type) through the header reference
      ({ cells := h.cells.set o.hdr ⟨c'.T, c'.unit⟩,
         objs := h.objs.set op.target { o with values := c'.values, imm := c'.immutable } }, .done)
    | .new c' =>
      -- a new collection with a header of its own (`header.duplicate()` / `Header(...)`)
      ({ cells := h.cells ++ [⟨c'.T, c'.unit⟩],
         objs := h.objs ++ [⟨h.cells.length, c'.values, c'.immutable⟩] }, .made h.objs.length)
    | .obs b => (h, .flag b)
    | .refuse e => (h, .err e)

def rrun (R : Reg) (h : RHeap) : List Op → RHeap × List Out
  | [] => (h, [])
  | op :: ops =>
    let r := rstep R h op
    let rest := rrun R r.1 ops
    (rest.1, r.2 :: rest.2)

/-- Heaps built by the operations: object `k` holds Header `k` (every constructor allocates one). -/
def RHeap.Inv (h : RHeap) : Prop :=
  h.cells.length = h.objs.length ∧ ∀ (k : Nat) (o : RObj), h.objs[k]? = some o → o.hdr = k

end Hist
end Units
