/-
  C05 round 4: the two rarely taken paths of `calculate_sun_from_date_time` that Model/Sun.lean leaves out.

  * a NATIVE Python `datetime.datetime` (any year) instead of a ladybug `DateTime`: the `except AttributeError`
    branch (`hour = datetime.hour + datetime.minute / 60.0`), the general-year branch of `_days_from_010119`, and the
    conversion `datetime.year != 2016 and self.is_leap_year -> DateTime(month, day, hour, minute, True)`;
  * a daylight-saving hour (`hour = hour - 1 if is_daylight_saving else hour`), which is also the only way the
    `sol_time < 0` arm of the hour-angle line is reached through the public API (solar-time flag, first clock hour).

  `sunOfInstant` is the common generalisation (explicit year, explicit daylight-saving flag); `sunOfDT` of
  Model/Sun.lean is its instance year = 2016/2017 by the leap flag, dst = false (`sunOfDT_eq_instant`, by `rfl`).
  Whether a date-time IS a daylight-saving hour belongs to C11 (`is_daylight_saving_hour`); here the flag is an input
  (the harness derives it from the period's start / end minute of the year with stdlib arithmetic).
  No Mathlib.
-/
import Ladybug.Model.Sun

namespace Sun

section Generic

variable {α : Type} [Add α] [Sub α] [Mul α] [Div α] [Neg α] [OfScientific α] [LT α] [LE α]
  [DecidableLT α] [DecidableLE α] [Transc α]

/-- The float hour the position is computed for: the clock reading, one hour earlier in a daylight-saving hour. -/
def clockHour (ofN : Nat → α) (hour minute : Nat) (dst : Bool) : α :=
  let h := ofN hour + ofN minute / 60.0
  if dst then h - 1.0 else h

/-- `calculate_sun_from_date_time` for a date-time of an explicit `year`, with the daylight-saving flag `dst`
    (the date-time `d` is the one the Sun object is labelled with; its `leap` field is not used here). -/
def sunOfInstant (ofN : Nat → α) (c : Cfg α) (year : Nat) (d : Cal.DT) (isSolar dst : Bool) :
    Except SErr (SunOut α) :=
  let latRad := latitudeRad c.lat
  let lonRad := rad c.lon
  let tz := timeZoneOf lonRad c.tz
  let days := ofN (daysFrom010119 year d.month d.day)
  let frac := ofN (dayFracHundredths (d.minute + d.hour * 60)) / 100.0
  let jd := julianDay days frac tz
  let hour := clockHour ofN d.hour d.minute dst
  let p := position latRad lonRad tz hour jd isSolar
  mkSun d p.1 p.2 (deg (rad c.north))

/-- The year the code computes with: a ladybug DateTime's year (2016 leap / 2017), or 2016 for EVERY date-time handed
    to a leap-year sunpath. -/
def yearUsed (spLeap : Bool) (year : Nat) : Nat := if spLeap && year != 2016 then 2016 else year

/-- A native `datetime.datetime(year, month, day, hour, minute)` handed to `calculate_sun_from_date_time`.
    The label's `leap` field says whether the date-time the Sun carries belongs to a leap year. -/
def sunOfNative (ofN : Nat → α) (c : Cfg α) (year month day hour minute : Nat) (isSolar dst : Bool) :
    Except SErr (SunOut α) :=
  let y := yearUsed c.leap year
  sunOfInstant ofN c y ⟨month, day, hour, minute, isLeapYear y⟩ isSolar dst

/-- A ladybug `DateTime` in a daylight-saving hour (or not). -/
def sunOfDTDst (ofN : Nat → α) (c : Cfg α) (d : Cal.DT) (isSolar dst : Bool) : Except SErr (SunOut α) :=
  let leap := d.leap || c.leap
  sunOfInstant ofN c (if leap then 2016 else 2017) { d with leap := leap } isSolar dst

/-- Without daylight saving this is the `sunOfDT` of Model/Sun.lean. -/
theorem sunOfDT_eq_instant (ofN : Nat → α) (c : Cfg α) (d : Cal.DT) (s : Bool) :
    sunOfDT ofN c d s = sunOfDTDst ofN c d s false := rfl

/-- `Sunpath.is_daylight_saving_hour` on minutes of the year (period start `st`, end `en`; reversed when the period
    wraps the year end).  Only used by the harness-side expectation of the driver op; C11 owns the real thing. -/
def dstHour (st en moy : Nat) : Bool :=
  if en < st then decide (st ≤ moy) || decide (moy < en) else decide (st ≤ moy) && decide (moy < en)

end Generic

#guard yearUsed true 2021 = 2016
#guard yearUsed true 2016 = 2016
#guard yearUsed false 2021 = 2021
#guard dstHour 100 200 150 = true
#guard dstHour 100 200 200 = false
#guard dstHour 200 100 50 = true
#guard dstHour 200 100 150 = false

end Sun
