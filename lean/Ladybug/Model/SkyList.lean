/-
  C10, round 4 — the LIST level of the list-taking sky models (`ashrae_clear_sky`,
  `ashrae_revised_clear_sky`, `ASHRAEClearSky.radiation_values`, `ASHRAETau.radiation_values`).

  The Python functions walk ONCE over `altitudes` (any iterable) and append one value per altitude to
  each result list; an exception raised for an element aborts the call.  `mapE` is that loop.  The
  model takes lists: the harness feeds the real functions the same numbers as list, tuple, deque,
  array, list subclass, generator, iterator, map, reversed, filter (ops `cs_shape`, `rcs_shape`,
  `csl`, `rcsl`, `ddcsl`, `ddtaul` of drv_c10; oracle op `shapes`).  No Mathlib.
-/
import Ladybug.Model.Sky

namespace Sky

/-- One pass over the elements, first failing element aborts (a Python `for` loop appending results). -/
def mapE {α β : Type} (f : α → Except Err β) : List α → Except Err (List β)
  | [] => .ok []
  | x :: xs =>
    match f x with
    | .error e => .error e
    | .ok y =>
      match mapE f xs with
      | .error e => .error e
      | .ok ys => .ok (y :: ys)

/-- Two result lists built in one pass (`dir_norm_rad`, `dif_horiz_rad`). -/
def pairList {α : Type} (f : α → Except Err (α × α)) (alts : List α) : Except Err (List α × List α) :=
  match mapE f alts with
  | .ok rs => .ok (rs.map Prod.fst, rs.map (fun r => r.2))
  | .error e => .error e

/-- The answers for two parts of a sequence joined list by list (an error of the first part wins). -/
def joinPairs {α : Type} (a b : Except Err (List α × List α)) : Except Err (List α × List α) :=
  match a with
  | .error e => .error e
  | .ok a =>
    match b with
    | .error e => .error e
    | .ok b => .ok (a.1 ++ b.1, a.2 ++ b.2)

/-- Three result lists (`dir_norm`, `diff_horiz`, `glob_horiz`) of a sky condition. -/
def tripleList {α : Type} (f : α → Except Err (α × α × α)) (alts : List α) :
    Except Err (List α × List α × List α) :=
  match mapE f alts with
  | .ok rs => .ok (rs.map (fun r => r.1), rs.map (fun r => r.2.1), rs.map (fun r => r.2.2))
  | .error e => .error e

section Generic

variable {α : Type} [Add α] [Sub α] [Mul α] [Div α] [Neg α] [OfScientific α]
  [LT α] [LE α] [DecidableLT α] [DecidableLE α] [Transc α]

/-- `ashrae_clear_sky(altitudes, month, sky_clearness)` -> (dir_norm_rad, dif_horiz_rad). -/
def clearSkyList (alts : List α) (month : Int) (clearness : α) : Except Err (List α × List α) :=
  pairList (fun a => clearSky1 a month clearness) alts

/-- `ashrae_revised_clear_sky(altitudes, tb, td, use_2017_model)`. -/
def revisedClearSkyList (alts : List α) (tb td : α) (use2017 : Bool) : Except Err (List α × List α) :=
  pairList (fun a => revisedClearSky1 a tb td use2017) alts

/-- `ASHRAEClearSky.radiation_values` on the altitudes of the design day. -/
def designDayClearSkyList (alts : List α) (month : Int) (clearness : α) :
    Except Err (List α × List α × List α) :=
  tripleList (fun a => designDayClearSky1 a month clearness) alts

/-- `ASHRAETau.radiation_values` on the altitudes of the design day. -/
def designDayTauList (alts : List α) (tb td : α) (use2017 : Bool) :
    Except Err (List α × List α × List α) :=
  tripleList (fun a => designDayTau1 a tb td use2017) alts

end Generic

#guard (match clearSkyList [(-5.0 : Float), 30.0, 0.0, 60.0] 6 1.0 with
  | .ok (dn, dh) => dn.length == 4 && dh.length == 4 && dn[0]! == 0.0 && dn[1]! > 0.0 && dh[2]! == 0.0
  | _ => false)
#guard (match clearSkyList [(-5.0 : Float), 30.0] 13 1.0 with | .error .index => true | _ => false)
#guard (match clearSkyList [(-5.0 : Float)] 13 1.0 with | .ok _ => true | _ => false)  -- table only read by day
#guard (match designDayTauList [(45.0 : Float), -1.0] 0.4 2.0 false with
  | .ok (dn, dh, gh) => (gh[0]! - (dh[0]! + dn[0]! * Float.sin (45.0 * (3.141592653589793 / 180.0)))).abs < 1e-9
      && gh[1]! == 0.0
  | _ => false)

end Sky
