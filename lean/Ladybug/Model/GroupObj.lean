/-
  Object state machine of the hourly / daily data collections (C03, round 3).  No Mathlib.

  `Obj` is the collection AS THE CODE STORES IT: class, mutability, header period, `_values`, and the
  `_datetimes` slot — which a continuous collection fills lazily on the first read that needs it
  (`HourlyContinuousCollection.datetimes`), and which `convert_to_culled_timestep` overwrites.
  `Pub` is the PUBLIC STATE the user has established (no hidden slot); `Pub.fresh` builds the object a
  constructor call would give.  `Obj.step` interprets one operation:

    reads     group_by_day/_month/_month_per_hour, average_/total_/percentile_ daily|monthly|monthly_per_hour,
              percentile, median, min/max, average, total, highest_values, lowest_values, datetimes,
              to_discontinuous().group_by_*  (`twin`)
    mutators  `values = …`, `coll[i] = v`, `convert_to_culled_timestep(ts)`
              — refused ones (wrong length, index out of range, invalid timestep, immutable twin) return
                the UNCHANGED object and the error class.

  Built on the pure functions of Model/Group.lean and Model/Stats.lean.  Compared step by step with the
  real classes by the `hist` op of Drv/C03.lean.  Theorems: Props/C03.lean (`C03_history_refines_fresh`,
  `C03_refused_preserves`, `C03_read_pure`).
-/
import Ladybug.Model.Group
import Ladybug.Model.Stats

open Cal

namespace Grp

inductive Kind where
  | cont | disc | daily
deriving DecidableEq, Repr

/-- Error class of a refused operation. -/
inductive Refusal where
  | assert | index | attr
deriving DecidableEq, Repr

inductive By where
  | day | month | mph
deriving DecidableEq, Repr

/-- `analysis_period.datetimes` as a plain list. -/
def contDts (ap : AP) : List DT := ap.moys.filterMap fun (m : Nat) => (fromMoy ap.leap (m : Int)).toOption

/-- The collection as stored. -/
structure Obj where
  kind : Kind
  imm : Bool
  ap : AP
  vals : List Rat
  /-- `_datetimes` of an hourly collection; `none` = not computed yet (continuous collections only). -/
  dts : Option (List DT)
  /-- `_datetimes` of a daily collection (day numbers). -/
  doys : List Nat
deriving Repr

/-- The public state: what the user has established through the public API. -/
structure Pub where
  kind : Kind
  imm : Bool
  ap : AP
  vals : List Rat
  /-- datetimes handed to a discontinuous constructor (`[]` for the other classes) -/
  stamps : List DT
  doys : List Nat
deriving Repr

/-- `self.datetimes`: the slot, or – for a continuous collection that has not computed it – the
    datetimes of the header period. -/
def Obj.datetimes (o : Obj) : List DT :=
  match o.dts with
  | some d => d
  | none => contDts o.ap

/-- The constructor call: a continuous collection starts with an empty slot. -/
def Pub.fresh (p : Pub) : Obj :=
  { kind := p.kind, imm := p.imm, ap := p.ap, vals := p.vals, doys := p.doys,
    dts := if p.kind = .cont then none else some p.stamps }

def Obj.pub (o : Obj) : Pub :=
  { kind := o.kind, imm := o.imm, ap := o.ap, vals := o.vals, doys := o.doys,
    stamps := if o.kind = .cont then [] else o.datetimes }

/-! ### Reads -/

inductive Read where
  | group (b : By)
  | stat (iv : Interval) (op : Stats.Op)
  | pct (p : Rat)
  | median | minmax | avg | total
  | highest (c : Int) | lowest (c : Int)
  | dts
  | twin (b : By)
deriving Repr

inductive Out where
  | dictNat (r : Except Err (Dict Nat Rat))
  | dictMph (r : Except Err (Dict (Nat × Nat × Nat) Rat))
  | statNat (ts : Nat) (r : Except Err (List (Nat × Rat)))
  | statMph (ts : Nat) (r : Except Err (List ((Nat × Nat × Nat) × Rat)))
  | num (r : Except Err Rat)
  | two (r : Except Err (Rat × Rat))
  | hl (r : Except Err (List Rat × List Nat))
  | stamps (l : List DT)
  | days (l : List Nat)
  | done
  | refused (e : Refusal)
  | unsupported
deriving Repr

/-- The three group dictionaries as the class computes them: slices for a continuous collection
    (day, month), the keyed algorithm on `ds` otherwise. -/
def dayGroups (k : Kind) (ap : AP) (vals : List Rat) (ds : List DT) : Except Err (Dict Nat Rat) :=
  match k with
  | .cont => .ok (contDay ap vals)
  | _ => discDay ap (ds.zip vals)

def monthGroups (k : Kind) (ap : AP) (vals : List Rat) (ds : List DT) (doys : List Nat) :
    Except Err (Dict Nat Rat) :=
  match k with
  | .cont => contMonth ap vals
  | .disc => discMonth (ds.zip vals)
  | .daily => dailyMonth ap.leap (doys.zip vals)

def mphGroups (ap : AP) (vals : List Rat) (ds : List DT) : Except Err (Dict (Nat × Nat × Nat) Rat) :=
  discMph ap (ds.zip vals)

/-- The answer of a read as a function of class, period, values and the datetimes in use. -/
def observe (k : Kind) (ap : AP) (vals : List Rat) (ds : List DT) (doys : List Nat) : Read → Out
  | .group .day => if k = .daily then .unsupported else .dictNat (dayGroups k ap vals ds)
  | .group .month => .dictNat (monthGroups k ap vals ds doys)
  | .group .mph => if k = .daily then .unsupported else .dictMph (mphGroups ap vals ds)
  | .stat iv op =>
    if op.admissible = false then .refused .assert
    else match k, iv with
      | .daily, .monthly =>
        .statNat ap.timestep ((monthGroups k ap vals ds doys).bind fun d => intervalOp d ap.monthsInt op.apply)
      | .daily, _ => .unsupported
      | _, .daily =>
        .statNat (resultTimestep ap .daily) ((dayGroups k ap vals ds).bind fun d => intervalOp d ap.doysInt op.apply)
      | _, .monthly =>
        .statNat (resultTimestep ap .monthly)
          ((monthGroups k ap vals ds doys).bind fun d => intervalOp d ap.monthsInt op.apply)
      | _, .monthlyPerHour =>
        .statMph (resultTimestep ap .monthlyPerHour)
          ((mphGroups ap vals ds).bind fun d => intervalOp d ap.monthsPerHour op.apply)
  | .pct p => if 0 ≤ p ∧ p ≤ 100 then .num (Stats.percentile vals p) else .refused .assert
  | .median => .num (Stats.median vals)
  | .minmax => .two (match Stats.minV vals, Stats.maxV vals with
      | .ok a, .ok b => .ok (a, b)
      | _, _ => .error .value)
  | .avg => .num (Stats.average vals)
  | .total => .num (.ok (Stats.total vals))
  | .highest c =>
    if 1 ≤ c ∧ c ≤ vals.length then .hl (Stats.highestValues vals c) else .refused .assert
  | .lowest c =>
    if 1 ≤ c ∧ c ≤ vals.length then .hl (Stats.lowestValues vals c) else .refused .assert
  | .dts => if k = .daily then .days doys else .stamps ds
  | .twin .day => if k = .daily then .unsupported else .dictNat (discDay ap (ds.zip vals))
  | .twin .month => if k = .daily then .unsupported else .dictNat (discMonth (ds.zip vals))
  | .twin .mph => if k = .daily then .unsupported else .dictMph (discMph ap (ds.zip vals))

/-- Does this read go through `self.datetimes` (and so fill the slot of a continuous collection)? -/
def Read.needsDts : Read → Bool
  | .group .mph => true
  | .stat .monthlyPerHour _ => true
  | .dts => true
  | .twin _ => true
  | _ => false

/-- `if self._datetimes is None: self._datetimes = self.header.analysis_period.datetimes`. -/
def Obj.touch (o : Obj) : Obj :=
  match o.dts with
  | some _ => o
  | none => { o with dts := some (contDts o.ap) }

/-- One read: fills the slot when the code path goes through `self.datetimes`, then answers from
    what is stored. -/
def Obj.read (o : Obj) (r : Read) : Obj × Out :=
  let o' := if r.needsDts && o.kind != .daily then o.touch else o
  (o', observe o'.kind o'.ap o'.vals o'.datetimes o'.doys r)

/-! ### Mutators -/

inductive Mut where
  /-- `coll.values = v` (`none`: not a list/tuple) -/
  | setvals (v : Option (List Rat))
  /-- `coll[i] = v` -/
  | setitem (i : Int) (v : Rat)
  /-- `coll.convert_to_culled_timestep(ts)` -/
  | cull (ts : Int)
deriving Repr

/-- Positions kept by `_timestep_cull`: datetimes with `moy % (60 / ts) == 0`. -/
def cullKeep (ts : Nat) (d : DT) : Bool := d.moy % (60 / ts) = 0

def cullDts (ts : Nat) (ds : List DT) : List DT := ds.filter (cullKeep ts)

def cullVals (ts : Nat) (ds : List DT) (vals : List Rat) : List Rat :=
  ((ds.zip vals).filter fun p => cullKeep ts p.1).map (·.2)

/-- Number of items the `values` setter expects. -/
def Obj.expectedLen (o : Obj) : Nat :=
  match o.kind with
  | .cont => o.ap.len
  | .disc => o.datetimes.length
  | .daily => o.doys.length

def Obj.mutate (o : Obj) (m : Mut) : Obj × Out :=
  if o.imm then (o, .refused .attr)
  else match m with
    | .setvals none => (o, .refused .assert)
    | .setvals (some v) =>
      if v.length = o.expectedLen ∧ (o.kind = .cont ∨ v ≠ []) then ({ o with vals := v }, .done)
      else (o, .refused .assert)
    | .setitem i v =>
      let n : Int := o.vals.length
      let j := if i < 0 then i + n else i
      if 0 ≤ j ∧ j < n then ({ o with vals := o.vals.set j.toNat v }, .done)
      else (o, .refused .index)
    | .cull ts =>
      if o.kind = .daily then (o, .refused .attr)
      else if 0 ≤ ts ∧ ts.toNat ∈ Gen.Ap.validTimesteps then
        -- HourlyContinuousCollection.convert_to_culled_timestep (fix 2b7dc5a): the target timestep must
        -- divide the current one (`assert current % target == 0`), else the call is refused
        if o.kind = .cont ∧ o.ap.timestep % ts.toNat ≠ 0 then (o, .refused .assert) else
        let ds := o.datetimes
        ({ o with ap := { o.ap with timestep := ts.toNat }, vals := cullVals ts.toNat ds o.vals,
                  dts := some (cullDts ts.toNat ds) }, .done)
      else (o, .refused .assert)

inductive Op where
  | read (r : Read)
  | mut (m : Mut)
deriving Repr

def Obj.step (o : Obj) : Op → Obj × Out
  | .read r => o.read r
  | .mut m => o.mutate m

/-- A history: the final object and the outputs of all steps. -/
def Obj.run (o : Obj) : List Op → Obj × List Out
  | [] => (o, [])
  | op :: rest =>
    let (o1, out) := o.step op
    let (o2, outs) := o1.run rest
    (o2, out :: outs)

/-- The final object of a history. -/
def Obj.after (o : Obj) (ops : List Op) : Obj := ops.foldl (fun o op => (o.step op).1) o

/-! ### Unit tests -/

private def o0 : Obj :=
  (Pub.fresh { kind := .cont, imm := false, ap := ⟨6, 21, 0, 6, 21, 23, 2, false⟩,
               vals := (List.range 48).map (fun (n : Nat) => ((n : Int) : Rat)), stamps := [], doys := [] })

#guard o0.dts.isNone ∧ (o0.read (.group .mph)).1.dts.isSome ∧ (o0.read (.group .day)).1.dts.isNone
#guard ((o0.mutate (.cull 1)).1.vals.length = 24) ∧ ((o0.mutate (.cull 1)).1.ap.timestep = 1)
#guard (o0.mutate (.cull 1)).1.datetimes = contDts ⟨6, 21, 0, 6, 21, 23, 1, false⟩
#guard (o0.mutate (.cull 7)).1.vals.length = 48
#guard ((o0.mutate (.cull 4)).1.vals.length = 48) ∧ ((o0.mutate (.cull 4)).1.ap.timestep = 2)   -- 4 does not divide 2: refused
#guard ((o0.mutate (.setitem (-1) 5)).1.vals.getD 47 0 = 5) ∧ ((o0.mutate (.setitem 48 5)).1.vals = o0.vals)

end Grp
