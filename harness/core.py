"""Core of the check harness (DESIGN.md section 2.1).

One check run = extract -> build -> audit -> correspondence -> oracle -> known findings -> verdict.
Property modules live in harness/props/cXX.py and implement the small interface documented in
harness/props/README.md.  Everything random derives from VERIF_SEED.
"""
import fcntl
import json
import os
import random
import re
import subprocess
import sys
import time
import traceback

HERE = os.path.dirname(os.path.abspath(__file__))
ROOT = os.path.normpath(os.path.join(HERE, '..'))
LEAN_DIR = os.environ.get('VERIF_LEAN_DIR') or os.path.join(ROOT, 'lean')
REPO = os.environ.get('LADYBUG_REPO', '/repo')
EVIDENCE_DIR = os.environ.get('VERIF_EVIDENCE_DIR') or os.path.join(ROOT, 'evidence')
REPLAY_DIR = os.path.join(ROOT, 'replays')
KNOWN_FINDINGS = os.path.join(ROOT, 'known_findings.json')

ALLOWED_AXIOMS = {'propext', 'Classical.choice', 'Quot.sound'}
FORBIDDEN = re.compile(
    r'\bsorry\b|\badmit\b|^\s*axiom\s|\bnative_decide\b|\bbv_decide\b|implemented_by|'
    r'\bunsafe\s|maxHeartbeats\s+0\b|@\[extern', re.M)

BASE_TRUSTED = [
    'Lean 4.33.0 kernel (lake build; leanchecker re-check in the thorough tier)',
    'axioms allowed: propext, Classical.choice, Quot.sound (audited per theorem with #print axioms '
    'on every run; no sorry/admit/native_decide/bv_decide/user axioms: source grep on every run)',
    'correspondence check: the hand-written model agrees with the implementation on the generated '
    'inputs of this run only (generator distribution recorded in coverage.input_distribution)',
    'IEEE-754 float arithmetic vs exact rationals/reals is not proved (DESIGN.md section 4)',
]


class MachineryError(Exception):
    """The check itself is broken (exit 2, never a verdict)."""


sys.path.insert(0, ROOT)
from tools.extract.common import ExtractError  # noqa: E402  (tie broken: translator)


# --------------------------------------------------------------------------------------------
# context


class Ctx(object):
    def __init__(self, prop, tier, seed):
        self.prop = prop
        self.tier = tier
        self.seed = seed
        self.rng = random.Random(seed * 1000003 + sum(ord(c) for c in prop))
        self.t0 = time.time()
        self.counters = {}          # free-form measured counters (input distribution)
        self.evaluations = 0
        self.distinct = set()       # distinct non-trivial case keys
        self.samples = []
        self.broken = []            # tie breaks: dicts {kind, what, detail}
        self.failures = []          # oracle failures (candidate violations)
        self.disagreements = []     # model/impl disagreements (shrunk where possible)
        self.compared = 0           # model/impl comparisons performed
        self.subclaims = {}         # sampled sub-claims: name -> {evaluations, failures}
        self.notes = []
        self.theorems = []
        self.discharged = []
        self.checker_cmds = []
        self.driver_ok = False
        self.proofs_ok = False
        self.searching = False      # True when a tie broke and the oracle is run as a search

    # -- bookkeeping used by property modules
    @property
    def quick(self):
        return self.tier == 'quick'

    def n(self, quick, thorough):
        """Pick a case count by tier."""
        return quick if self.tier == 'quick' else thorough

    def count(self, key, k=1):
        self.counters[key] = self.counters.get(key, 0) + k

    def case(self, key, nontrivial=True):
        """Record one evaluated case; `key` identifies it for the distinct count."""
        self.evaluations += 1
        if nontrivial:
            self.distinct.add(key if isinstance(key, (str, int, tuple)) else json.dumps(key, sort_keys=True))

    def sample(self, obj, limit=8):
        if len(self.samples) < limit:
            self.samples.append(obj)

    def subclaim(self, name, ok):
        d = self.subclaims.setdefault(name, {'evaluations': 0, 'failures': 0})
        d['evaluations'] += 1
        if not ok:
            d['failures'] += 1

    def elapsed(self):
        return time.time() - self.t0

    def disagree(self, op, inp, model, impl):
        """Model and implementation differ on `inp` (tie broken: correspondence)."""
        if len(self.disagreements) < 50:
            self.disagreements.append({'op': op, 'input': inp, 'model': model, 'impl': impl})

    def fail(self, op, inp, required, observed, sig=None):
        """The implementation violates the property on `inp` (candidate violation)."""
        if len(self.failures) < 200:
            s = {'op': op}
            s.update(sig or {})
            self.failures.append({'op': op, 'input': inp, 'required': required,
                                  'observed': observed, 'sig': s})

    def driver(self, name=None):
        return Driver(name or ('drv_' + self.prop.lower()))


# --------------------------------------------------------------------------------------------
# model driver


class Driver(object):
    """Runs the compiled Lean model driver on a batch of request lines."""

    def __init__(self, exe):
        self.exe = os.path.join(LEAN_DIR, '.lake', 'build', 'bin', exe)

    def run(self, lines):
        if not lines:
            return []
        if not os.path.exists(self.exe):
            raise MachineryError('model driver %s not built' % self.exe)
        data = '\n'.join(lines) + '\n'
        p = subprocess.run([self.exe], input=data.encode('utf-8'), stdout=subprocess.PIPE,
                           stderr=subprocess.PIPE, timeout=3600)
        if p.returncode != 0:
            raise MachineryError('model driver failed: %s' % p.stderr.decode('utf-8', 'replace')[-2000:])
        out = p.stdout.decode('utf-8').split('\n')
        if out and out[-1] == '':
            out.pop()
        if len(out) != len(lines):
            raise MachineryError('model driver answered %d lines for %d requests' % (len(out), len(lines)))
        return out


def compare_batch(ctx, op, cases, model_line, impl_fn, canon=None, key=None):
    """Run model and implementation on the same cases and diff.

    cases: list of JSON-able inputs; model_line(case) -> request line; impl_fn(case) -> response
    string in the model's output format (exceptions must be mapped by impl_fn, see `err_name`).
    """
    drv = ctx.driver()
    lines = [model_line(c) for c in cases]
    outs = drv.run(lines)
    for c, line, mo in zip(cases, lines, outs):
        try:
            io = impl_fn(c)
        except Exception as e:  # an unmapped exception is a result too
            io = 'err:' + err_name(e)
        if canon:
            mo2, io2 = canon(mo), canon(io)
        else:
            mo2, io2 = mo, io
        ctx.compared += 1
        ctx.count('op:' + op)
        ctx.case((op, key(c) if key else line), nontrivial=not io2.startswith('err:'))
        if io2.startswith('err:'):
            ctx.count('err_results')
        if mo2 != io2:
            ctx.disagree(op, {'case': c, 'line': line}, mo, io)
    if cases:
        ctx.sample({'op': op, 'request': lines[0], 'model': outs[0]})
    return outs


def err_name(e):
    if isinstance(e, ZeroDivisionError):
        return 'zero'
    if isinstance(e, AssertionError):
        return 'assert'
    if isinstance(e, IndexError):
        return 'index'
    if isinstance(e, KeyError):
        return 'key'
    if isinstance(e, AttributeError):
        return 'attr'
    if isinstance(e, TypeError):
        return 'type'
    if isinstance(e, (ValueError, OverflowError)):
        return 'value'
    return 'other:' + type(e).__name__


# --------------------------------------------------------------------------------------------
# lake


class LakeLock(object):
    def __enter__(self):
        os.makedirs(os.path.join(LEAN_DIR, '.lake'), exist_ok=True)
        self.f = open(os.path.join(LEAN_DIR, '.lake', 'verif.lock'), 'w')
        fcntl.flock(self.f, fcntl.LOCK_EX)
        return self

    def __exit__(self, *a):
        fcntl.flock(self.f, fcntl.LOCK_UN)
        self.f.close()


def lake(args, timeout=3000):
    with LakeLock():
        p = subprocess.run(['lake'] + args, cwd=LEAN_DIR, stdout=subprocess.PIPE,
                           stderr=subprocess.STDOUT, timeout=timeout)
    return p.returncode, p.stdout.decode('utf-8', 'replace')


def lean_file_theorems(path):
    """[(full_name, line_no)] of every `theorem` in a Lean file (namespace-aware)."""
    out = []
    ns = []
    with open(path, encoding='utf-8') as f:
        src = f.read()
    clean = strip_lean_comments(src)
    for i, line in enumerate(clean.split('\n'), 1):
        m = re.match(r'\s*namespace\s+([\w.]+)', line)
        if m:
            ns.append(m.group(1))
            continue
        m = re.match(r'\s*end\s+([\w.]+)\s*$', line)
        if m and ns and ns[-1] == m.group(1):
            ns.pop()
            continue
        m = re.match(r'\s*(?:@\[[^\]]*\]\s*)?(?:private\s+|protected\s+)?theorem\s+([\w.\']+)', line)
        if m:
            out.append(('.'.join(ns + [m.group(1)]), i))
    return out


def strip_lean_comments(src):
    """Remove /- -/ (nested) and -- comments, keeping line structure."""
    out = []
    i = 0
    depth = 0
    n = len(src)
    in_str = False
    while i < n:
        c = src[i]
        if depth == 0 and not in_str and c == '"':
            in_str = True
            out.append(c)
            i += 1
            continue
        if in_str:
            if c == '\\' and i + 1 < n:
                out.append(src[i:i + 2])
                i += 2
                continue
            if c == '"':
                in_str = False
            out.append(c)
            i += 1
            continue
        if src.startswith('/-', i):
            depth += 1
            i += 2
            continue
        if depth > 0 and src.startswith('-/', i):
            depth -= 1
            i += 2
            continue
        if depth > 0:
            if c == '\n':
                out.append('\n')
            i += 1
            continue
        if src.startswith('--', i):
            while i < n and src[i] != '\n':
                i += 1
            continue
        out.append(c)
        i += 1
    return ''.join(out)


def module_path(mod):
    return os.path.join(LEAN_DIR, mod.replace('.', '/') + '.lean')


def build_and_audit(ctx, driver_target, proof_modules, grep_modules):
    """Steps 2 and 3.  Records tie breaks in ctx.broken; raises MachineryError on forbidden tokens."""
    # driver first: it is needed for the correspondence even when a proof is broken
    if driver_target:
        rc, out = lake(['build', driver_target])
        ctx.checker_cmds.append('lake build ' + driver_target)
        ctx.driver_ok = rc == 0
        if rc != 0:
            ctx.broken.append({'kind': 'model', 'what': driver_target,
                               'detail': _first_errors(out)})
    # proofs
    thms = []
    for mod in proof_modules:
        thms += [(n, ln, mod) for n, ln in lean_file_theorems(module_path(mod))]
    prop_thms = [t for t in thms if re.search(r'(^|\.)' + ctx.prop + '_', t[0])]
    ctx.theorems = [t[0] for t in prop_thms]
    rc, out = lake(['build'] + proof_modules)
    ctx.checker_cmds.append('lake build ' + ' '.join(proof_modules))
    failing = set()
    if rc != 0:
        errs = re.findall(r'error: (Ladybug/[\w/]+\.lean):(\d+):\d+: (.*)', out)
        for path, ln, msg in errs:
            name = _enclosing_decl(os.path.join(LEAN_DIR, path), int(ln))
            failing.add(name)
            ctx.broken.append({'kind': 'proof', 'what': name, 'detail': '%s:%s %s' % (path, ln, msg[:300])})
        if not errs:
            ctx.broken.append({'kind': 'proof', 'what': 'lake build ' + ' '.join(proof_modules),
                               'detail': out[-1500:]})
        ctx.proofs_ok = False
    else:
        ctx.proofs_ok = True
    # source grep (machinery integrity)
    for mod in grep_modules:
        p = module_path(mod)
        if not os.path.exists(p):
            continue
        with open(p, encoding='utf-8') as f:
            clean = strip_lean_comments(f.read())
        m = FORBIDDEN.search(clean)
        if m:
            raise MachineryError('forbidden token %r in %s' % (m.group(0), p))
    # axiom audit
    if ctx.proofs_ok and prop_thms:
        audit_dir = os.path.join(LEAN_DIR, 'Audit')
        os.makedirs(audit_dir, exist_ok=True)
        apath = os.path.join(audit_dir, ctx.prop + '.lean')
        text = ''.join('import %s\n' % m for m in proof_modules)
        text += ''.join('#print axioms %s\n' % t[0] for t in prop_thms)
        with open(apath, 'w') as f:
            f.write(text)
        with LakeLock():
            p = subprocess.run(['lake', 'env', 'lean', apath], cwd=LEAN_DIR, stdout=subprocess.PIPE,
                               stderr=subprocess.STDOUT, timeout=1800)
        aout = p.stdout.decode('utf-8', 'replace')
        ctx.checker_cmds.append('lake env lean Audit/%s.lean  (#print axioms of every property theorem)' % ctx.prop)
        if p.returncode != 0:
            raise MachineryError('axiom audit failed to run:\n' + aout[-2000:])
        seen = {}
        for m in re.finditer(r"'([^']+)' depends on axioms: \[([^\]]*)\]", aout.replace('\n', ' ')):
            seen[m.group(1)] = set(a.strip() for a in m.group(2).split(',') if a.strip())
        for m in re.finditer(r"'([^']+)' does not depend on any axioms", aout):
            seen[m.group(1)] = set()
        for name, _, _ in prop_thms:
            if name not in seen:
                raise MachineryError('axiom audit: no report for %s\n%s' % (name, aout[-1000:]))
            extra = seen[name] - ALLOWED_AXIOMS
            if extra:
                raise MachineryError('theorem %s depends on non-standard axioms %s' % (name, sorted(extra)))
            ctx.discharged.append(name)
    elif prop_thms:
        ctx.discharged = [t[0] for t in prop_thms if t[0] not in failing and ctx.proofs_ok]


def leanchecker(ctx, proof_modules):
    """Thorough tier: independent re-check of the compiled property modules."""
    with LakeLock():
        p = subprocess.run(['lake', 'env', 'leanchecker'] + proof_modules, cwd=LEAN_DIR,
                           stdout=subprocess.PIPE, stderr=subprocess.STDOUT, timeout=3000)
    ctx.checker_cmds.append('lake env leanchecker ' + ' '.join(proof_modules))
    if p.returncode != 0:
        raise MachineryError('leanchecker rejected the compiled modules:\n'
                             + p.stdout.decode('utf-8', 'replace')[-2000:])


def _first_errors(out):
    errs = [l for l in out.split('\n') if l.startswith('error')]
    return '\n'.join(errs[:5])[:1500]


def _enclosing_decl(path, line_no):
    try:
        thms = lean_file_theorems(path)
    except OSError:
        return '%s:%d' % (path, line_no)
    best = None
    for name, ln in thms:
        if ln <= line_no:
            best = name
    # also plain defs/examples
    if best is None:
        return '%s:%d' % (os.path.relpath(path, LEAN_DIR), line_no)
    return best


# --------------------------------------------------------------------------------------------
# known findings, verdict, evidence


def load_known(prop):
    """Open findings of `prop` from known_findings.json and known_findings.d/*.json (read only)."""
    paths = [KNOWN_FINDINGS]
    ddir = os.path.join(ROOT, 'known_findings.d')
    if os.path.isdir(ddir):
        paths += sorted(os.path.join(ddir, n) for n in os.listdir(ddir) if n.endswith('.json'))
    out = []
    for p in paths:
        if not os.path.exists(p):
            continue
        with open(p) as f:
            data = json.load(f)
        out += [k for k in data.get('findings', []) if k.get('property') == prop
                and k.get('status', 'open') == 'open']
    return out


def matches(sig, finding):
    want = finding.get('match', {})
    return bool(want) and all(sig.get(k) == v for k, v in want.items())


def write_replay(ctx, payload, tag):
    os.makedirs(REPLAY_DIR, exist_ok=True)
    path = os.path.join(REPLAY_DIR, '%s_%s_seed%d_%s.json' % (ctx.prop, ctx.tier, ctx.seed, tag))
    with open(path, 'w') as f:
        json.dump(payload, f, indent=1, sort_keys=True, default=str)
    return os.path.relpath(path, ROOT)


def write_evidence(ctx, mod, violations):
    os.makedirs(EVIDENCE_DIR, exist_ok=True)
    obligations = len(ctx.theorems)
    cov = {
        'obligations': obligations,
        'discharged': len(ctx.discharged),
        'checker_cmd': ' && '.join(ctx.checker_cmds) or 'lake build',
        'trusted_base': BASE_TRUSTED + list(getattr(mod, 'TRUSTED_BASE', [])),
        'theorems': ctx.theorems,
        'evaluations': ctx.evaluations,
        'distinct_nontrivial': len(ctx.distinct),
        'rule': getattr(mod, 'RULE', 'see DESIGN.md'),
        'samples': ctx.samples or [{'note': 'no generated case in this run'}],
        'model_vs_impl_comparisons': ctx.compared,
        'disagreements_checked': ctx.compared,
        'disagreements_found': len(ctx.disagreements),
        'oracle_failures': len(ctx.failures),
        'input_distribution': ctx.counters,
        'sampled_subclaims': ctx.subclaims,
        'ties_broken': ctx.broken,
        'notes': ctx.notes,
        'exhaustive': False,
    }
    ev = {
        'property_id': ctx.prop,
        'tier': ctx.tier,
        'seed': ctx.seed,
        'level': 'proof',
        'coverage': cov,
        'assumptions': list(getattr(mod, 'ASSUMPTIONS', [])),
        'wall_s': round(ctx.elapsed(), 2),
        'violations': violations,
    }
    path = os.path.join(EVIDENCE_DIR, ctx.prop + '.json')
    tmp = path + '.tmp'
    with open(tmp, 'w') as f:
        json.dump(ev, f, indent=1, sort_keys=True, default=str)
    os.replace(tmp, path)


def run_check(mod, tier, seed):
    """Run one property check; returns the process exit code."""
    ctx = Ctx(mod.PROP, tier, seed)
    sys.path.insert(0, REPO)
    # 1. extract
    try:
        if hasattr(mod, 'extract'):
            mod.extract(ctx)
    except ExtractError as e:
        ctx.broken.append({'kind': 'translator', 'what': getattr(mod, 'EXTRACTORS', 'extract'),
                           'detail': str(e)})
    # 2+3. build and audit
    build_and_audit(ctx, getattr(mod, 'DRIVER', 'drv_' + mod.PROP.lower()),
                    list(mod.PROOF_MODULES), list(getattr(mod, 'GREP_MODULES', [])) + list(mod.PROOF_MODULES))
    if tier == 'thorough' and ctx.proofs_ok:
        leanchecker(ctx, list(mod.PROOF_MODULES))
    # 4. correspondence
    if ctx.driver_ok:
        try:
            mod.correspondence(ctx)
        except MachineryError:
            raise
        except Exception as e:
            # the implementation (possibly changed) made the harness itself fail: that is a
            # broken correspondence, not a verdict and not a machinery error
            ctx.broken.append({'kind': 'correspondence', 'what': 'harness exception',
                               'detail': '%s: %s | %s' % (type(e).__name__, e,
                                                         traceback.format_exc()[-1200:])})
        for d in ctx.disagreements[:5]:
            ctx.broken.append({'kind': 'correspondence', 'what': d['op'], 'detail': d})
    # 5. oracle (also the failing-input search when a tie broke)
    ctx.searching = bool(ctx.broken)
    try:
        mod.oracle(ctx)
    except MachineryError:
        raise
    except Exception as e:
        ctx.broken.append({'kind': 'oracle', 'what': 'oracle generator exception',
                           'detail': '%s: %s | %s' % (type(e).__name__, e, traceback.format_exc()[-1200:])})
    # 6+7. classify
    known = load_known(ctx.prop)
    printed = set()
    unmatched = []
    for f in ctx.failures:
        hit = None
        for k in known:
            if matches(f['sig'], k):
                hit = k
                break
        if hit is None:
            unmatched.append(f)
        elif hit['id'] not in printed:
            printed.add(hit['id'])
            print('KNOWN-FINDING: property=%s %s' % (ctx.prop, hit['what']))
    code = 0
    nviol = 0
    if unmatched:
        f = unmatched[0]
        payload = {'property': ctx.prop, 'tier': tier, 'seed': seed, 'kind': 'failing-input',
                   'op': f['op'], 'input': f['input'], 'required': f['required'],
                   'observed': f['observed'], 'sig': f['sig'], 'ties_broken': ctx.broken,
                   'other_failures': len(unmatched) - 1}
        path = write_replay(ctx, payload, 'fail')
        print('VIOLATION property=%s replay=%s' % (ctx.prop, path))
        code = 1
        nviol = len(unmatched)
    elif ctx.broken:
        payload = {'property': ctx.prop, 'tier': tier, 'seed': seed, 'kind': 'tie-broken',
                   'broken': ctx.broken,
                   'searched': {'oracle_evaluations': ctx.evaluations,
                                'note': 'no input found on which the implementation violates the property'}}
        path = write_replay(ctx, payload, 'tie')
        print('VIOLATION property=%s replay=%s no-failing-input-found' % (ctx.prop, path))
        code = 1
        nviol = 1
    write_evidence(ctx, mod, nviol)
    summary = ('%s %s seed=%d: theorems %d/%d, comparisons %d, oracle cases %d, distinct %d, '
               'ties broken %d, failures %d (known %d), %.1fs'
               % (ctx.prop, tier, seed, len(ctx.discharged), len(ctx.theorems), ctx.compared,
                  ctx.evaluations, len(ctx.distinct), len(ctx.broken), len(ctx.failures),
                  len(ctx.failures) - len(unmatched), ctx.elapsed()))
    print(summary)
    for b in ctx.broken[:10]:
        print('  tie broken: %s %s: %s' % (b['kind'], b['what'], json.dumps(b['detail'], default=str)[:400]))
    return code


def run_oracle_cases(ctx, cases, check_case):
    """Evaluate the property oracle `check_case(op, inp) -> None | dict(required, observed, sig)`
    on an iterable of (op, inp) pairs."""
    for op, inp in cases:
        if len(ctx.failures) >= 200:
            break               # enough failing inputs for a replay; stop the search
        try:
            res = check_case(op, inp)
        except Exception as e:  # the oracle itself must not crash the run silently
            res = {'required': 'oracle evaluates', 'observed': 'exception %s: %s' % (type(e).__name__, e),
                   'sig': {'exception': type(e).__name__}}
        ctx.count('oracle:' + op)
        ctx.case((op, json.dumps(inp, sort_keys=True, default=str)))
        if res:
            ctx.fail(op, inp, res.get('required'), res.get('observed'), res.get('sig'))
        elif ctx.evaluations % 997 == 1:
            ctx.sample({'oracle': op, 'input': inp}, limit=12)


def run_replay(mod, path):
    with open(path if os.path.isabs(path) else os.path.join(ROOT, path)) as f:
        rp = json.load(f)
    sys.path.insert(0, REPO)
    if rp.get('kind') == 'tie-broken':
        print('replay: no failing input was found; ties that no longer check:')
        for b in rp.get('broken', []):
            print('  %s %s: %s' % (b['kind'], b['what'], json.dumps(b['detail'], default=str)[:600]))
        return 1
    res = mod.replay(rp['op'], rp['input'])
    if res is None:
        print('replay: the stored input no longer fails (op=%s)' % rp['op'])
        return 0
    print('replay: op=%s input=%s' % (rp['op'], json.dumps(rp['input'], default=str)[:1000]))
    print('  required: %s' % (res.get('required'),))
    print('  observed: %s' % (res.get('observed'),))
    print('VIOLATION property=%s replay=%s' % (mod.PROP, path))
    return 1
