"""Entry point: ./check Cxx [--tier quick|thorough] [--replay FILE]  |  ./check --setup"""
import argparse
import importlib
import os
import subprocess
import sys
import traceback

HERE = os.path.dirname(os.path.abspath(__file__))
ROOT = os.path.normpath(os.path.join(HERE, '..'))
sys.path.insert(0, ROOT)

from harness import core  # noqa: E402


def setup():
    """MANIFEST.setup_cmd: regenerate Gen files from /repo, build every Lean target."""
    sys.path.insert(0, core.REPO)
    from tools.extract import run_all
    try:
        run_all.run_all()
    except Exception as e:  # a broken extractor must not prevent building the rest
        print('setup: extractor problem (reported by the owning check later): %s' % e)
    import importlib
    import json
    with open(os.path.join(ROOT, 'MANIFEST.json')) as f:
        man = json.load(f)
    bad = 0
    for c in man['checks']:
        pid = c['property_id']
        mod = importlib.import_module('harness.props.' + pid.lower())
        targets = list(mod.PROOF_MODULES) + [getattr(mod, 'DRIVER', 'drv_' + pid.lower())]
        rc, out = core.lake(['build'] + targets, timeout=7200)
        print('setup: %s lake build %s -> %d' % (pid, ' '.join(targets), rc))
        if rc != 0:
            bad += 1
            print(out[-2000:])
    return 0 if bad == 0 else 1


def main():
    ap = argparse.ArgumentParser()
    ap.add_argument('prop', nargs='?')
    ap.add_argument('--tier', default=os.environ.get('VERIF_TIER', 'quick'), choices=['quick', 'thorough'])
    ap.add_argument('--replay')
    ap.add_argument('--setup', action='store_true')
    a = ap.parse_args()
    if a.setup:
        return setup()
    if not a.prop:
        ap.error('property id required')
    seed = int(os.environ.get('VERIF_SEED', '0') or 0)
    try:
        mod = importlib.import_module('harness.props.' + a.prop.lower())
        if a.replay:
            return core.run_replay(mod, a.replay)
        return core.run_check(mod, a.tier, seed)
    except core.MachineryError as e:
        print('MACHINERY-ERROR %s: %s' % (a.prop, e))
        return 2
    except subprocess.TimeoutExpired as e:
        print('MACHINERY-ERROR %s: timeout %s' % (a.prop, e))
        return 2
    except Exception:
        traceback.print_exc()
        print('MACHINERY-ERROR %s: internal error' % a.prop)
        return 2


if __name__ == '__main__':
    sys.exit(main())
