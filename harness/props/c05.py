"""C05 — Sun positions agree with an independent astronomical ephemeris.

Model: lean/Ladybug/Model/Sun.lean (generic over Transc; Float instance run by drv_c05, real instance
in Ladybug/RealInst.lean); theorems: lean/Ladybug/Props/C05.lean.
Tie: (T) tools/extract/sun_formulas.py regenerates Gen/SunFormulas.lean from sunpath.py (NOAA series, solar time,
hour angle, zenith/altitude, refraction branches, az_init, azimuth branches and handlers, Sun properties) and
Proofs/C05Gen.lean proves each generated piece equal to the model definition; (C) correspondence on the ops below
(the only tie for the day count, the day-fraction rounding, int()/round() of float hours, the setters, the exception
conditions, float %, the sun vector).  Numeric property, partial by nature (DESIGN.md sections 6, 9):
closeness to the independent ephemeris, time-zone shift invariance and the noon claim on the real code
are SAMPLED SUB-CLAIMS (tests), reported under sampled_subclaims, never counted as theorems.

The independent ephemeris below is the low-precision algorithm of The Astronomical Almanac (section C,
"Low precision formulas for the Sun's coordinates", 1950-2050) with Saemundsson's refraction formula;
nothing of it is taken from NOAA's series or from ladybug.
"""
import math
import struct
from datetime import datetime, timedelta

from harness import core
from harness.core import err_name, run_oracle_cases

PROP = 'C05'
PROOF_MODULES = ['Ladybug.Props.C05', 'Ladybug.Proofs.C05Gen']
GREP_MODULES = ['Ladybug.Gen.SunFormulas', 'Ladybug.Py', 'Ladybug.Transc', 'Ladybug.RealInst', 'Ladybug.Model.Cal', 'Ladybug.Model.Sun',
                'Ladybug.Proofs.CalLemmas', 'Ladybug.Props.C08', 'Ladybug.Proofs.C05Real', 'Ladybug.Proofs.C05Lemmas', 'Ladybug.Drv.C05', 'Ladybug.DrvCore']
RULE = ('correspondence: Float instance of the model vs the real functions at the public API '
        '(calculate_sun, _from_hoy, _from_moy, _from_date_time -> datetime, altitude, azimuth, sun_vector, '
        'sun_vector_reversed, is_during_day, azimuth_from_y_axis) and at the anchored helpers '
        '(_days_from_010119, _calculate_hour_and_minute, _calculate_solar_geometry, _calculate_solar_time, Sun()), '
        'floats as IEEE bit patterns, tolerance 1e-9 absolute (azimuth circular); inputs: latitude/longitude/'
        'time-zone/north boundary sets (poles, tropics, polar circles, date line, fractional and solar zones) x '
        'month/day/minute boundaries (month ends, 29 Feb, day-fraction rounding ties, 0:00, 23:59) + uniform '
        'random; a case is non-trivial when the implementation returns a sun; distinct = distinct request line. '
        'oracle (sampled sub-claims): altitude within 0.05 deg of Almanac+Saemundsson when the sun is visible '
        '(geometric altitude >= -0.575), between the geometric altitude and geometric + horizon refraction '
        'continued by the cotangent law when below the horizon (no standard refraction model is defined '
        'there), azimuth within 0.05 deg of great-circle distance (0.05/cos(altitude)); same sun by the three '
        'entry points; tz+clock shift within 0.01 deg; solar noon due south/north and highest; vector identities '
        'within 1e-12')
TRUSTED_BASE = [
    'translator tools/extract/pyexpr2lean.py + sun_formulas.py: that the emitted Lean expression denotes the Python '
    'expression (every generated piece is also run by the driver through the model it is proved equal to)',
    'modelled, not verified: CPython float arithmetic and libm (sin cos tan asin acos pow sqrt floor) = Lean Float '
    'primitives on this machine (compared: the model is bit-identical to the code on every generated case); '
    'round(m/1440.0, 2) and int()/round() of float hours modelled on integers/rationals and compared exhaustively',
    'modelled, not verified: ladybug_geometry Vector3D.rotate / rotate_xy / reverse (transcribed into the model; '
    'compared through sun_vector)',
    'IEEE evaluation vs real evaluation of the NOAA series is not proved; the 0.05 deg agreement with the '
    'independent ephemeris is sampled on the real code, not a theorem',
    'the independent ephemeris (Astronomical Almanac low-precision Sun + Saemundsson refraction, in this file) is '
    'the reference for the sampled sub-claim; its own stated precision is 0.01 deg (1950-2050)',
    'daylight saving is not exercised here (C11)',
]
ASSUMPTIONS = ['years 2016 (leap) / 2017 (normal) as fixed by ladybug DateTime',
               'is_solar_time suns are compared with the ephemeris only for time zones within one hour of '
               'longitude/15 (the code evaluates the declination at the clock time of the configured zone; '
               'zones further than 1 h away are the known finding C05-solar-time-depends-on-time-zone)']

TOL = 1e-9


def extract(ctx):
    """(T) regenerate Gen/SunFormulas.lean from sunpath.py; Proofs/C05Gen.lean proves every generated piece equal
    to its definition in Model/Sun.lean."""
    from tools.extract import sun_formulas
    ctx.sun_gen = sun_formulas.extract()
    ctx.count('translated_pieces', len(ctx.sun_gen['translated']))


# ---------------------------------------------------------------------------------------------
# helpers


def _fbits(x):
    return '%016x' % struct.unpack('<Q', struct.pack('<d', float(x)))[0]


def _bits2f(s):
    return struct.unpack('<d', struct.pack('<Q', int(s, 16)))[0]


def _b(x):
    return '1' if x else '0'


def _ydays(leap):
    return 366 if leap else 365


def _ref(leap, moy):
    return datetime(2016 if leap else 2017, 1, 1) + timedelta(minutes=moy)


def _tz_tok(tz):
    return 'none' if tz is None else _fbits(tz)


def _cfg_toks(c):
    """c = (lat, lon, tz, north, leap)"""
    return '%s %s %s %s %s' % (_fbits(c[0]), _fbits(c[1]), _tz_tok(c[2]), _fbits(c[3]), _b(c[4]))


def _sunpath(c):
    from ladybug.sunpath import Sunpath
    sp = Sunpath(c[0], c[1], c[2], c[3])
    sp.is_leap_year = c[4]
    return sp


def _show_sun(s):
    d = s.datetime
    v, r = s.sun_vector, s.sun_vector_reversed
    return 'ok %d %d %d %d %s %s %s %s %s %s %s %s %s %s %s' % (
        d.month, d.day, d.hour, d.minute, _b(d.leap_year), _fbits(s.altitude), _fbits(s.azimuth),
        _fbits(v.x), _fbits(v.y), _fbits(v.z), _fbits(r.x), _fbits(r.y), _fbits(r.z),
        _b(s.is_during_day), _fbits(s.azimuth_from_y_axis))


_HEX = set('0123456789abcdef')


def _same(mo, io, circular=()):
    """Compare two response lines token by token; 16-hex-digit tokens are floats compared within TOL
    (tokens whose index is in `circular` modulo 360).  Returns (equal, bit_exact)."""
    if mo == io:
        return True, True
    a, b = mo.split(), io.split()
    if len(a) != len(b):
        return False, False
    for i, (x, y) in enumerate(zip(a, b)):
        if x == y:
            continue
        if len(x) == 16 and len(y) == 16 and set(x) <= _HEX and set(y) <= _HEX:
            fx, fy = _bits2f(x), _bits2f(y)
            if fx != fx or fy != fy:
                return False, False
            d = abs(fx - fy)
            if i in circular:
                d = min(d, abs(d - 360.0))
            if d <= TOL:
                continue
        return False, False
    return True, False


def _compare(ctx, op, cases, model_line, impl_fn, circular=()):
    """compare_batch with float tolerance (README: floats by bits or a stated tolerance)."""
    drv = ctx.driver()
    lines = [model_line(c) for c in cases]
    outs = drv.run(lines)
    for c, line, mo in zip(cases, lines, outs):
        try:
            io = impl_fn(c)
        except Exception as e:
            io = 'err:' + err_name(e)
        ctx.compared += 1
        ctx.count('op:' + op)
        ctx.case((op, line), nontrivial=not io.startswith('err:'))
        if io.startswith('err:'):
            ctx.count('err_results')
        eq, exact = _same(mo, io, circular)
        if exact:
            ctx.count('bit_exact')
        if not eq:
            ctx.disagree(op, {'case': c, 'line': line}, mo, io)
    if cases:
        ctx.sample({'op': op, 'request': lines[0], 'model': outs[0]})
    return outs


# ---------------------------------------------------------------------------------------------
# generators (stdlib only)

LATS = [-90.0, -89.999, -66.5622, -45.0, -23.4378, -1e-9, 0.0, 1e-7, 23.4378, 40.7128, 66.5622, 89.999, 90.0]
LONS = [-180.0, -179.99, -122.4, -90.0, -7.5, 0.0, 7.4999, 77.2, 90.0, 151.2, 179.99, 180.0]
TZS = [-12.0, -9.5, -8.0, -3.5, 0.0, 1.0, 5.5, 5.75, 8.0, 9.5, 12.75, 14.0]
NORTHS = [0.0, 0.0, 0.0, 90.0, -90.0, 180.0, 360.0, -360.0, 1e-9, 45.5]
TIE_MINUTES = [36, 108, 180, 252, 324, 396, 468, 540, 612, 684, 756, 828, 900, 972, 1044, 1116, 1188, 1260,
               1332, 1404]


def _boundary_moys(leap):
    out = set()
    year = 2016 if leap else 2017
    for m in range(1, 13):
        start = int((datetime(year, m, 1) - datetime(year, 1, 1)).total_seconds() // 60)
        for k in (-1, 0, 1, 720, 1439):
            out.add(start + k)
    n = 1440 * _ydays(leap)
    for doy in (59, 60, 79, 80, 172, 173, 265, 266, 355, 356):      # 28/29 Feb, equinoxes, solstices
        for k in (0, 360, 719, 720, 721, 1080) + tuple(TIE_MINUTES[:6]):
            out.add((doy - 1) * 1440 + k)
    return sorted(x for x in out if 0 <= x < n)


def _rand_tz(rng, lon):
    r = rng.random()
    if r < 0.25:
        return None
    if r < 0.55:
        return float(max(-12, min(14, round(lon / 15.0))))
    if r < 0.75:
        return rng.choice(TZS)
    return rng.uniform(-12.0, 14.0)


def _rand_cfg(rng, north=True):
    lat = rng.choice(LATS) if rng.random() < 0.35 else rng.uniform(-90.0, 90.0)
    lon = rng.choice(LONS) if rng.random() < 0.35 else rng.uniform(-180.0, 180.0)
    tz = _rand_tz(rng, lon)
    no = rng.choice(NORTHS) if (rng.random() < 0.7 or not north) else rng.uniform(-360.0, 360.0)
    return (lat, lon, tz, no, rng.random() < 0.5)


def _rand_moy(rng, leap, bm):
    r = rng.random()
    if r < 0.3:
        return rng.choice(bm[leap])
    if r < 0.4:
        return rng.randrange(_ydays(leap)) * 1440 + rng.choice(TIE_MINUTES)
    return rng.randrange(1440 * _ydays(leap))


def correspondence(ctx):
    from ladybug.sunpath import Sunpath, Sun
    from ladybug.dt import DateTime
    rng = ctx.rng
    bm = {False: _boundary_moys(False), True: _boundary_moys(True)}

    # --- _days_from_010119: every date of 2016 and 2017, century rules, other years
    cases = []
    for y in (2016, 2017):
        d = datetime(y, 1, 1)
        while d.year == y:
            cases.append((y, d.month, d.day))
            d += timedelta(days=1)
    for y in [1899, 1900, 1901, 1904, 1999, 2000, 2001, 2015, 2018, 2020, 2024, 2100, 2101] + \
            [rng.randrange(1900, 2200) for _ in range(ctx.n(40, 400))]:
        for m, dd in ((1, 1), (2, 28), (3, 1), (12, 31), (rng.randrange(1, 13), rng.randrange(1, 29))):
            cases.append((y, m, dd))
    _compare(ctx, 'days', cases, lambda c: 'days %d %d %d' % c,
             lambda c: 'ok %d' % Sunpath._days_from_010119(*c))

    # --- day fraction round(m / 1440.0, 2): all minutes of the day (the expression of _calculate_solar_geometry)
    cases = list(range(1440))
    _compare(ctx, 'frac', cases, lambda c: 'frac %d' % c,
             lambda c: 'ok %d' % int(round(round((c % 60 + (c // 60) * 60) / 1440.0, 2) * 100)))

    # --- _calculate_hour_and_minute on float hours: all 1440 (h, m), half-minute ties, epsilons, random
    cases = []
    for h in range(24):
        for m in range(60):
            cases.append(h + m / 60.0)
    for _ in range(ctx.n(1500, 40000)):
        h, m = rng.randrange(24), rng.randrange(60)
        cases.append(h + (m + rng.choice([0.5, 0.49, 0.51, 1e-9, -1e-9, 0.999999])) / 60.0)
        cases.append(rng.uniform(0.0, 24.0))
    cases = [c for c in cases if c >= 0.0]
    _compare(ctx, 'hm', cases, lambda c: 'hm ' + _fbits(c),
             lambda c: 'ok %d %d' % Sunpath._calculate_hour_and_minute(c))

    # --- _calculate_solar_geometry: declination (radians) and equation of time (minutes)
    cases = []
    for _ in range(ctx.n(8000, 80000)):
        leap = rng.random() < 0.5
        r = _ref(leap, _rand_moy(rng, leap, bm))
        tz = rng.choice(TZS) if rng.random() < 0.5 else rng.uniform(-12.0, 14.0)
        cases.append((tz, leap, r.month, r.day, r.hour, r.minute))

    def impl_geom(c):
        sp = Sunpath(0, 0, c[0])
        dec, eot = sp._calculate_solar_geometry(DateTime(c[2], c[3], c[4], c[5], c[1]))
        return 'ok %s %s' % (_fbits(dec), _fbits(eot))

    _compare(ctx, 'geom', cases,
             lambda c: 'geom %s %s %d %d %d %d' % (_fbits(c[0]), _b(c[1]), c[2], c[3], c[4], c[5]), impl_geom)

    # --- sun exactly at the zenith (clamped acos, ZeroDivisionError branch): latitude := the MODEL's
    #     declination for the date (not the code's), a few ulps around it, solar-time noon
    zdates = []
    for _ in range(ctx.n(40, 400)):
        leap = rng.random() < 0.5
        r = _ref(leap, rng.randrange(_ydays(leap)) * 1440 + 720)
        zdates.append((rng.choice([0.0, 3.0, -5.0]), leap, r.month, r.day, 12, 0))
    zouts = ctx.driver().run(['geom %s %s %d %d %d %d' % (_fbits(c[0]), _b(c[1]), c[2], c[3], c[4], c[5])
                              for c in zdates])
    zenith_cases = []
    for c, o in zip(zdates, zouts):
        if not o.startswith('ok '):
            continue
        dec = _bits2f(o.split()[1])
        for k in (-2, -1, 0, 1, 2):
            lat = math.degrees(dec) * (1 + k * 2.220446049250313e-16)
            zenith_cases.append(((lat, 0.0, c[0], 0.0, c[1]), True, c[1], c[2], c[3], 12, 0))
            ctx.count('cfg:zenith_sun')

    # --- _calculate_solar_time
    cases = []
    for _ in range(ctx.n(2000, 40000)):
        lon = rng.choice(LONS) if rng.random() < 0.4 else rng.uniform(-180.0, 180.0)
        tz = rng.choice(TZS) if rng.random() < 0.5 else rng.uniform(-12.0, 14.0)
        hour = rng.choice([0.0, 23.0 + 59 / 60.0, 12.0, -1.0, -0.5]) if rng.random() < 0.3 else rng.uniform(0.0, 24.0)
        cases.append((hour, rng.uniform(-17.0, 17.0), lon, tz, rng.random() < 0.2))

    def impl_soltime(c):
        sp = Sunpath(0, c[2], c[3])
        return 'ok ' + _fbits(sp._calculate_solar_time(c[0], c[1], c[4]))

    _compare(ctx, 'soltime', cases,
             lambda c: 'soltime %s %s %s %s %s' % (_fbits(c[0]), _fbits(c[1]), _fbits(c[2]), _fbits(c[3]), _b(c[4])),
             impl_soltime)

    # --- calculate_sun_from_date_time (also with a datetime whose leap flag differs from the sunpath's)
    cases = []
    for _ in range(ctx.n(20000, 200000)):
        c = _rand_cfg(rng)
        solar = rng.random() < 0.3
        dl = c[4] if rng.random() < 0.8 else (rng.random() < 0.5)
        r = _ref(dl, _rand_moy(rng, dl, bm))
        if solar and rng.random() < 0.3:
            r = r.replace(hour=12, minute=0)
        cases.append((c, solar, dl, r.month, r.day, r.hour, r.minute))
        ctx.count('cfg:tz_' + ('solar' if c[2] is None else 'int' if float(c[2]).is_integer() else 'frac'))
        ctx.count('cfg:lat_' + ('pole' if abs(c[0]) == 90 else 'polar' if abs(c[0]) > 66.56 else
                                'tropic' if abs(c[0]) < 23.44 else 'mid'))
        ctx.count('cfg:solar_time_flag' if solar else 'cfg:clock_time')
        ctx.count('cfg:north_zero' if c[3] == 0 else 'cfg:north_nonzero')
    cases += zenith_cases
    circ = (7, 15)

    def impl_sun(c):
        sp = _sunpath(c[0])
        s = sp.calculate_sun_from_date_time(DateTime(c[3], c[4], c[5], c[6], c[2]), c[1])
        ctx.count('sun:day' if s.altitude >= 0 else 'sun:night')
        a = s.altitude
        ctx.count('refraction:' + ('>85' if a > 85 else '5..85' if a > 5.2 else '-0.575..5' if a > 0 else '<=-0.575'))
        return _show_sun(s)

    _compare(ctx, 'sun', cases,
             lambda c: 'sun %s %s %s %d %d %d %d' % (_cfg_toks(c[0]), _b(c[1]), _b(c[2]), c[3], c[4], c[5], c[6]),
             impl_sun, circ)

    # --- the three entry points
    cases = []
    for _ in range(ctx.n(6000, 60000)):
        c = _rand_cfg(rng)
        r = _ref(c[4], _rand_moy(rng, c[4], bm))
        hour = r.hour + r.minute / 60.0
        if rng.random() < 0.25:
            hour = r.hour + (r.minute + rng.choice([0.5, 0.49, 0.51, 0.2])) / 60.0
        cases.append((c, rng.random() < 0.2, r.month, r.day, hour))
    for c0 in ((10.0, 20.0, 1.0, 0.0, False), (10.0, 20.0, 1.0, 0.0, True)):      # rejected dates / hours
        for mo, da, h in ((2, 29, 12.0), (2, 30, 1.0), (13, 1, 1.0), (4, 31, 0.0), (1, 1, 24.0), (1, 1, 23.9999),
                          (12, 31, 23.9999), (0, 1, 1.0), (1, 0, 1.0)):
            cases.append((c0, False, mo, da, h))
    _compare(ctx, 'sun_mdh', cases,
             lambda c: 'sun_mdh %s %s %d %d %s' % (_cfg_toks(c[0]), _b(c[1]), c[2], c[3], _fbits(c[4])),
             lambda c: _show_sun(_sunpath(c[0]).calculate_sun(c[2], c[3], c[4], c[1])), circ)
    cases = []
    for _ in range(ctx.n(6000, 60000)):
        c = _rand_cfg(rng)
        m = _rand_moy(rng, c[4], bm)
        hoy = m / 60.0 + rng.choice([0.0, 0.0, 1e-9, -1e-9, 0.49 / 60, 0.5 / 60, -0.5 / 60])
        if rng.random() < 0.05:
            hoy = rng.choice([8760.0, 8784.0, 8783.99, 8759.995, 9000.0])
        if hoy >= 0:
            cases.append((c, rng.random() < 0.2, hoy))
    _compare(ctx, 'sun_hoy', cases,
             lambda c: 'sun_hoy %s %s %s' % (_cfg_toks(c[0]), _b(c[1]), _fbits(c[2])),
             lambda c: _show_sun(_sunpath(c[0]).calculate_sun_from_hoy(c[2], c[1])), circ)
    cases = []
    for _ in range(ctx.n(6000, 60000)):
        c = _rand_cfg(rng)
        m = _rand_moy(rng, c[4], bm)
        if rng.random() < 0.05:
            m = rng.choice([525600, 527040, 527039, 525599, 10 ** 7, -1441])
        cases.append((c, rng.random() < 0.2, m))
    _compare(ctx, 'sun_moy', cases,
             lambda c: 'sun_moy %s %s %d' % (_cfg_toks(c[0]), _b(c[1]), c[2]),
             lambda c: _show_sun(_sunpath(c[0]).calculate_sun_from_moy(c[2], c[1])), circ)

    # --- the Sun object built directly (exact boundary altitudes / azimuths / north angles, rejections)
    alts = [0.0, -0.0, 5e-324, -5e-324, 1e-12, -1e-12, 90.0, -90.0, 45.0, -45.0, 5.0, 85.0, -0.575, 90.0000001,
            -90.0000001, 30.0]
    azs = [0.0, 90.0, 180.0, 270.0, 360.0, -360.0, 360.0000001, 12.5, 359.999]
    nos = [0.0, -0.0, 90.0, -90.0, 360.0, -360.0, 1e-300, 33.3]
    cases = [(a, z, n) for a in alts for z in azs for n in nos]
    for _ in range(ctx.n(2000, 40000)):
        cases.append((rng.uniform(-90.0, 90.0), rng.uniform(0.0, 360.0),
                      rng.choice(nos) if rng.random() < 0.5 else rng.uniform(-360.0, 360.0)))
    _compare(ctx, 'vec', cases, lambda c: 'vec %s %s %s' % (_fbits(c[0]), _fbits(c[1]), _fbits(c[2])),
             lambda c: _show_sun(Sun(DateTime(1, 1, 0, 0), c[0], c[1], False, False, c[2])), circ)


# ---------------------------------------------------------------------------------------------
# independent ephemeris (The Astronomical Almanac, low precision) + Saemundsson refraction


def _jd0(y, m, d):
    """Julian day number at 0h UT of a Gregorian calendar date (Meeus, ch. 7)."""
    if m <= 2:
        y -= 1
        m += 12
    a = y // 100
    return math.floor(365.25 * (y + 4716)) + math.floor(30.6001 * (m + 1)) + d + (2 - a + a // 4) - 1524.5


def _almanac(jd):
    """Right ascension, declination, Greenwich mean sidereal time (degrees)."""
    n = jd - 2451545.0
    mean_long = (280.460 + 0.9856474 * n) % 360.0
    g = math.radians((357.528 + 0.9856003 * n) % 360.0)
    lam = math.radians(mean_long + 1.915 * math.sin(g) + 0.020 * math.sin(2 * g))
    eps = math.radians(23.439 - 0.0000004 * n)
    ra = math.degrees(math.atan2(math.cos(eps) * math.sin(lam), math.cos(lam))) % 360.0
    dec = math.degrees(math.asin(math.sin(eps) * math.sin(lam)))
    gmst = (280.46061837 + 360.98564736629 * n) % 360.0
    return ra, dec, gmst


def _eph(lat, lon, jd):
    """Geometric altitude, azimuth (clockwise from north), hour angle, declination - degrees."""
    ra, dec, gmst = _almanac(jd)
    ha_deg = (gmst + lon - ra + 180.0) % 360.0 - 180.0
    ha, la, de = math.radians(ha_deg), math.radians(lat), math.radians(dec)
    sin_h = math.sin(la) * math.sin(de) + math.cos(la) * math.cos(de) * math.cos(ha)
    h = math.degrees(math.asin(max(-1.0, min(1.0, sin_h))))
    az = math.degrees(math.atan2(-math.cos(de) * math.sin(ha),
                                 math.cos(la) * math.sin(de) - math.sin(la) * math.cos(de) * math.cos(ha))) % 360.0
    return h, az, ha_deg, dec


def _saemundsson(h):
    """Refraction in degrees for the geometric altitude h (degrees), h >= -0.575."""
    return 1.02 / math.tan(math.radians(h + 10.3 / (h + 5.11))) / 60.0


HORIZON = -0.575            # geometric altitude at which the refracted sun touches the horizon
ALT_TOL = 0.05
AZ_TOL = 0.05


def _expected_altitude_band(h):
    """[lo, hi] for the reported (refracted) altitude."""
    if h >= HORIZON:
        a = h + _saemundsson(h)
        return a - ALT_TOL, a + ALT_TOL
    # below the horizon: refraction is not defined by any standard model; it is non-negative and at
    # most the horizon refraction continued by the cotangent law R = k cot|h|
    cap = 0.575 * math.tan(math.radians(0.575)) / math.tan(math.radians(-h)) if h > -90 else 0.0
    return h - ALT_TOL, h + cap + ALT_TOL


def _circ(a, b):
    return abs((a - b + 180.0) % 360.0 - 180.0)


def _eff_tz(lon, tz):
    return lon / 15.0 if tz is None else float(tz)


def _sun_from(inp):
    sp = _sunpath((inp['lat'], inp['lon'], inp.get('tz'), inp.get('north', 0.0), bool(inp.get('leap'))))
    return sp


def _check_ephemeris(inp):
    leap = bool(inp.get('leap'))
    lat, lon, tz = inp['lat'], inp['lon'], inp.get('tz')
    solar = bool(inp.get('solar'))
    moy = inp['moy']
    r = _ref(leap, moy)
    etz = _eff_tz(lon, tz)
    clock = r.hour + r.minute / 60.0
    jd = _jd0(r.year, r.month, r.day) + (clock - etz) / 24.0
    if solar:
        # the instant at which the local apparent solar time at this longitude equals the clock
        # reading: two fixed-point steps on the ephemeris hour angle
        jd = _jd0(r.year, r.month, r.day) + (clock - lon / 15.0) / 24.0
        for _ in range(3):
            _, _, ha, _ = _eph(lat, lon, jd)
            jd += ((15.0 * (clock - 12.0) - ha + 180.0) % 360.0 - 180.0) / 360.0
    h, az, ha, dec = _eph(lat, lon, jd)
    regime = 'day' if h >= 5 else 'horizon' if h >= HORIZON else 'night'
    sig = {'solar': solar, 'regime': regime}
    try:
        s = _sun_from(inp).calculate_sun_from_moy(moy, solar)
    except Exception as e:
        zen = 90.0 - h < 0.05
        return {'required': 'a sun (ephemeris altitude %.6f azimuth %.6f)' % (h, az),
                'observed': 'raises %s: %s' % (type(e).__name__, e),
                'sig': dict(sig, what='exception', exception=type(e).__name__,
                            branch='zenith-crash' if zen and isinstance(e, (ZeroDivisionError, ValueError))
                            else 'other')}
    lo, hi = _expected_altitude_band(h)
    if not (lo <= s.altitude <= hi):
        return {'required': 'altitude in [%.5f, %.5f] (ephemeris geometric altitude %.5f)' % (lo, hi, h),
                'observed': 'altitude %.5f azimuth %.5f' % (s.altitude, s.azimuth), 'sig': dict(sig, what='altitude')}
    sep = _circ(s.azimuth, az) * math.cos(math.radians(h))
    if sep > AZ_TOL:
        return {'required': 'azimuth %.5f within %.2f/cos(alt) (altitude %.4f)' % (az, AZ_TOL, h),
                'observed': 'azimuth %.5f' % s.azimuth, 'sig': dict(sig, what='azimuth')}
    if not (0.0 <= s.azimuth <= 360.0):
        return {'required': 'azimuth in [0, 360]', 'observed': s.azimuth, 'sig': dict(sig, what='azimuth-range')}
    return None


def _sun_key(s):
    d = s.datetime
    return (d.month, d.day, d.hour, d.minute, d.leap_year, s.altitude, s.azimuth, s.sun_vector.x, s.sun_vector.y,
            s.sun_vector.z, s.is_during_day)


def _check_entry(inp):
    from ladybug.dt import DateTime
    leap = bool(inp.get('leap'))
    moy = inp['moy']
    solar = bool(inp.get('solar'))
    r = _ref(leap, moy)
    sp = _sun_from(inp)
    want_dt = (r.month, r.day, r.hour, r.minute, leap)
    suns = {
        'moy': sp.calculate_sun_from_moy(moy, solar),
        'hoy': sp.calculate_sun_from_hoy(moy / 60.0, solar),
        'mdh': sp.calculate_sun(r.month, r.day, r.hour + r.minute / 60.0, solar),
        'datetime': sp.calculate_sun_from_date_time(DateTime(r.month, r.day, r.hour, r.minute, leap), solar),
    }
    base = _sun_key(suns['datetime'])
    for name, s in suns.items():
        k = _sun_key(s)
        if k[:5] != want_dt:
            return {'required': want_dt, 'observed': k[:5], 'sig': {'entry': name, 'what': 'datetime'}}
        if k != base or s != suns['datetime']:
            return {'required': base, 'observed': k, 'sig': {'entry': name, 'what': 'sun'}}
    return None


def _check_tzshift(inp):
    leap = bool(inp.get('leap'))
    moy, shift, tz = inp['moy'], inp['shift'], inp['tz']
    a = _sun_from(inp).calculate_sun_from_moy(moy)
    inp2 = dict(inp, tz=tz + shift)
    b = _sun_from(inp2).calculate_sun_from_moy(moy + int(round(60 * shift)))
    da = abs(a.altitude - b.altitude)
    dz = _circ(a.azimuth, b.azimuth) * math.cos(math.radians(a.altitude))
    # at the exact poles the code's azimuth carries ~0.03 deg of cancellation noise (latitude nudged by
    # 1e-9 rad, az_init = 0/1e-9): there the property's own tolerance (a few hundredths) is used
    tol = 0.01 if abs(inp['lat']) < 89.9 else 0.05
    if da > tol or dz > tol:
        return {'required': 'same sun within %.2f deg: alt %.5f az %.5f' % (tol, a.altitude, a.azimuth),
                'observed': 'alt %.5f az %.5f' % (b.altitude, b.azimuth), 'sig': {'shift': shift, 'leap': leap}}
    return None


def _check_noon(inp):
    """Solar-time noon: due south / north, and no lower than at other solar times of the day
    (up to the drift of the declination, 0.017 deg per hour)."""
    leap = bool(inp.get('leap'))
    doy = inp['doy']
    lat, lon = inp['lat'], inp['lon']
    sp = _sun_from(inp)
    r = _ref(leap, (doy - 1) * 1440)
    noon = sp.calculate_sun(r.month, r.day, 12.0, True)
    _, _, _, dec = _eph(lat, lon, _jd0(r.year, r.month, r.day) + (12.0 - lon / 15.0) / 24.0)
    sig = {'leap': leap, 'hemisphere': 'north' if lat >= 0 else 'south'}
    # the code evaluates the declination at the clock time of the configured zone: up to 0.017 deg per hour of
    # distance between the zone and the longitude (see the finding C05-solar-time-depends-on-time-zone)
    off = abs(_eff_tz(lon, inp.get('tz')) - lon / 15.0)
    if abs(lat - dec) > 0.1 + 0.017 * off and abs(lat) < 89.9:
        want = 180.0 if lat > dec else 0.0
        if _circ(noon.azimuth, want) * math.cos(math.radians(noon.altitude)) > 0.01:
            return {'required': 'azimuth %s at solar noon (declination %.3f)' % (want, dec),
                    'observed': 'azimuth %.6f altitude %.5f' % (noon.azimuth, noon.altitude),
                    'sig': dict(sig, what='direction')}
    for dmin in (-360, -120, -30, -10, 10, 30, 120, 360):
        hh = 12.0 + dmin / 60.0
        o = sp.calculate_sun(r.month, r.day, hh, True)
        # declination drifts by up to 0.017 deg per hour; refraction is monotone in the geometric altitude
        # (so reported altitudes may be compared) but stretches differences by up to 2.1 near the horizon
        slack = 2.2 * 0.017 * abs(dmin) / 60.0 + 0.003
        if o.altitude > noon.altitude + slack:
            return {'required': 'altitude at solar noon %.5f is the highest of the day' % noon.altitude,
                    'observed': 'altitude %.5f at solar time %.4f' % (o.altitude, hh), 'sig': dict(sig, what='highest')}
    return None


def _check_solar_tz(inp):
    """A solar-time sun does not depend on the configured time zone (same place, same physical instant)."""
    lon, tz, moy = inp['lon'], inp['tz'], inp['moy']
    a = _sun_from(dict(inp, tz=None)).calculate_sun_from_moy(moy, True)
    b = _sun_from(inp).calculate_sun_from_moy(moy, True)
    da = abs(a.altitude - b.altitude)
    dz = _circ(a.azimuth, b.azimuth) * math.cos(math.radians(a.altitude))
    if da > ALT_TOL or dz > AZ_TOL:
        off = abs(tz - lon / 15.0)
        return {'required': 'same sun as with the solar time zone within 0.05 deg: alt %.5f az %.5f'
                            % (a.altitude, a.azimuth),
                'observed': 'alt %.5f az %.5f (zone %.2f h from longitude/15)' % (b.altitude, b.azimuth, off),
                'sig': {'zone_offset': 'inconsistent' if off > 1.0 else 'consistent'}}
    return None


def _vector_facts(alt, az, north, s, tol=1e-12):
    """The statement's vector clause evaluated on one Sun object."""
    v, rv = s.sun_vector, s.sun_vector_reversed
    a, z, n = math.radians(alt), math.radians(az), math.radians(north)
    bx, by, bz = math.sin(z) * math.cos(a), math.cos(z) * math.cos(a), math.sin(a)
    ex, ey, ez = -(math.cos(n) * bx - math.sin(n) * by), -(math.sin(n) * bx + math.cos(n) * by), -bz
    if max(abs(v.x - ex), abs(v.y - ey), abs(v.z - ez)) > tol:
        return 'formula', (ex, ey, ez), (v.x, v.y, v.z)
    if abs(v.x * v.x + v.y * v.y + v.z * v.z - 1.0) > tol:
        return 'unit', 1.0, v.x * v.x + v.y * v.y + v.z * v.z
    if (rv.x, rv.y, rv.z) != (-v.x, -v.y, -v.z):
        return 'reversed', (-v.x, -v.y, -v.z), (rv.x, rv.y, rv.z)
    if alt > 0 and not v.z < 0:
        return 'down-by-day', 'z < 0', v.z
    if alt < 0 and not v.z > 0:
        return 'up-by-night', 'z > 0', v.z
    if s.is_during_day != (alt >= 0):
        return 'is_during_day', alt >= 0, s.is_during_day
    ay = s.azimuth_from_y_axis
    if not (0.0 <= ay <= 360.0) or _circ(ay, az - north) > 1e-9:
        return 'azimuth_from_y_axis', (az - north) % 360.0, ay
    from ladybug_geometry.geometry3d.pointvector import Point3D
    p = s.position_3d(Point3D(1.0, 2.0, 3.0), 10.0)
    if max(abs(p.x - (1.0 + 10 * rv.x)), abs(p.y - (2.0 + 10 * rv.y)), abs(p.z - (3.0 + 10 * rv.z))) > 1e-9:
        return 'position_3d', 'origin + radius * reversed', (p.x, p.y, p.z)
    return None


def _check_vector(inp):
    from ladybug.sunpath import Sun
    from ladybug.dt import DateTime
    alt, az, north = inp['alt'], inp['az'], inp['north']
    s = Sun(DateTime(1, 1, 0, 0), alt, az, False, False, north)
    bad = _vector_facts(alt, az, north, s)
    if bad:
        return {'required': bad[1], 'observed': bad[2], 'sig': {'what': bad[0], 'via': 'Sun'}}
    return None


def _check_sunvec(inp):
    s = _sun_from(inp).calculate_sun_from_moy(inp['moy'], bool(inp.get('solar')))
    bad = _vector_facts(s.altitude, s.azimuth, inp.get('north', 0.0), s, tol=1e-9)
    if bad:
        return {'required': bad[1], 'observed': bad[2], 'sig': {'what': bad[0], 'via': 'Sunpath'}}
    if not (-90.0 <= s.altitude <= 90.0):
        return {'required': 'altitude in [-90, 90]', 'observed': s.altitude, 'sig': {'what': 'altitude-range'}}
    return None


CHECKS = {
    'ephemeris': (_check_ephemeris, 'ephemeris_agreement_0.05deg'),
    'entry': (_check_entry, 'entry_points_same_sun'),
    'tzshift': (_check_tzshift, 'timezone_clock_shift_0.01deg'),
    'noon': (_check_noon, 'solar_noon_due_south_north_and_highest'),
    'solar_tz': (_check_solar_tz, 'solar_time_sun_independent_of_zone'),
    'vector': (_check_vector, 'sun_vector_identities'),
    'sunvec': (_check_sunvec, 'sun_vector_identities'),
}


def check_case(op, inp):
    if op not in CHECKS:
        raise ValueError('unknown op ' + op)
    return CHECKS[op][0](inp)


replay = check_case

# Fixed corpus: the witnesses of the two repaired defects (sun at the zenith at solar noon: crash; solar noon in the
# southern hemisphere: azimuth 180 instead of 0) and literal regression points.
CORPUS = [
    ('ephemeris', {'lat': -22.95717347119991, 'lon': 0.0, 'tz': 0.0, 'leap': False, 'moy': 720, 'solar': True}),
    ('ephemeris', {'lat': 4.723390098365789, 'lon': 0.0, 'tz': 0.0, 'leap': False, 'moy': 130320, 'solar': True}),
    ('noon', {'lat': -33.8688, 'lon': 151.2093, 'tz': 10.0, 'north': 0.0, 'leap': False, 'doy': 356}),
    ('ephemeris', {'lat': -33.8688, 'lon': 151.2093, 'tz': 10.0, 'leap': False, 'moy': 511920, 'solar': True}),
    ('ephemeris', {'lat': 40.7128, 'lon': -74.006, 'tz': -5.0, 'leap': False, 'moy': 247680}),
    ('ephemeris', {'lat': -33.8688, 'lon': 151.2093, 'tz': 10.0, 'leap': True, 'moy': 512000}),
    ('ephemeris', {'lat': 78.22, 'lon': 15.65, 'tz': 1.0, 'leap': False, 'moy': 247000}),
    ('ephemeris', {'lat': 0.0, 'lon': 0.0, 'tz': None, 'leap': False, 'moy': 113040, 'solar': True}),
    ('solar_tz', {'lat': 40.0, 'lon': -180.0, 'tz': 14.0, 'north': 0.0, 'leap': False, 'moy': 113040}),
    ('vector', {'alt': 0.0, 'az': 180.0, 'north': 0.0}),
    ('vector', {'alt': -0.0, 'az': 10.0, 'north': 90.0}),
    ('vector', {'alt': 90.0, 'az': 0.0, 'north': -360.0}),
]


def _cfg_inp(c, **kw):
    d = {'lat': c[0], 'lon': c[1], 'tz': c[2], 'north': c[3], 'leap': c[4]}
    d.update(kw)
    return d


def _solar_ok(c):
    """Ephemeris comparison of solar-time suns only where the zone is consistent with the longitude."""
    return c[2] is None or abs(c[2] - c[1] / 15.0) <= 1.0


def _oracle_cases(ctx):
    rng = ctx.rng
    big = ctx.searching or not ctx.quick
    bm = {False: _boundary_moys(False), True: _boundary_moys(True)}
    for op, inp in CORPUS:
        yield op, inp
    # ephemeris: structured product + random
    n_cfg = 24 if ctx.quick else 60
    cfgs = [_rand_cfg(rng, north=False) for _ in range(n_cfg)]
    cfgs += [(la, lo, tz, 0.0, False) for la, lo, tz in
             ((89.999, 0.0, 0.0), (-89.999, 179.99, 12.0), (0.0, -180.0, -12.0), (23.4378, 77.2, 5.5),
              (-23.4378, -43.2, -3.0), (66.5622, 25.7, 2.0), (51.5, 0.0, 14.0), (51.5, 0.0, -12.0),
              (35.7, 139.7, 9.0), (-54.8, -68.3, -3.0))]
    for c in cfgs:
        for leap in (False, True):
            cc = (c[0], c[1], c[2], c[3], leap)
            n = 1440 * _ydays(leap)
            for m in bm[leap][::(7 if ctx.quick else 1)]:
                yield 'ephemeris', _cfg_inp(cc, moy=m)
            for _ in range(120 if ctx.quick else 400):
                m = rng.randrange(n)
                solar = rng.random() < 0.2 and _solar_ok(cc)
                yield 'ephemeris', _cfg_inp(cc, moy=m, solar=solar)
    for _ in range(10000 if not big else 60000):
        c = _rand_cfg(rng, north=False)
        solar = rng.random() < 0.2 and _solar_ok(c)
        yield 'ephemeris', _cfg_inp(c, moy=_rand_moy(rng, c[4], bm), solar=solar)
    # entry points
    for _ in range(1500 if not big else 20000):
        c = _rand_cfg(rng)
        yield 'entry', _cfg_inp(c, moy=_rand_moy(rng, c[4], bm), solar=rng.random() < 0.2)
    # time-zone + clock shift
    for _ in range(1500 if not big else 20000):
        c = _rand_cfg(rng, north=False)
        tz = _eff_tz(c[1], c[2]) if c[2] is None else c[2]
        shift = rng.choice([1.0, -1.0, 0.5, -0.5, 2.0, -3.0])
        n = 1440 * _ydays(c[4])
        m = _rand_moy(rng, c[4], bm)
        if not (-12.0 <= tz + shift <= 14.0) or not (0 <= m + int(round(60 * shift)) < n):
            continue
        yield 'tzshift', _cfg_inp(c, tz=tz, moy=m, shift=shift)
    # solar-time suns vs the configured zone (zones more than 1 h from the longitude: known finding; 0.017 deg/h, doubled by refraction at the horizon)
    # (only zones within 1 h are generated at random; the inconsistent-zone witness is in the fixed corpus, so the
    # known finding is reported once and does not crowd out the failure list)
    for _ in range(600 if not big else 8000):
        c = _rand_cfg(rng, north=False)
        tz = max(-12.0, min(14.0, c[1] / 15.0 + rng.choice([-1.0, -0.5, 0.0, 0.5, 1.0, rng.uniform(-1, 1)])))
        if abs(tz - c[1] / 15.0) > 1.0:
            continue
        yield 'solar_tz', _cfg_inp(c, tz=tz, moy=_rand_moy(rng, c[4], bm))
    # solar noon
    for _ in range(400 if not big else 6000):
        c = _rand_cfg(rng, north=False)
        yield 'noon', _cfg_inp(c, doy=rng.randrange(1, _ydays(c[4]) + 1))
    # vector clause
    for a in (0.0, -0.0, 1e-9, -1e-9, 90.0, -90.0, 45.0, -30.0):
        for z in (0.0, 90.0, 180.0, 270.0, 360.0, 123.4):
            for no in (0.0, 90.0, -90.0, 360.0, -360.0, 17.0):
                yield 'vector', {'alt': a, 'az': z, 'north': no}
    for _ in range(1500 if not big else 20000):
        yield 'vector', {'alt': rng.uniform(-90.0, 90.0), 'az': rng.uniform(0.0, 360.0),
                         'north': rng.choice(NORTHS) if rng.random() < 0.5 else rng.uniform(-360.0, 360.0)}
    for _ in range(1500 if not big else 20000):
        c = _rand_cfg(rng)
        yield 'sunvec', _cfg_inp(c, moy=_rand_moy(rng, c[4], bm), solar=rng.random() < 0.2)


def _dense_ephemeris(args):
    """Worker of the thorough tier: one configuration, every `step`-th minute of one year."""
    c, leap, step, off = args
    bad = []
    n = 1440 * _ydays(leap)
    cnt = 0
    for m in range(off, n, step):
        inp = _cfg_inp((c[0], c[1], c[2], 0.0, leap), moy=m)
        try:
            res = _check_ephemeris(inp)
        except Exception as e:
            res = {'required': 'oracle evaluates', 'observed': 'exception %s: %s' % (type(e).__name__, e),
                   'sig': {'exception': type(e).__name__}}
        cnt += 1
        if res and len(bad) < 5:
            bad.append((inp, res))
    return cnt, bad


def oracle(ctx):
    def chk(op, inp):
        res = check_case(op, inp)
        ctx.subclaim(CHECKS[op][1], res is None)
        return res

    run_oracle_cases(ctx, _oracle_cases(ctx), chk)
    if not ctx.quick and not any(f['op'] == 'ephemeris' for f in ctx.failures):
        # dense sweep: lat x lon x tz configurations, every 7th minute of both years, 4 worker processes
        import multiprocessing
        rng = ctx.rng
        cfgs = [(la, lo, tz) for la, lo, tz in
                ((40.7128, -74.006, -5.0), (-33.8688, 151.2093, 10.0), (0.0, 0.0, 0.0), (78.22, 15.65, 1.0),
                 (-77.85, 166.67, 12.0), (23.4378, 77.2, 5.5), (64.1, -21.9, 0.0), (1.35, 103.8, 8.0))]
        cfgs += [_rand_cfg(rng, north=False)[:3] for _ in range(24)]
        jobs = [(c, leap, 7, rng.randrange(7)) for c in cfgs for leap in (False, True)]
        with multiprocessing.Pool(4) as pool:
            for cnt, bad in pool.imap_unordered(_dense_ephemeris, jobs):
                ctx.count('oracle:ephemeris_dense', cnt)
                d = ctx.subclaims.setdefault(CHECKS['ephemeris'][1], {'evaluations': 0, 'failures': 0})
                d['evaluations'] += cnt
                ctx.evaluations += cnt
                for inp, res in bad:
                    d['failures'] += 1
                    ctx.fail('ephemeris', inp, res.get('required'), res.get('observed'), res.get('sig'))


LEVEL_TEXT = ('Machine-checked Lean 4 theorems over the real-number instance of an executable model of '
              'sunpath.py (the same polymorphic definitions whose Float instance is compared bit-for-bit with the '
              'real code on every run): the three entry points build the same date-time hence the same sun; '
              'is_during_day <=> altitude >= 0; the sun vector is a unit vector equal to -R_z(north) applied to '
              '(sin az cos alt, cos az cos alt, sin alt) and points down exactly by day; azimuth quadrant and hour '
              'angle ranges; the 2016/2017 day-count literals equal the general formula; solar noon maximises the '
              'geometric altitude for a fixed declination. PARTIAL: agreement with the independent ephemeris '
              '(0.05 deg), time-zone shift invariance and the noon claim on the real code are sampled sub-claims.')
LEVEL_NOTE = ('Trusted: Lean kernel; axioms propext/Classical.choice/Quot.sound only; correspondence on generated '
              'inputs only; IEEE/libm vs real arithmetic not proved; ladybug_geometry rotations transcribed; the '
              'independent ephemeris of the harness is the reference of the sampled sub-claim.')
TECHNIQUE = ('regenerated Lean definitions of the sunpath.py formulas proved equal to the model (rfl); Lean 4 proof over R (Mathlib trigonometry: sin^2+cos^2, arccos range, floor) about a polymorphic model '
             'tied to sunpath.py by the translator and by differential correspondence of its Float instance; sampled '
             'ephemeris comparison')
