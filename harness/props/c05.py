"""C05 — Sun positions agree with an independent astronomical ephemeris.

Model: lean/Ladybug/Model/Sun.lean (generic over Transc; Float instance run by drv_c05, real instance
in Ladybug/RealInst.lean); theorems: lean/Ladybug/Props/C05.lean.
Tie: (T) tools/extract/sun_formulas.py regenerates Gen/SunFormulas.lean from sunpath.py (NOAA series, solar time,
hour angle, zenith/altitude, refraction branches, az_init, azimuth branches and handlers, Sun properties) and
Proofs/C05Gen.lean proves each generated piece equal to the model definition; (C) correspondence on the ops below
(the only tie for the day count, the day-fraction rounding, int()/round() of float hours, the setters, the exception
conditions, float %, the sun vector).  Numeric property, partial by nature (DESIGN.md sections 6, 9):
closeness to the independent ephemeris, time-zone shift invariance and the noon claim on the real code
are SAMPLED SUB-CLAIMS (tests), reported under sampled_subclaims, never counted as theorems.

ROUND 3 (histories, failure paths, process order, consumers, rare classes):
* Object state machine: Model/SunObj.lean (`Sun.Obj`, `Sun.Op`, `Sun.step`, `Sun.run`; five slots, no hidden state),
  driven step by step by the `hist` op of drv_c05 against ONE real Sunpath object: every setter (accepted, refused by
  assertion, unconvertible argument), every read entry point, the getters, and every other public method (analemmas,
  sunrise/sunset, day arcs, 2D projections, the daylight-saving setter; returning or raising) as state-neutral ops.
  The pinned code: the four numeric setters assign before they assert (known finding C05-refused-setter-applied,
  theorem C05_refused_setter_counterexample).  Which order each setter has is READ OFF THE SOURCE on every run
  (`_setter_order`, part of the translator tie) and parameterises the model (`Sun.Validate`), so the correspondence
  stays exact on the pinned tree and on a tree where the setters are repaired (fixes/C11_setters_validate_first.patch
  repairs exactly this; then the finding no longer fires and C05_refused_setter_preserves /
  C05_history_refines_fresh_validating are the theorems that apply).
* History oracle (independent of the model): after every step the suns of the used object = the suns of a FRESH
  object built from the state the user has established (refused operations establish nothing) = the independent
  ephemeris for that state; failures name the step and the sun that is wrong.
* Process order: a slice of cases (one calendar instant under configurations differing in one respect, histories,
  consumers, refused calls) runs in 3-4 fresh Python subprocesses in different orders (rare classes first in one);
  every case must pass and compute bit-identical values in all of them; a main-stream failure that passes alone in a
  fresh process is re-reported as an `order` replay ({"order": [...]}, shrunk).
* Consumers of each modelled producer (each exercised by correspondence `C` and/or oracle `O`):
    _calculate_solar_geometry      -> calculate_sun_from_date_time (C geom, sun; O ephemeris);
                                      calculate_sunrise_sunset_from_datetime (C11; here a state-neutral history op)
    _calculate_solar_time          -> calculate_sun_from_date_time (C soltime, sun; O ephemeris, tzshift)
    calculate_sun_from_date_time   -> calculate_sun, _from_hoy, _from_moy (C sun_mdh/hoy/moy, hist; O entry),
                                      analemma_suns, hourly_analemma_suns (O consumers), hourly_analemma_polyline3d/2d,
                                      day_arc3d (O consumers: arc end points), day_polyline2d, monthly_day_arc3d/2d
                                      (history ops)
    time_zone / latitude / longitude / north_angle / is_leap_year setters
                                   -> every read (C hist; O history), getters (C hist)
    Location (ctor, setters, duplicate, to_dict/from_dict, to_idf/from_idf, from_location)
                                   -> Sunpath.from_location (O location)
    Sun.__init__/_calculate_sun_vector -> sun_vector, sun_vector_reversed, is_during_day, azimuth_from_y_axis (C vec;
                                      O vector, sunvec), position_3d, position_2d (both projections),
                                      altitude/azimuth_in_radians, hoy (O consumers)
* Rare classes as strata (counted in evidence): exact zeros / -0.0 / ints for latitude, longitude, zone, north; zone 0
  away from Greenwich; exact bounds (+-90, +-180, -12/14, +-360); leap year first; 29 Feb on both year kinds; refused
  dates / hours / minutes of the year; Location without zone; solar-time flag.

ROUND 4 (override gaps, aliasing, conventions, numeric edges, input shapes, rare branches):
* Every concrete class of date-time argument: ladybug DateTime (leap / non-leap, on a sunpath of the same or the other
  year kind) AND native `datetime.datetime` of any year 1950-2050 (the `except AttributeError` float-hour branch, the
  general-year branch of `_days_from_010119`, the conversion to a 2016 DateTime on a leap-year sunpath): model
  `Sun.sunOfNative` (Model/SunExt.lean; driver op `sun_py`), oracle op `pydt` (ephemeris of the true year; same sun as
  the DateTime of the same instant; label and flags).
* Daylight-saving hours of `calculate_sun_from_date_time` (`hour - 1`; with the solar-time flag in the first clock hour
  the ONLY public way into the `sol_time < 0` arm of the hour-angle line): model `Sun.sunOfDTDst` (driver op `sun_dst`,
  the flag derived by the harness from the period's minutes of the year), oracle op `dst` (the sun of the reading one hour
  earlier, by the ephemeris and by the object without a period; outside the period nothing changes; `is_daylight_saving`).
  Whether an hour IS a daylight-saving hour for exotic periods stays with C11.
* Conventions between the anchored functions (kind g): `Sun(...)` flags (`is_solar_time`, `is_daylight_saving`,
  `north_angle` in degrees) are checked on every sun of the entry / pydt / dst / sunvec oracles; leap vs common-year
  minute / hour of the year through every entry point; month/day vs minute of year; degrees vs radians through getters.
* Input shapes (kind i): every number of the constructor / the setters also as TEXT (repr, exponent notation, padded,
  signed, underscore, full-width digits) and as int / bool; minute of the year as int, float, text; whole hours as int;
  `is_solar_time` as 0/1; Location through EVERY way `Sunpath.from_location` accepts: Location object (constructor with
  numbers or text, setters, duplicate, dict round trip, partial dict in unsorted insertion order, `Autocalculate` zone,
  IDF round trip, hand-written IDF text with comments / exponents / plus signs), IDF string, `key: value` string, bare
  city name, None / '', Revit-style object.
* Aliasing (kind f): every container returned (analemma lists, the 24 hourly lists) is emptied / extended in place and
  the question asked again; results kept across later calls on the same and on another object must not change; `Sun.data`
  set on one sun must not show on another; the dict given to `Location.from_dict` and the Location given to
  `Sunpath.from_location` are not modified / not kept; every kept Sun of a history is re-read at the end.
  (The sunpath API takes no sequence arguments, so there is no one-shot-iterable argument to feed.)
* Branches of the anchored functions (kind j) are COUNTED: a census runs a slice of the oracle under `sys.settrace`
  and records, for every `if` / `else` / `except` / loop arm of the anchored functions of sunpath.py and location.py
  (found by `ast`), whether it was reached: counters `branch:<function>:<source line>` / `branch_unreached:...`;
  conditional EXPRESSIONS (no line of their own) are counted from the inputs: `branchx:tz_none`, `branchx:dst_hour`,
  `branchx:soltime_negative`, `branchx:native_datetime`, `branchx:leap_conversion`, `branchx:refraction:*`,
  `branchx:azimuth_from_y:*`, `branchx:pole_nudge`.  Unreachable through the public API: the Python-2 `xrange` line,
  `_calculate_solar_time_by_doy` (raises NotImplementedError first), and - without a daylight-saving period - the
  `sol_time < 0` arm.

The independent ephemeris below is the low-precision algorithm of The Astronomical Almanac (section C,
"Low precision formulas for the Sun's coordinates", 1950-2050) with Saemundsson's refraction formula;
nothing of it is taken from NOAA's series or from ladybug.
"""
import math
import struct
from datetime import datetime, timedelta

from harness import core
from harness.core import err_name, run_oracle_cases

PROP = 'C05'
PROOF_MODULES = ['Ladybug.Props.C05', 'Ladybug.Proofs.C05Gen']
GREP_MODULES = ['Ladybug.Gen.SunFormulas', 'Ladybug.Py', 'Ladybug.Transc', 'Ladybug.RealInst', 'Ladybug.Model.Cal', 'Ladybug.Model.Sun', 'Ladybug.Model.SunObj', 'Ladybug.Model.SunExt',
                'Ladybug.Proofs.CalLemmas', 'Ladybug.Props.C08', 'Ladybug.Proofs.C05Real', 'Ladybug.Proofs.C05Lemmas', 'Ladybug.Proofs.C05Obj', 'Ladybug.Drv.C05', 'Ladybug.DrvCore']
RULE = ('correspondence: Float instance of the model vs the real functions at the public API '
        '(calculate_sun, _from_hoy, _from_moy, _from_date_time -> datetime, altitude, azimuth, sun_vector, '
        'sun_vector_reversed, is_during_day, azimuth_from_y_axis) and at the anchored helpers '
        '(_days_from_010119, _calculate_hour_and_minute, _calculate_solar_geometry, _calculate_solar_time, Sun()), '
        'floats as IEEE bit patterns, tolerance 1e-9 absolute (azimuth circular); inputs: latitude/longitude/'
        'time-zone/north boundary sets (poles, tropics, polar circles, date line, fractional and solar zones) x '
        'month/day/minute boundaries (month ends, 29 Feb, day-fraction rounding ties, 0:00, 23:59) + uniform '
        'random; a case is non-trivial when the implementation returns a sun; distinct = distinct request line. '
        'oracle (sampled sub-claims): altitude within 0.05 deg of Almanac+Saemundsson when the sun is visible '
        '(geometric altitude >= -0.575), between the geometric altitude and geometric + horizon refraction '
        'continued by the cotangent law when below the horizon (no standard refraction model is defined '
        'there), azimuth within 0.05 deg of great-circle distance (0.05/cos(altitude)); same sun by the three '
        'entry points; tz+clock shift within 0.01 deg; solar noon due south/north and highest; vector identities '
        'within 1e-12; histories on ONE object (setters accepted / refused / unconvertible, reads through all entry '
        'points, getters, other methods returning or raising; the same questions asked again after every change): model '
        'state machine vs the object step by step, and used object = fresh object of the established state = ephemeris; '
        'consumers (analemmas, positions, arcs) report the producer\'s suns; from_location over all ways of making a '
        'Location; refused calls stay refused; 3-4 fresh subprocesses run one slice in different orders (rare classes '
        'first) and must agree bit for bit; ROUND 4: native datetime.datetime of the years 1900-2150 (model) / 1950-2050 '
        '(ephemeris) next to ladybug DateTimes; daylight-saving hours (period ends, first clock hour with the solar-time flag); '
        'numbers as text / int / bool through the constructor, the setters, the minute of the year and every Location route '
        '(IDF text, key:value text, dict in unsorted order, Revit-style object, None); constructor defaults and keywords; '
        'returned containers edited in place and asked again; a census of the branch arms of the anchored functions '
        '(counters branch:* / branch_unreached:*)')
TRUSTED_BASE = [
    'translator tools/extract/pyexpr2lean.py + sun_formulas.py: that the emitted Lean expression denotes the Python '
    'expression (every generated piece is also run by the driver through the model it is proved equal to)',
    'modelled, not verified: CPython float arithmetic and libm (sin cos tan asin acos pow sqrt floor) = Lean Float '
    'primitives on this machine (compared: the model is bit-identical to the code on every generated case); '
    'round(m/1440.0, 2) and int()/round() of float hours modelled on integers/rationals and compared exhaustively',
    'modelled, not verified: ladybug_geometry Vector3D.rotate / rotate_xy / reverse (transcribed into the model; '
    'compared through sun_vector)',
    'IEEE evaluation vs real evaluation of the NOAA series is not proved; the 0.05 deg agreement with the '
    'independent ephemeris is sampled on the real code, not a theorem',
    'the independent ephemeris (Astronomical Almanac low-precision Sun + Saemundsson refraction, in this file) is '
    'the reference for the sampled sub-claim; its own stated precision is 0.01 deg (1950-2050)',
    'daylight saving: that an hour is a daylight-saving hour is derived by the harness from the period\'s start / end minute '
    'of the year (start inclusive, end exclusive, wrapping periods) for hour-aligned periods of the sunpath\'s own year kind; '
    'everything else about daylight saving is C11\'s',
    'the object state machine (Model/SunObj.lean) is hand-written; it is tied to the code by the step-by-step history '
    'correspondence only (generated histories of this run); methods other than setters/reads/getters are modelled as '
    'state-neutral and their own results are not modelled (analemma suns are compared with the producer by the oracle)',
]
ASSUMPTIONS = ['years 2016 (leap) / 2017 (normal) as fixed by ladybug DateTime',
               'is_solar_time suns are compared with the ephemeris only for time zones within one hour of '
               'longitude/15 (the code evaluates the declination at the clock time of the configured zone; '
               'zones further than 1 h away are the known finding C05-solar-time-depends-on-time-zone)',
               'daylight-saving hours (outside the property\'s quantifier; C11 owns which hours they are): the sun of a '
               'reading inside the period is taken to be the sun of the reading one hour earlier, for clock-time AND for '
               'solar-time readings (the code subtracts the hour in both cases; with the solar-time flag this makes '
               '"12:00" the sun of 11:00 solar time - recorded here as the code\'s convention, not judged)',
               'native datetime.datetime arguments: whole minutes, no tzinfo (the code ignores seconds and tzinfo); on a '
               'leap-year sunpath a native date-time of any year stands for the same month/day/hour/minute of 2016']

TOL = 1e-9


def extract(ctx):
    """(T) regenerate Gen/SunFormulas.lean from sunpath.py; Proofs/C05Gen.lean proves every generated piece equal
    to its definition in Model/Sun.lean."""
    from tools.extract import sun_formulas
    ctx.sun_gen = sun_formulas.extract()
    ctx.count('translated_pieces', len(ctx.sun_gen['translated']))
    global _VALIDATE
    _VALIDATE = _setter_order()
    ctx.count('setters_validate_first', sum(_VALIDATE))


_VALIDATE = None
_SETTER_SLOTS = (('latitude', '_latitude'), ('longitude', '_longitude'), ('time_zone', '_time_zone'),
                 ('north_angle', '_north_angle'))


def _setter_order():
    """Read off sunpath.py, for each numeric Sunpath setter, whether the range assertion stands BEFORE the first
    assignment to the slot (True: a refused value never reaches the object) or after it (False: the pinned code).
    The four flags parameterise the model's `step` (Sun.Validate)."""
    import ast
    import os
    from tools.extract.common import ExtractError
    path = os.path.join(core.REPO, 'ladybug', 'sunpath.py')
    with open(path) as f:
        tree = ast.parse(f.read())
    cls = [n for n in tree.body if isinstance(n, ast.ClassDef) and n.name == 'Sunpath']
    if not cls:
        raise ExtractError('ladybug/sunpath.py: class Sunpath not found')
    flags = []
    for name, slot in _SETTER_SLOTS:
        fn = None
        for n in cls[0].body:
            if isinstance(n, ast.FunctionDef) and n.name == name and any(
                    isinstance(d, ast.Attribute) and d.attr == 'setter' for d in n.decorator_list):
                fn = n
        if fn is None:
            raise ExtractError('ladybug/sunpath.py: setter Sunpath.%s not found' % name)
        first_assign = first_assert = None
        for i, st in enumerate(fn.body):
            if isinstance(st, ast.Assert) and first_assert is None:
                first_assert = i
            for sub in ast.walk(st):
                if isinstance(sub, (ast.Assign, ast.AugAssign)):
                    targets = sub.targets if isinstance(sub, ast.Assign) else [sub.target]
                    for t in targets:
                        if isinstance(t, ast.Attribute) and t.attr == slot and first_assign is None:
                            first_assign = i
        if first_assign is None or first_assert is None or first_assign == first_assert:
            raise ExtractError('ladybug/sunpath.py:%d Sunpath.%s setter: expected one top-level assert and an '
                               'assignment to self.%s' % (fn.lineno, name, slot))
        flags.append(first_assert < first_assign)
    return tuple(flags)


# ---------------------------------------------------------------------------------------------
# helpers


def _fbits(x):
    return '%016x' % struct.unpack('<Q', struct.pack('<d', float(x)))[0]


def _bits2f(s):
    return struct.unpack('<d', struct.pack('<Q', int(s, 16)))[0]


def _b(x):
    return '1' if x else '0'


def _ydays(leap):
    return 366 if leap else 365


def _ref(leap, moy):
    return datetime(2016 if leap else 2017, 1, 1) + timedelta(minutes=moy)


def _tz_tok(tz):
    return 'none' if tz is None else _fbits(tz)


def _cfg_toks(c):
    """c = (lat, lon, tz, north, leap)"""
    return '%s %s %s %s %s' % (_fbits(c[0]), _fbits(c[1]), _tz_tok(c[2]), _fbits(c[3]), _b(c[4]))


def _sunpath(c):
    from ladybug.sunpath import Sunpath
    sp = Sunpath(c[0], c[1], c[2], c[3])
    sp.is_leap_year = c[4]
    return sp


def _show_sun(s):
    d = s.datetime
    v, r = s.sun_vector, s.sun_vector_reversed
    return 'ok %d %d %d %d %s %s %s %s %s %s %s %s %s %s %s' % (
        d.month, d.day, d.hour, d.minute, _b(d.leap_year), _fbits(s.altitude), _fbits(s.azimuth),
        _fbits(v.x), _fbits(v.y), _fbits(v.z), _fbits(r.x), _fbits(r.y), _fbits(r.z),
        _b(s.is_during_day), _fbits(s.azimuth_from_y_axis))


def _dt_leap(d):
    """Year kind of the date-time a Sun carries (ladybug DateTime or native datetime)."""
    lp = getattr(d, 'leap_year', None)
    if lp is None:
        import calendar
        lp = calendar.isleap(d.year)
    return bool(lp)


def _show_sun_y(s):
    """`_show_sun` for a sun whose date-time may be a native datetime: the year first."""
    d = s.datetime
    v, r = s.sun_vector, s.sun_vector_reversed
    return '%d ok %d %d %d %d %s %s %s %s %s %s %s %s %s %s %s' % (
        d.year, d.month, d.day, d.hour, d.minute, _b(_dt_leap(d)), _fbits(s.altitude), _fbits(s.azimuth),
        _fbits(v.x), _fbits(v.y), _fbits(v.z), _fbits(r.x), _fbits(r.y), _fbits(r.z),
        _b(s.is_during_day), _fbits(s.azimuth_from_y_axis))


# daylight-saving periods (month, day, hour, month, day, hour): northern, southern (wrapping the year end), whole
# year, one month, one day
DSPS = [(3, 12, 2, 11, 5, 2), (3, 8, 2, 11, 1, 2), (10, 4, 2, 4, 5, 3), (1, 1, 0, 12, 31, 23), (12, 1, 0, 1, 31, 23),
        (6, 1, 0, 6, 30, 23), (2, 28, 0, 3, 1, 0), (7, 4, 0, 7, 4, 23)]


_AP_CACHE = {}


def _dsp_period(dsp, leap):
    """The AnalysisPeriod of a daylight-saving period.  Kept per (period, year kind): `Sunpath.is_daylight_saving_hour`
    tests the period's truth value, i.e. `len(period)`, which enumerates all its hours (12 ms) the first time."""
    from ladybug.analysisperiod import AnalysisPeriod
    key = (tuple(dsp), bool(leap))
    if key not in _AP_CACHE:
        if len(_AP_CACHE) > 400:
            _AP_CACHE.clear()
        _AP_CACHE[key] = AnalysisPeriod(dsp[0], dsp[1], dsp[2], dsp[3], dsp[4], dsp[5], 1, bool(leap))
    return _AP_CACHE[key]


def _rand_dsp(rng):
    if rng.random() < 0.98:
        return rng.choice(DSPS)
    while True:
        d = (rng.randrange(1, 13), rng.randrange(1, 29), rng.randrange(24), rng.randrange(1, 13),
             rng.randrange(1, 29), rng.randrange(24))
        if d[:3] != d[3:]:
            return d


def _dsp_moys(leap, dsp):
    y = 2016 if leap else 2017
    f = lambda mo, da, h: int((datetime(y, mo, da, h) - datetime(y, 1, 1)).total_seconds() // 60)
    return f(*dsp[:3]), f(*dsp[3:])


def _dst_flag(leap, dsp, moy):
    """Is the clock reading `moy` inside the daylight-saving period (start inclusive, end exclusive; a period whose
    start lies after its end wraps the year end)?"""
    st, en = _dsp_moys(leap, dsp)
    return (st <= moy or moy < en) if st > en else (st <= moy < en)


def _rand_dst_moy(rng, leap, dsp, bm):
    st, en = _dsp_moys(leap, dsp)
    n = 1440 * _ydays(leap)
    r = rng.random()
    if r < 0.2:
        return (st + rng.choice([-1, 0, 1, 59, 60, 61])) % n
    if r < 0.4:
        return (en + rng.choice([-61, -60, -1, 0, 1])) % n
    if r < 0.65:
        return rng.randrange(_ydays(leap)) * 1440 + rng.randrange(60)          # the first clock hour
    return _rand_moy(rng, leap, bm)


NATIVE_YEARS = [2016, 2017, 2017, 2015, 2018, 2019, 2020, 2021, 2024, 2000, 1999, 1950, 2050]


def _rand_native(rng, bm, lo=1950, hi=2050):
    """A native datetime (whole minute) of a year in lo..hi, biased to the boundaries of the calendar."""
    import calendar
    y = rng.choice(NATIVE_YEARS) if rng.random() < 0.6 else rng.randrange(lo, hi + 1)
    y = max(lo, min(hi, y))
    lp = calendar.isleap(y)
    return datetime(y, 1, 1) + timedelta(minutes=_rand_moy(rng, lp, bm))


def _as_text(rng, v):
    """One of the texts `float()` reads as the number v (exactly: repr / 17 significant digits)."""
    x = float(v)
    forms = [repr(x), '%.17g' % x, '%.17e' % x, ' %r ' % x, '\t%r\n' % x]
    if not repr(x).startswith('-'):
        forms.append('+%r' % x)
    if x == int(x) and abs(x) < 1e6 and not repr(x).startswith('-0'):
        forms += [str(int(x)), '%d.' % int(x), '%d.000' % int(x)]
        if abs(x) >= 10:
            t = str(int(x))
            forms.append(t[:-1] + '_' + t[-1])                                  # 1_0
            forms.append(''.join(chr(0xFF10 + int(ch)) if ch.isdigit() else ch for ch in t))   # full-width digits
    return rng.choice(forms)


_HEX = set('0123456789abcdef')


def _same(mo, io, circular=()):
    """Compare two response lines token by token; 16-hex-digit tokens are floats compared within TOL
    (tokens whose index is in `circular` modulo 360).  Returns (equal, bit_exact)."""
    if mo == io:
        return True, True
    a, b = mo.split(), io.split()
    if len(a) != len(b):
        return False, False
    for i, (x, y) in enumerate(zip(a, b)):
        if x == y:
            continue
        if len(x) == 16 and len(y) == 16 and set(x) <= _HEX and set(y) <= _HEX:
            fx, fy = _bits2f(x), _bits2f(y)
            if fx != fx or fy != fy:
                return False, False
            d = abs(fx - fy)
            if i in circular:
                d = min(d, abs(d - 360.0))
            if d <= TOL:
                continue
        return False, False
    return True, False


def _compare(ctx, op, cases, model_line, impl_fn, circular=()):
    """compare_batch with float tolerance (README: floats by bits or a stated tolerance)."""
    drv = ctx.driver()
    lines = [model_line(c) for c in cases]
    outs = drv.run(lines)
    for c, line, mo in zip(cases, lines, outs):
        try:
            io = impl_fn(c)
        except Exception as e:
            io = 'err:' + err_name(e)
        ctx.compared += 1
        ctx.count('op:' + op)
        ctx.case((op, line), nontrivial=not io.startswith('err:'))
        if io.startswith('err:'):
            ctx.count('err_results')
        eq, exact = _same(mo, io, circular)
        if exact:
            ctx.count('bit_exact')
        if not eq:
            ctx.disagree(op, {'case': c, 'line': line}, mo, io)
    if cases:
        ctx.sample({'op': op, 'request': lines[0], 'model': outs[0]})
    return outs


# ---------------------------------------------------------------------------------------------
# generators (stdlib only)

LATS = [-90.0, -89.999, -66.5622, -45.0, -23.4378, -1e-9, 0.0, 1e-7, 23.4378, 40.7128, 66.5622, 89.999, 90.0]
LONS = [-180.0, -179.99, -122.4, -90.0, -7.5, 0.0, 7.4999, 77.2, 90.0, 151.2, 179.99, 180.0]
TZS = [-12.0, -9.5, -8.0, -3.5, 0.0, 1.0, 5.5, 5.75, 8.0, 9.5, 12.75, 14.0]
NORTHS = [0.0, 0.0, 0.0, 90.0, -90.0, 180.0, 360.0, -360.0, 1e-9, 45.5]
TIE_MINUTES = [36, 108, 180, 252, 324, 396, 468, 540, 612, 684, 756, 828, 900, 972, 1044, 1116, 1188, 1260,
               1332, 1404]


def _boundary_moys(leap):
    out = set()
    year = 2016 if leap else 2017
    for m in range(1, 13):
        start = int((datetime(year, m, 1) - datetime(year, 1, 1)).total_seconds() // 60)
        for k in (-1, 0, 1, 720, 1439):
            out.add(start + k)
    n = 1440 * _ydays(leap)
    for doy in (59, 60, 79, 80, 172, 173, 265, 266, 355, 356):      # 28/29 Feb, equinoxes, solstices
        for k in (0, 360, 719, 720, 721, 1080) + tuple(TIE_MINUTES[:6]):
            out.add((doy - 1) * 1440 + k)
    return sorted(x for x in out if 0 <= x < n)


def _rand_tz(rng, lon):
    r = rng.random()
    if r < 0.25:
        return None
    if r < 0.55:
        return float(max(-12, min(14, round(lon / 15.0))))
    if r < 0.75:
        return rng.choice(TZS)
    return rng.uniform(-12.0, 14.0)


def _rand_cfg(rng, north=True):
    lat = rng.choice(LATS) if rng.random() < 0.35 else rng.uniform(-90.0, 90.0)
    lon = rng.choice(LONS) if rng.random() < 0.35 else rng.uniform(-180.0, 180.0)
    tz = _rand_tz(rng, lon)
    no = rng.choice(NORTHS) if (rng.random() < 0.7 or not north) else rng.uniform(-360.0, 360.0)
    return (lat, lon, tz, no, rng.random() < 0.5)


def _rand_moy(rng, leap, bm):
    r = rng.random()
    if r < 0.3:
        return rng.choice(bm[leap])
    if r < 0.4:
        return rng.randrange(_ydays(leap)) * 1440 + rng.choice(TIE_MINUTES)
    return rng.randrange(1440 * _ydays(leap))


def correspondence(ctx):
    from ladybug.sunpath import Sunpath, Sun
    from ladybug.dt import DateTime
    rng = ctx.rng
    bm = {False: _boundary_moys(False), True: _boundary_moys(True)}

    # --- _days_from_010119: every date of 2016 and 2017, century rules, other years
    cases = []
    for y in (2016, 2017):
        d = datetime(y, 1, 1)
        while d.year == y:
            cases.append((y, d.month, d.day))
            d += timedelta(days=1)
    for y in [1899, 1900, 1901, 1904, 1999, 2000, 2001, 2015, 2018, 2020, 2024, 2100, 2101] + \
            [rng.randrange(1900, 2200) for _ in range(ctx.n(40, 400))]:
        for m, dd in ((1, 1), (2, 28), (3, 1), (12, 31), (rng.randrange(1, 13), rng.randrange(1, 29))):
            cases.append((y, m, dd))
    _compare(ctx, 'days', cases, lambda c: 'days %d %d %d' % c,
             lambda c: 'ok %d' % Sunpath._days_from_010119(*c))

    # --- day fraction round(m / 1440.0, 2): all minutes of the day (the expression of _calculate_solar_geometry)
    cases = list(range(1440))
    _compare(ctx, 'frac', cases, lambda c: 'frac %d' % c,
             lambda c: 'ok %d' % int(round(round((c % 60 + (c // 60) * 60) / 1440.0, 2) * 100)))

    # --- _calculate_hour_and_minute on float hours: all 1440 (h, m), half-minute ties, epsilons, random
    cases = []
    for h in range(24):
        for m in range(60):
            cases.append(h + m / 60.0)
    for _ in range(ctx.n(1500, 40000)):
        h, m = rng.randrange(24), rng.randrange(60)
        cases.append(h + (m + rng.choice([0.5, 0.49, 0.51, 1e-9, -1e-9, 0.999999])) / 60.0)
        cases.append(rng.uniform(0.0, 24.0))
    cases = [c for c in cases if c >= 0.0]
    _compare(ctx, 'hm', cases, lambda c: 'hm ' + _fbits(c),
             lambda c: 'ok %d %d' % Sunpath._calculate_hour_and_minute(c))

    # --- _calculate_solar_geometry: declination (radians) and equation of time (minutes)
    cases = []
    for _ in range(ctx.n(8000, 80000)):
        leap = rng.random() < 0.5
        r = _ref(leap, _rand_moy(rng, leap, bm))
        tz = rng.choice(TZS) if rng.random() < 0.5 else rng.uniform(-12.0, 14.0)
        cases.append((tz, leap, r.month, r.day, r.hour, r.minute))

    def impl_geom(c):
        sp = Sunpath(0, 0, c[0])
        dec, eot = sp._calculate_solar_geometry(DateTime(c[2], c[3], c[4], c[5], c[1]))
        return 'ok %s %s' % (_fbits(dec), _fbits(eot))

    _compare(ctx, 'geom', cases,
             lambda c: 'geom %s %s %d %d %d %d' % (_fbits(c[0]), _b(c[1]), c[2], c[3], c[4], c[5]), impl_geom)

    # --- sun exactly at the zenith (clamped acos, ZeroDivisionError branch): latitude := the MODEL's
    #     declination for the date (not the code's), a few ulps around it, solar-time noon
    zdates = []
    for _ in range(ctx.n(40, 400)):
        leap = rng.random() < 0.5
        r = _ref(leap, rng.randrange(_ydays(leap)) * 1440 + 720)
        zdates.append((rng.choice([0.0, 3.0, -5.0]), leap, r.month, r.day, 12, 0))
    zouts = ctx.driver().run(['geom %s %s %d %d %d %d' % (_fbits(c[0]), _b(c[1]), c[2], c[3], c[4], c[5])
                              for c in zdates])
    zenith_cases = []
    for c, o in zip(zdates, zouts):
        if not o.startswith('ok '):
            continue
        dec = _bits2f(o.split()[1])
        for k in (-2, -1, 0, 1, 2):
            lat = math.degrees(dec) * (1 + k * 2.220446049250313e-16)
            zenith_cases.append(((lat, 0.0, c[0], 0.0, c[1]), True, c[1], c[2], c[3], 12, 0))
            ctx.count('cfg:zenith_sun')

    # --- _calculate_solar_time
    cases = []
    for _ in range(ctx.n(2000, 40000)):
        lon = rng.choice(LONS) if rng.random() < 0.4 else rng.uniform(-180.0, 180.0)
        tz = rng.choice(TZS) if rng.random() < 0.5 else rng.uniform(-12.0, 14.0)
        hour = rng.choice([0.0, 23.0 + 59 / 60.0, 12.0, -1.0, -0.5]) if rng.random() < 0.3 else rng.uniform(0.0, 24.0)
        cases.append((hour, rng.uniform(-17.0, 17.0), lon, tz, rng.random() < 0.2))

    def impl_soltime(c):
        sp = Sunpath(0, c[2], c[3])
        return 'ok ' + _fbits(sp._calculate_solar_time(c[0], c[1], c[4]))

    _compare(ctx, 'soltime', cases,
             lambda c: 'soltime %s %s %s %s %s' % (_fbits(c[0]), _fbits(c[1]), _fbits(c[2]), _fbits(c[3]), _b(c[4])),
             impl_soltime)

    # --- calculate_sun_from_date_time (also with a datetime whose leap flag differs from the sunpath's)
    cases = []
    for _ in range(ctx.n(20000, 200000)):
        c = _rand_cfg(rng)
        solar = rng.random() < 0.3
        dl = c[4] if rng.random() < 0.8 else (rng.random() < 0.5)
        r = _ref(dl, _rand_moy(rng, dl, bm))
        if solar and rng.random() < 0.3:
            r = r.replace(hour=12, minute=0)
        cases.append((c, solar, dl, r.month, r.day, r.hour, r.minute))
        ctx.count('cfg:tz_' + ('solar' if c[2] is None else 'int' if float(c[2]).is_integer() else 'frac'))
        ctx.count('cfg:lat_' + ('pole' if abs(c[0]) == 90 else 'polar' if abs(c[0]) > 66.56 else
                                'tropic' if abs(c[0]) < 23.44 else 'mid'))
        ctx.count('cfg:solar_time_flag' if solar else 'cfg:clock_time')
        ctx.count('cfg:north_zero' if c[3] == 0 else 'cfg:north_nonzero')
    cases += zenith_cases
    circ = (7, 15)

    def impl_sun(c):
        sp = _sunpath(c[0])
        s = sp.calculate_sun_from_date_time(DateTime(c[3], c[4], c[5], c[6], c[2]), c[1])
        ctx.count('sun:day' if s.altitude >= 0 else 'sun:night')
        a = s.altitude
        ctx.count('refraction:' + ('>85' if a > 85 else '5..85' if a > 5.2 else '-0.575..5' if a > 0 else '<=-0.575'))
        ctx.count('branchx:azimuth:' + ('afternoon' if s.azimuth > 180 else 'morning'))
        ctx.count('branchx:leap_conversion:' + ('taken' if c[0][4] and not c[2] else 'not_taken'))
        ctx.count('branchx:tz_none' if c[0][2] is None else 'branchx:tz_number')
        if abs(c[0][0]) == 90:
            ctx.count('branchx:pole_nudge')
        ay = s.azimuth - c[0][3]
        ctx.count('branchx:azimuth_from_y:' + ('>360' if ay > 360 else '<0' if ay < 0 else 'plain'))
        return _show_sun(s)

    _compare(ctx, 'sun', cases,
             lambda c: 'sun %s %s %s %d %d %d %d' % (_cfg_toks(c[0]), _b(c[1]), _b(c[2]), c[3], c[4], c[5], c[6]),
             impl_sun, circ)

    # --- the three entry points
    cases = []
    for _ in range(ctx.n(6000, 60000)):
        c = _rand_cfg(rng)
        r = _ref(c[4], _rand_moy(rng, c[4], bm))
        hour = r.hour + r.minute / 60.0
        if rng.random() < 0.25:
            hour = r.hour + (r.minute + rng.choice([0.5, 0.49, 0.51, 0.2])) / 60.0
        cases.append((c, rng.random() < 0.2, r.month, r.day, hour))
    for c0 in ((10.0, 20.0, 1.0, 0.0, False), (10.0, 20.0, 1.0, 0.0, True)):      # rejected dates / hours
        for mo, da, h in ((2, 29, 12.0), (2, 30, 1.0), (13, 1, 1.0), (4, 31, 0.0), (1, 1, 24.0), (1, 1, 23.9999),
                          (12, 31, 23.9999), (0, 1, 1.0), (1, 0, 1.0)):
            cases.append((c0, False, mo, da, h))
    _compare(ctx, 'sun_mdh', cases,
             lambda c: 'sun_mdh %s %s %d %d %s' % (_cfg_toks(c[0]), _b(c[1]), c[2], c[3], _fbits(c[4])),
             lambda c: _show_sun(_sunpath(c[0]).calculate_sun(c[2], c[3], c[4], c[1])), circ)
    cases = []
    for _ in range(ctx.n(6000, 60000)):
        c = _rand_cfg(rng)
        m = _rand_moy(rng, c[4], bm)
        hoy = m / 60.0 + rng.choice([0.0, 0.0, 1e-9, -1e-9, 0.49 / 60, 0.5 / 60, -0.5 / 60])
        if rng.random() < 0.05:
            hoy = rng.choice([8760.0, 8784.0, 8783.99, 8759.995, 9000.0])
        if hoy >= 0:
            cases.append((c, rng.random() < 0.2, hoy))
    # round 4 (kind h): every sub-hourly step of the twelve valid timesteps over the last two hours of both year kinds
    # (where hoy * 60 is an inexact float product), given as the quotient a caller would form
    for lp in (False, True):
        c0 = (rng.uniform(-60.0, 60.0), rng.uniform(-180.0, 180.0), rng.choice(TZS), 0.0, lp)
        for ts in (1, 2, 3, 4, 5, 6, 10, 12, 15, 20, 30, 60):
            for k in range(2 * ts):
                cases.append((c0, False, (_ydays(lp) * 24 - 2) + k / ts))
                ctx.count('hoy:far_end_substep')
    _compare(ctx, 'sun_hoy', cases,
             lambda c: 'sun_hoy %s %s %s' % (_cfg_toks(c[0]), _b(c[1]), _fbits(c[2])),
             lambda c: _show_sun(_sunpath(c[0]).calculate_sun_from_hoy(c[2], c[1])), circ)
    cases = []
    for _ in range(ctx.n(6000, 60000)):
        c = _rand_cfg(rng)
        m = _rand_moy(rng, c[4], bm)
        if rng.random() < 0.05:
            m = rng.choice([525600, 527040, 527039, 525599, 10 ** 7, -1441])
        cases.append((c, rng.random() < 0.2, m))
    _compare(ctx, 'sun_moy', cases,
             lambda c: 'sun_moy %s %s %d' % (_cfg_toks(c[0]), _b(c[1]), c[2]),
             lambda c: _show_sun(_sunpath(c[0]).calculate_sun_from_moy(c[2], c[1])), circ)

    # --- round 4: a native datetime.datetime of any year (float-hour fallback, general-year day count, conversion to
    #     the 2016 DateTime on a leap-year sunpath; daylight saving cannot be combined: `.moy` is missing)
    cases = []
    for _ in range(ctx.n(5000, 50000)):
        c = _rand_cfg(rng)
        r = _rand_native(rng, bm, 1900, 2150) if rng.random() < 0.2 else _rand_native(rng, bm)
        cases.append((c, rng.random() < 0.25, r.year, r.month, r.day, r.hour, r.minute))
        ctx.count('branchx:native_datetime')
        ctx.count('branchx:leap_conversion:' + ('taken' if c[4] and r.year != 2016 else 'not_taken'))
        ctx.count('branchx:days_year:' + ('2017' if r.year == 2017 else '2016' if r.year == 2016 else 'general'))

    def impl_py(c):
        s = _sunpath(c[0]).calculate_sun_from_date_time(datetime(c[2], c[3], c[4], c[5], c[6]), c[1])
        return _show_sun_y(s)

    _compare(ctx, 'sun_py', cases,
             lambda c: 'sun_py %s %s 0 %d %d %d %d %d' % (_cfg_toks(c[0]), _b(c[1]), c[2], c[3], c[4], c[5], c[6]),
             impl_py, (8, 16))

    # --- round 4: daylight-saving hours (hour - 1), clock and solar time, period ends, the first clock hour
    #     (solar time below zero: the `sol_time < 0` arm of the hour angle)
    cases = []
    for _ in range(ctx.n(5000, 50000)):
        c = _rand_cfg(rng)
        dsp = _rand_dsp(rng)
        solar = rng.random() < 0.4
        m = _rand_dst_moy(rng, c[4], dsp, bm)
        flag = _dst_flag(c[4], dsp, m)
        cases.append((c, solar, dsp, m, flag))
        ctx.count('branchx:dst_hour:' + ('yes' if flag else 'no'))
        if flag and solar and m % 1440 < 60:
            ctx.count('branchx:soltime_negative')

    def impl_dst(c):
        cfg, solar, dsp, m, flag = c
        sp = _sunpath(cfg)
        sp.daylight_saving_period = _dsp_period(dsp, cfg[4])
        r = _ref(cfg[4], m)
        s = sp.calculate_sun_from_date_time(DateTime(r.month, r.day, r.hour, r.minute, cfg[4]), solar)
        if bool(s.is_daylight_saving) != flag:
            return 'ok is_daylight_saving=%r' % (s.is_daylight_saving,)
        return _show_sun(s)

    def line_dst(c):
        r = _ref(c[0][4], c[3])
        return 'sun_dst %s %s %s %s %d %d %d %d' % (_cfg_toks(c[0]), _b(c[1]), _b(c[4]), _b(c[0][4]), r.month, r.day,
                                                    r.hour, r.minute)

    _compare(ctx, 'sun_dst', cases, line_dst, impl_dst, circ)

    # --- the Sun object built directly (exact boundary altitudes / azimuths / north angles, rejections)
    alts = [0.0, -0.0, 5e-324, -5e-324, 1e-12, -1e-12, 90.0, -90.0, 45.0, -45.0, 5.0, 85.0, -0.575, 90.0000001,
            -90.0000001, 30.0]
    azs = [0.0, 90.0, 180.0, 270.0, 360.0, -360.0, 360.0000001, 12.5, 359.999]
    nos = [0.0, -0.0, 90.0, -90.0, 360.0, -360.0, 1e-300, 33.3]
    cases = [(a, z, n) for a in alts for z in azs for n in nos]
    for _ in range(ctx.n(2000, 40000)):
        cases.append((rng.uniform(-90.0, 90.0), rng.uniform(0.0, 360.0),
                      rng.choice(nos) if rng.random() < 0.5 else rng.uniform(-360.0, 360.0)))
    _compare(ctx, 'vec', cases, lambda c: 'vec %s %s %s' % (_fbits(c[0]), _fbits(c[1]), _fbits(c[2])),
             lambda c: _show_sun(Sun(DateTime(1, 1, 0, 0), c[0], c[1], False, False, c[2])), circ)

    # --- round 4: which arms of the anchored functions does the generated stream reach (counted in evidence)
    _branch_census(ctx, zenith_cases)

    # --- histories on one object, step by step against the model's object state machine (Sun.Obj / Sun.step)
    hists = [_gen_history(rng, bm, False) for _ in range(ctx.n(1500, 10000))]
    hists += [inp for op, inp in CORPUS if op == 'history']
    _compare_histories(ctx, hists)


# ---------------------------------------------------------------------------------------------
# independent ephemeris (The Astronomical Almanac, low precision) + Saemundsson refraction


def _jd0(y, m, d):
    """Julian day number at 0h UT of a Gregorian calendar date (Meeus, ch. 7)."""
    if m <= 2:
        y -= 1
        m += 12
    a = y // 100
    return math.floor(365.25 * (y + 4716)) + math.floor(30.6001 * (m + 1)) + d + (2 - a + a // 4) - 1524.5


def _almanac(jd):
    """Right ascension, declination, Greenwich mean sidereal time (degrees)."""
    n = jd - 2451545.0
    mean_long = (280.460 + 0.9856474 * n) % 360.0
    g = math.radians((357.528 + 0.9856003 * n) % 360.0)
    lam = math.radians(mean_long + 1.915 * math.sin(g) + 0.020 * math.sin(2 * g))
    eps = math.radians(23.439 - 0.0000004 * n)
    ra = math.degrees(math.atan2(math.cos(eps) * math.sin(lam), math.cos(lam))) % 360.0
    dec = math.degrees(math.asin(math.sin(eps) * math.sin(lam)))
    gmst = (280.46061837 + 360.98564736629 * n) % 360.0
    return ra, dec, gmst


def _eph(lat, lon, jd):
    """Geometric altitude, azimuth (clockwise from north), hour angle, declination - degrees."""
    ra, dec, gmst = _almanac(jd)
    ha_deg = (gmst + lon - ra + 180.0) % 360.0 - 180.0
    ha, la, de = math.radians(ha_deg), math.radians(lat), math.radians(dec)
    sin_h = math.sin(la) * math.sin(de) + math.cos(la) * math.cos(de) * math.cos(ha)
    h = math.degrees(math.asin(max(-1.0, min(1.0, sin_h))))
    az = math.degrees(math.atan2(-math.cos(de) * math.sin(ha),
                                 math.cos(la) * math.sin(de) - math.sin(la) * math.cos(de) * math.cos(ha))) % 360.0
    return h, az, ha_deg, dec


def _saemundsson(h):
    """Refraction in degrees for the geometric altitude h (degrees), h >= -0.575."""
    return 1.02 / math.tan(math.radians(h + 10.3 / (h + 5.11))) / 60.0


HORIZON = -0.575            # geometric altitude at which the refracted sun touches the horizon
ALT_TOL = 0.05
AZ_TOL = 0.05


def _expected_altitude_band(h):
    """[lo, hi] for the reported (refracted) altitude."""
    if h >= HORIZON:
        a = h + _saemundsson(h)
        return a - ALT_TOL, a + ALT_TOL
    # below the horizon: refraction is not defined by any standard model; it is non-negative and at
    # most the horizon refraction continued by the cotangent law R = k cot|h|
    cap = 0.575 * math.tan(math.radians(0.575)) / math.tan(math.radians(-h)) if h > -90 else 0.0
    return h - ALT_TOL, h + cap + ALT_TOL


def _circ(a, b):
    return abs((a - b + 180.0) % 360.0 - 180.0)


def _eff_tz(lon, tz):
    return lon / 15.0 if tz is None else float(tz)


def _sun_from(inp):
    sp = _sunpath((inp['lat'], inp['lon'], inp.get('tz'), inp.get('north', 0.0), bool(inp.get('leap'))))
    return sp


def _eph_expect(lat, lon, etz, leap, moy, solar):
    """Ephemeris geometric altitude / azimuth for the instant named by (leap, moy) in zone `etz` (hours), or, with
    `solar`, the instant at which the local apparent solar time at `lon` equals the clock reading."""
    return _eph_expect_at(lat, lon, etz, _ref(leap, moy), solar)


def _eph_expect_at(lat, lon, etz, r, solar):
    """The same for the reading `r` (a stdlib datetime of ANY year; whole minutes)."""
    clock = r.hour + r.minute / 60.0
    jd = _jd0(r.year, r.month, r.day) + (clock - etz) / 24.0
    if solar:
        # the instant at which the local apparent solar time at this longitude equals the clock
        # reading: fixed-point steps on the ephemeris hour angle
        jd = _jd0(r.year, r.month, r.day) + (clock - lon / 15.0) / 24.0
        for _ in range(3):
            _, _, ha, _ = _eph(lat, lon, jd)
            jd += ((15.0 * (clock - 12.0) - ha + 180.0) % 360.0 - 180.0) / 360.0
    h, az, ha, dec = _eph(lat, lon, jd)
    return h, az


def _eph_verdict(h, az, altitude, azimuth, extra=0.0):
    """The statement's first clause on one reported (altitude, azimuth): None | (what, required, observed).
    `extra`: additional slack in degrees (daylight-saving hours: the code takes the declination one hour late)."""
    lo, hi = _expected_altitude_band(h)
    lo, hi = lo - extra, hi + extra
    if not (lo <= altitude <= hi):
        return ('altitude', 'altitude in [%.5f, %.5f] (ephemeris geometric altitude %.5f)' % (lo, hi, h),
                'altitude %.5f azimuth %.5f' % (altitude, azimuth))
    sep = _circ(azimuth, az) * math.cos(math.radians(h))
    if sep > AZ_TOL + extra:
        return ('azimuth', 'azimuth %.5f within %.2f/cos(alt) (altitude %.4f)' % (az, AZ_TOL + extra, h),
                'azimuth %.5f' % azimuth)
    if not (0.0 <= azimuth <= 360.0):
        return ('azimuth-range', 'azimuth in [0, 360]', azimuth)
    return None


def _check_ephemeris(inp):
    leap = bool(inp.get('leap'))
    lat, lon, tz = inp['lat'], inp['lon'], inp.get('tz')
    solar = bool(inp.get('solar'))
    moy = inp['moy']
    h, az = _eph_expect(lat, lon, _eff_tz(lon, tz), leap, moy, solar)
    regime = 'day' if h >= 5 else 'horizon' if h >= HORIZON else 'night'
    sig = {'solar': solar, 'regime': regime}
    try:
        s = _sun_from(inp).calculate_sun_from_moy(moy, solar)
    except Exception as e:
        zen = 90.0 - h < 0.05
        return {'required': 'a sun (ephemeris altitude %.6f azimuth %.6f)' % (h, az),
                'observed': 'raises %s: %s' % (type(e).__name__, e),
                'sig': dict(sig, what='exception', exception=type(e).__name__,
                            branch='zenith-crash' if zen and isinstance(e, (ZeroDivisionError, ValueError))
                            else 'other')}
    bad = _eph_verdict(h, az, s.altitude, s.azimuth)
    if bad:
        return {'required': bad[1], 'observed': bad[2], 'sig': dict(sig, what=bad[0])}
    return None


def _sun_key(s):
    d = s.datetime
    return (d.month, d.day, d.hour, d.minute, _dt_leap(d), s.altitude, s.azimuth, s.sun_vector.x, s.sun_vector.y,
            s.sun_vector.z, s.is_during_day)


def _sun_flags(s, solar, dst, north):
    """What a Sun says about itself (kind g: the arguments of `Sun(...)` in their places): the solar-time flag it was
    asked with, the daylight-saving flag, the north angle in degrees.  None | (what, required, observed)."""
    if bool(s.is_solar_time) != bool(solar) or not isinstance(s.is_solar_time, (bool, int)):
        return 'is_solar_time', bool(solar), s.is_solar_time
    if bool(s.is_daylight_saving) != bool(dst) or not isinstance(s.is_daylight_saving, (bool, int)):
        return 'is_daylight_saving', bool(dst), s.is_daylight_saving
    if not _near(s.north_angle, float(north)):
        return 'north_angle', float(north), s.north_angle
    return None


def _check_entry(inp):
    from ladybug.dt import DateTime
    leap = bool(inp.get('leap'))
    moy = inp['moy']
    solar = bool(inp.get('solar'))
    r = _ref(leap, moy)
    sp = _sun_from(inp)
    want_dt = (r.month, r.day, r.hour, r.minute, leap)
    suns = {
        'moy': sp.calculate_sun_from_moy(moy, solar),
        'hoy': sp.calculate_sun_from_hoy(moy / 60.0, solar),
        'mdh': sp.calculate_sun(r.month, r.day, r.hour + r.minute / 60.0, solar),
        'datetime': sp.calculate_sun_from_date_time(DateTime(r.month, r.day, r.hour, r.minute, leap), solar),
    }
    # round 4, input shapes: the minute of the year as float and as text, whole hours as int, the flag as 0 / 1,
    # a native datetime of the sunpath's year
    flag = 1 if solar else 0
    suns['moy_float'] = sp.calculate_sun_from_moy(float(moy), flag)
    suns['moy_text'] = sp.calculate_sun_from_moy(str(moy), solar)
    if moy % 60 == 0:
        suns['hoy_int'] = sp.calculate_sun_from_hoy(moy // 60, solar)
        suns['mdh_int'] = sp.calculate_sun(r.month, r.day, r.hour, flag)
    native = sp.calculate_sun_from_date_time(datetime(r.year, r.month, r.day, r.hour, r.minute), solar)
    base = _sun_key(suns['datetime'])
    if _sun_key(native) != base:
        return {'required': base, 'observed': _sun_key(native), 'sig': {'entry': 'native-datetime', 'what': 'sun'}}
    for name, s in list(suns.items()) + [('native-datetime', native)]:
        k = _sun_key(s)
        if k[:5] != want_dt:
            return {'required': want_dt, 'observed': k[:5], 'sig': {'entry': name, 'what': 'datetime'}}
        if k != base or (name != 'native-datetime' and s != suns['datetime']):
            return {'required': base, 'observed': k, 'sig': {'entry': name, 'what': 'sun'}}
        bad = _sun_flags(s, solar, False, inp.get('north', 0.0))
        if bad:
            return {'required': '%s %r' % (bad[0], bad[1]), 'observed': repr(bad[2]), 'sig': {'entry': name, 'what': bad[0]}}
    return None


def _check_pydt(inp):
    """A NATIVE datetime.datetime handed to calculate_sun_from_date_time: the sun of that instant of that year (of 2016
    on a leap-year sunpath) by the ephemeris; labelled with the reading; the same sun as the ladybug DateTime of the
    same instant where one exists (2016 / 2017)."""
    from ladybug.dt import DateTime
    sp = _sun_from(inp)
    leap, solar = bool(inp.get('leap')), bool(inp.get('solar'))
    y, mo, d, h, mi = inp['y'], inp['mo'], inp['d'], inp['h'], inp['mi']
    yy = 2016 if (leap and y != 2016) else y
    lat, lon = inp['lat'], inp['lon']
    etz = _eff_tz(lon, inp.get('tz'))
    sig = {'class': 'native', 'year': 'sunpath-year' if y in (2016, 2017) else 'other-year', 'solar': solar,
           'converted': yy != y}
    s = sp.calculate_sun_from_date_time(datetime(y, mo, d, h, mi), solar)
    dd = s.datetime
    if (dd.year, dd.month, dd.day, dd.hour, dd.minute) != (yy, mo, d, h, mi):
        return {'required': 'a sun labelled %d-%02d-%02d %02d:%02d' % (yy, mo, d, h, mi), 'observed': str(dd),
                'sig': dict(sig, what='datetime')}
    if not (solar and abs(etz - lon / 15.0) > 1.0):
        hh, az = _eph_expect_at(lat, lon, etz, datetime(yy, mo, d, h, mi), solar)
        bad = _eph_verdict(hh, az, s.altitude, s.azimuth)
        if bad:
            return {'required': bad[1], 'observed': bad[2], 'sig': dict(sig, what='ephemeris-' + bad[0])}
    bad = _sun_flags(s, solar, False, inp.get('north', 0.0))
    if bad:
        return {'required': '%s %r' % (bad[0], bad[1]), 'observed': repr(bad[2]), 'sig': dict(sig, what=bad[0])}
    bad = _vector_facts(s.altitude, s.azimuth, inp.get('north', 0.0), s, tol=1e-9)
    if bad:
        return {'required': bad[1], 'observed': bad[2], 'sig': dict(sig, what='vector-' + bad[0])}
    if yy in (2016, 2017):
        t = _sun_from(inp).calculate_sun_from_date_time(DateTime(mo, d, h, mi, yy == 2016), solar)
        df = _sun_diff(s, t)
        if df:
            return {'required': 'the sun of DateTime(%d, %d, %d, %d, leap_year=%s): %s %r'
                                % (mo, d, h, mi, yy == 2016, df[0], df[1]),
                    'observed': '%s %r' % (df[0], df[2]), 'sig': dict(sig, what='differs-from-DateTime', observable=df[0])}
    return None


CTOR_SHAPES = ('none', 'lat', 'lat_lon', 'lat_lon_tz', 'kw_lon', 'kw_tz_north', 'kw_all', 'location_default_north')


def _check_defaults(inp):
    """Every way of calling the constructor (arguments left to their documented defaults: latitude 0, longitude 0, zone
    None = the longitude's solar zone, north 0; keywords in any order; from_location without a north angle) gives the
    suns of the fully spelt-out call, and calls that leave the solar-time flag out are clock-time suns."""
    from ladybug.sunpath import Sunpath
    from ladybug.location import Location
    lat, lon, tz, north = inp['lat'], inp['lon'], inp.get('tz'), inp.get('north', 0.0)
    leap, moy, shape = bool(inp.get('leap')), inp['moy'], inp['shape']
    if shape == 'none':
        sp, cfg = Sunpath(), (0.0, 0.0, None, 0.0)
    elif shape == 'lat':
        sp, cfg = Sunpath(lat), (lat, 0.0, None, 0.0)
    elif shape == 'lat_lon':
        sp, cfg = Sunpath(lat, lon), (lat, lon, None, 0.0)
    elif shape == 'lat_lon_tz':
        sp, cfg = Sunpath(lat, lon, tz), (lat, lon, tz, 0.0)
    elif shape == 'kw_lon':
        sp, cfg = Sunpath(longitude=lon), (0.0, lon, None, 0.0)
    elif shape == 'kw_tz_north':
        sp, cfg = Sunpath(north_angle=north, time_zone=tz), (0.0, 0.0, tz, north)
    elif shape == 'kw_all':
        sp, cfg = Sunpath(north_angle=north, time_zone=tz, longitude=lon, latitude=lat, daylight_saving_period=None), (lat, lon, tz, north)
    elif shape == 'location_default_north':
        ltz = float(round(lon / 15.0)) if tz is None else tz
        sp, cfg = Sunpath.from_location(Location('c', None, None, lat, lon, ltz)), (lat, lon, ltz, 0.0)
    else:
        raise ValueError('unknown constructor shape %r' % (shape,))
    sig = {'shape': shape}
    if sp.is_leap_year is not False or sp.daylight_saving_period is not None:
        return {'required': 'a new sunpath is a common-year one without daylight saving',
                'observed': (sp.is_leap_year, sp.daylight_saving_period), 'sig': dict(sig, what='initial-state')}
    sp.is_leap_year = leap
    ref = _sunpath(cfg + (leap,))
    etz = _eff_tz(cfg[1], cfg[2])
    r = _ref(leap, moy)
    for name, a in (('moy', sp.calculate_sun_from_moy(moy)), ('hoy', sp.calculate_sun_from_hoy(moy / 60.0)),
                    ('mdh', sp.calculate_sun(r.month, r.day, r.hour + r.minute / 60.0))):
        d = _sun_diff(a, ref.calculate_sun_from_moy(moy, False))
        if d:
            return {'required': 'the sun of Sunpath%r: %s %r' % (cfg, d[0], d[1]), 'observed': '%s %r' % (d[0], d[2]),
                    'sig': dict(sig, what=d[0], entry=name)}
        bad = _sun_flags(a, False, False, cfg[3])
        if bad:
            return {'required': '%s %r' % (bad[0], bad[1]), 'observed': repr(bad[2]), 'sig': dict(sig, what=bad[0], entry=name)}
        h, az = _eph_expect(cfg[0], cfg[1], etz, leap, moy, False)
        bad = _eph_verdict(h, az, a.altitude, a.azimuth)
        if bad:
            return {'required': bad[1], 'observed': bad[2], 'sig': dict(sig, what='ephemeris-' + bad[0], entry=name)}
    return None


def _check_dst(inp):
    """A sunpath with a daylight-saving period: inside the period the sun of a clock (or solar-time) reading is the sun
    of the reading one hour earlier - by the ephemeris and by the same sunpath without a period -, outside it nothing
    changes; the Sun says which of the two it is.  (Which hours belong to the period: start inclusive, end exclusive.)"""
    from ladybug.dt import DateTime
    leap, solar = bool(inp.get('leap')), bool(inp.get('solar'))
    dsp, moy = inp['dsp'], inp['moy']
    lat, lon = inp['lat'], inp['lon']
    etz = _eff_tz(lon, inp.get('tz'))
    flag = _dst_flag(leap, dsp, moy)
    sp = _sun_from(inp)
    sp.daylight_saving_period = _dsp_period(dsp, leap)
    r = _ref(leap, moy)
    sig = {'dst': flag, 'solar': solar, 'first_hour': moy % 1440 < 60}
    s = sp.calculate_sun_from_date_time(DateTime(r.month, r.day, r.hour, r.minute, leap), solar)
    dd = s.datetime
    if (dd.month, dd.day, dd.hour, dd.minute, _dt_leap(dd)) != (r.month, r.day, r.hour, r.minute, leap):
        return {'required': 'a sun labelled with the reading %s' % r, 'observed': str(dd), 'sig': dict(sig, what='datetime')}
    bad = _sun_flags(s, solar, flag, inp.get('north', 0.0))
    if bad:
        return {'required': '%s %r' % (bad[0], bad[1]), 'observed': repr(bad[2]), 'sig': dict(sig, what=bad[0])}
    plain = _sun_from(inp)
    if not flag:
        df = _sun_diff(s, plain.calculate_sun_from_date_time(DateTime(r.month, r.day, r.hour, r.minute, leap), solar))
        if df:
            return {'required': 'outside the period the sun of the sunpath without one: %s %r' % (df[0], df[1]),
                    'observed': '%s %r' % (df[0], df[2]), 'sig': dict(sig, what='outside-period')}
    rr = r - timedelta(minutes=60) if flag else r
    if not (solar and abs(etz - lon / 15.0) > 1.0):
        hh, az = _eph_expect_at(lat, lon, etz, rr, solar)
        bad = _eph_verdict(hh, az, s.altitude, s.azimuth, extra=0.02 if flag else 0.0)
        if bad:
            return {'required': bad[1] + (' (the reading one hour earlier: %s)' % rr if flag else ''), 'observed': bad[2],
                    'sig': dict(sig, what='ephemeris-' + bad[0])}
    if flag and rr.year == r.year and abs(lat) < 89.9:
        # the same sunpath without a period, asked for the reading one hour earlier (its declination is taken one hour
        # earlier: 0.017 deg, stretched by refraction near the horizon)
        t = plain.calculate_sun_from_date_time(DateTime(rr.month, rr.day, rr.hour, rr.minute, leap), solar)
        da = abs(s.altitude - t.altitude)
        dz = _circ(s.azimuth, t.azimuth) * math.cos(math.radians(t.altitude))
        if da > 0.05 or dz > 0.05:
            return {'required': 'the sun of %s without a period within 0.05 deg: alt %.5f az %.5f' % (rr, t.altitude, t.azimuth),
                    'observed': 'alt %.5f az %.5f' % (s.altitude, s.azimuth), 'sig': dict(sig, what='one-hour-earlier')}
    return None


def _check_tzshift(inp):
    leap = bool(inp.get('leap'))
    moy, shift, tz = inp['moy'], inp['shift'], inp['tz']
    a = _sun_from(inp).calculate_sun_from_moy(moy)
    inp2 = dict(inp, tz=tz + shift)
    b = _sun_from(inp2).calculate_sun_from_moy(moy + int(round(60 * shift)))
    da = abs(a.altitude - b.altitude)
    dz = _circ(a.azimuth, b.azimuth) * math.cos(math.radians(a.altitude))
    # at the exact poles the code's azimuth carries ~0.03 deg of cancellation noise (latitude nudged by
    # 1e-9 rad, az_init = 0/1e-9): there the property's own tolerance (a few hundredths) is used
    tol = 0.01 if abs(inp['lat']) < 89.9 else 0.05
    if da > tol or dz > tol:
        return {'required': 'same sun within %.2f deg: alt %.5f az %.5f' % (tol, a.altitude, a.azimuth),
                'observed': 'alt %.5f az %.5f' % (b.altitude, b.azimuth), 'sig': {'shift': shift, 'leap': leap}}
    return None


def _check_noon(inp):
    """Solar-time noon: due south / north, and no lower than at other solar times of the day
    (up to the drift of the declination, 0.017 deg per hour)."""
    leap = bool(inp.get('leap'))
    doy = inp['doy']
    lat, lon = inp['lat'], inp['lon']
    sp = _sun_from(inp)
    r = _ref(leap, (doy - 1) * 1440)
    noon = sp.calculate_sun(r.month, r.day, 12.0, True)
    _, _, _, dec = _eph(lat, lon, _jd0(r.year, r.month, r.day) + (12.0 - lon / 15.0) / 24.0)
    sig = {'leap': leap, 'hemisphere': 'north' if lat >= 0 else 'south'}
    # the code evaluates the declination at the clock time of the configured zone: up to 0.017 deg per hour of
    # distance between the zone and the longitude (see the finding C05-solar-time-depends-on-time-zone)
    off = abs(_eff_tz(lon, inp.get('tz')) - lon / 15.0)
    if abs(lat - dec) > 0.1 + 0.017 * off and abs(lat) < 89.9:
        want = 180.0 if lat > dec else 0.0
        if _circ(noon.azimuth, want) * math.cos(math.radians(noon.altitude)) > 0.01:
            return {'required': 'azimuth %s at solar noon (declination %.3f)' % (want, dec),
                    'observed': 'azimuth %.6f altitude %.5f' % (noon.azimuth, noon.altitude),
                    'sig': dict(sig, what='direction')}
    for dmin in (-360, -120, -30, -10, 10, 30, 120, 360):
        hh = 12.0 + dmin / 60.0
        o = sp.calculate_sun(r.month, r.day, hh, True)
        # declination drifts by up to 0.017 deg per hour; refraction is monotone in the geometric altitude
        # (so reported altitudes may be compared) but stretches differences by up to 2.1 near the horizon
        slack = 2.2 * 0.017 * abs(dmin) / 60.0 + 0.003
        if o.altitude > noon.altitude + slack:
            return {'required': 'altitude at solar noon %.5f is the highest of the day' % noon.altitude,
                    'observed': 'altitude %.5f at solar time %.4f' % (o.altitude, hh), 'sig': dict(sig, what='highest')}
    return None


def _check_solar_tz(inp):
    """A solar-time sun does not depend on the configured time zone (same place, same physical instant)."""
    lon, tz, moy = inp['lon'], inp['tz'], inp['moy']
    a = _sun_from(dict(inp, tz=None)).calculate_sun_from_moy(moy, True)
    b = _sun_from(inp).calculate_sun_from_moy(moy, True)
    da = abs(a.altitude - b.altitude)
    dz = _circ(a.azimuth, b.azimuth) * math.cos(math.radians(a.altitude))
    if da > ALT_TOL or dz > AZ_TOL:
        off = abs(tz - lon / 15.0)
        return {'required': 'same sun as with the solar time zone within 0.05 deg: alt %.5f az %.5f'
                            % (a.altitude, a.azimuth),
                'observed': 'alt %.5f az %.5f (zone %.2f h from longitude/15)' % (b.altitude, b.azimuth, off),
                'sig': {'zone_offset': 'inconsistent' if off > 1.0 else 'consistent'}}
    return None


def _vector_facts(alt, az, north, s, tol=1e-12):
    """The statement's vector clause evaluated on one Sun object."""
    v, rv = s.sun_vector, s.sun_vector_reversed
    a, z, n = math.radians(alt), math.radians(az), math.radians(north)
    bx, by, bz = math.sin(z) * math.cos(a), math.cos(z) * math.cos(a), math.sin(a)
    ex, ey, ez = -(math.cos(n) * bx - math.sin(n) * by), -(math.sin(n) * bx + math.cos(n) * by), -bz
    if max(abs(v.x - ex), abs(v.y - ey), abs(v.z - ez)) > tol:
        return 'formula', (ex, ey, ez), (v.x, v.y, v.z)
    if abs(v.x * v.x + v.y * v.y + v.z * v.z - 1.0) > tol:
        return 'unit', 1.0, v.x * v.x + v.y * v.y + v.z * v.z
    if (rv.x, rv.y, rv.z) != (-v.x, -v.y, -v.z):
        return 'reversed', (-v.x, -v.y, -v.z), (rv.x, rv.y, rv.z)
    if alt > 0 and not v.z < 0:
        return 'down-by-day', 'z < 0', v.z
    if alt < 0 and not v.z > 0:
        return 'up-by-night', 'z > 0', v.z
    if s.is_during_day != (alt >= 0):
        return 'is_during_day', alt >= 0, s.is_during_day
    ay = s.azimuth_from_y_axis
    if not (0.0 <= ay <= 360.0) or _circ(ay, az - north) > 1e-9:
        return 'azimuth_from_y_axis', (az - north) % 360.0, ay
    from ladybug_geometry.geometry3d.pointvector import Point3D
    p = s.position_3d(Point3D(1.0, 2.0, 3.0), 10.0)
    if max(abs(p.x - (1.0 + 10 * rv.x)), abs(p.y - (2.0 + 10 * rv.y)), abs(p.z - (3.0 + 10 * rv.z))) > 1e-9:
        return 'position_3d', 'origin + radius * reversed', (p.x, p.y, p.z)
    return None


def _check_vector(inp):
    from ladybug.sunpath import Sun
    from ladybug.dt import DateTime
    alt, az, north = inp['alt'], inp['az'], inp['north']
    s = Sun(DateTime(1, 1, 0, 0), alt, az, False, False, north)
    bad = _vector_facts(alt, az, north, s)
    if bad:
        return {'required': bad[1], 'observed': bad[2], 'sig': {'what': bad[0], 'via': 'Sun'}}
    return None


def _check_sunvec(inp):
    s = _sun_from(inp).calculate_sun_from_moy(inp['moy'], bool(inp.get('solar')))
    bad = _vector_facts(s.altitude, s.azimuth, inp.get('north', 0.0), s, tol=1e-9)
    if bad:
        return {'required': bad[1], 'observed': bad[2], 'sig': {'what': bad[0], 'via': 'Sunpath'}}
    if not (-90.0 <= s.altitude <= 90.0):
        return {'required': 'altitude in [-90, 90]', 'observed': s.altitude, 'sig': {'what': 'altitude-range'}}
    return None


# ---------------------------------------------------------------------------------------------
# round 3: operation histories on ONE Sunpath object, consumers of the sun producer, process order
#
# An op is a JSON list.  Setters: ['set_lat', v] ['set_lon', v] ['set_tz', v|None] ['set_north', v]
# ['set_leap', v].  Reads: ['moy', m, solar] ['hoy', h, solar] ['mdh', mo, da, hour, solar]
# ['dt', mo, da, h, mi, dtleap, solar] ['get'].  Every other public method of the object is an "other" op (its
# own result belongs to C11 / C18 or to the `consumers` check below; here only its effect on later suns counts):
# ['analemma', h, mi, daytime_only, solar, start, end, steps] ['hourly_analemma', daytime_only, solar, start, end,
# steps] ['riseset', mo, da, depression, solar] ['day_arc', mo, da] ['day_poly2d', mo, da, projection]
# ['poly2d', projection] ['monthly_arcs'] ['set_dsp', None|'x'].

SETTERS = {'set_lat': 'lat', 'set_lon': 'lon', 'set_tz': 'tz', 'set_north': 'north'}
READS = ('moy', 'hoy', 'mdh', 'dt')
BOUNDS = {'lat': (-90.0, 90.0), 'lon': (-180.0, 180.0), 'tz': (-12.0, 14.0), 'north': (-360.0, 360.0)}
VALID_VALUES = {
    'lat': LATS + [0, 90, -90, 45, -0.0, 1e-12, -5e-324],
    'lon': LONS + [0, 180, -180, -0.0, 15, 1e-12, 5e-324],
    'tz': TZS + [0, -0.0, None, None, None, 14, -12, 0.0, 1e-12, -1e-300],
    'north': NORTHS + [0, 360, -360, -0.0, 1e-12, -5e-324],
}
INVALID_VALUES = {
    'lat': [90.0000001, -90.0000001, 91, -180.0, 1000.0, 1e16, -1e308],
    'lon': [180.0000001, -180.0000001, 181, 360.0, -1000.0, 1e16, -1e308],
    'tz': [14.0000001, -12.0000001, 15, -13, 24.0, 1e16, -1e308],
    'north': [360.0000001, -360.0000001, 361, 720.0, -1000.0, 1e16, -1e308],
}
UNPARSABLE = ['abc', '', [], {}, '1,5', '12:30', '1e', '--1', '0x10', ' ']
TEXT_INVALID = ['nan', 'inf', '-inf', '1e400', '-1e400', 'NaN', 'Infinity', '1000', '-1e3']      # float() reads them, the range check refuses


def _parse_num(v):
    """float(v) as the setters do it: ('ok', x) | ('value',) | ('type',)."""
    if isinstance(v, bool) or isinstance(v, (int, float)):
        return ('ok', float(v))
    if isinstance(v, str):
        try:
            return ('ok', float(v))
        except ValueError:
            return ('value',)
    return ('type',)


def _spec_apply(st, op):
    """The SPECIFICATION of one op on the state the user has established (dict lat lon tz north leap; tz is the
    effective zone in hours).  Returns True (accepted), False (refused: the state is unchanged)."""
    k = op[0]
    if k in SETTERS:
        f = SETTERS[k]
        v = op[1]
        if f == 'tz' and v is None:
            st['tz'] = st['lon'] / 15.0
            return True
        p = _parse_num(v)
        if p[0] != 'ok' or p[1] != p[1]:
            return False
        lo, hi = BOUNDS[f]
        if not (lo <= p[1] <= hi):
            return False
        st[f] = p[1]
        return True
    if k == 'set_leap':
        st['leap'] = bool(op[1])
        return True
    return True


def _apply_real(sp, op):
    """Execute one op on the real object; returns the op's result (exceptions propagate)."""
    from ladybug.dt import DateTime, Time
    k = op[0]
    if k == 'set_lat':
        sp.latitude = op[1]
    elif k == 'set_lon':
        sp.longitude = op[1]
    elif k == 'set_tz':
        sp.time_zone = op[1]
    elif k == 'set_north':
        sp.north_angle = op[1]
    elif k == 'set_leap':
        sp.is_leap_year = op[1]
    elif k == 'set_dsp':
        sp.daylight_saving_period = op[1]
    elif k == 'moy':
        return sp.calculate_sun_from_moy(op[1], op[2])
    elif k == 'hoy':
        return sp.calculate_sun_from_hoy(op[1], op[2])
    elif k == 'mdh':
        return sp.calculate_sun(op[1], op[2], op[3], op[4])
    elif k == 'dt':
        return sp.calculate_sun_from_date_time(DateTime(op[1], op[2], op[3], op[4], op[5]), op[6])
    elif k == 'get':
        return ('get', sp.latitude, sp.longitude, sp.time_zone, sp.north_angle, sp.is_leap_year)
    elif k == 'analemma':
        return sp.analemma_suns(Time(op[1], op[2]), op[3], op[4], op[5], op[6], op[7])
    elif k == 'hourly_analemma':
        return sp.hourly_analemma_suns(op[1], op[2], op[3], op[4], op[5])
    elif k == 'riseset':
        return sp.calculate_sunrise_sunset(op[1], op[2], op[3], op[4])
    elif k == 'day_arc':
        return sp.day_arc3d(op[1], op[2])
    elif k == 'day_poly2d':
        return sp.day_polyline2d(op[1], op[2], op[3])
    elif k == 'poly2d':
        return sp.hourly_analemma_polyline2d(op[1])
    elif k == 'monthly_arcs':
        return sp.monthly_day_arc3d()
    else:
        raise ValueError('unknown history op %r' % (k,))
    return None


def _new_sunpath(init):
    from ladybug.sunpath import Sunpath
    return Sunpath(init['lat'], init['lon'], init['tz'], init['north'])


def _fresh_sunpath(st):
    """A fresh object built from the established state."""
    from ladybug.sunpath import Sunpath
    sp = Sunpath(st['lat'], st['lon'], st['tz'], st['north'])
    sp.is_leap_year = st['leap']
    return sp


def _moy_of(leap, mo, da, h, mi):
    y = 2016 if leap else 2017
    return int((datetime(y, mo, da, h, mi) - datetime(y, 1, 1)).total_seconds() // 60)


def _valid_date(leap, mo, da):
    try:
        datetime(2016 if leap else 2017, mo, da)
        return True
    except ValueError:
        return False


def _question(rng, q, leap):
    """One read op asking for the calendar instant q = (month, day, hour, minute) on an object whose established
    year kind is `leap`."""
    mo, da, h, mi = q
    solar = rng.random() < 0.2
    r = rng.random()
    ok = _valid_date(leap, mo, da)
    if r < 0.3 or not ok:
        if ok or rng.random() < 0.5 or not _valid_date(True, mo, da):
            return ['mdh', mo, da, h + mi / 60.0, solar]
        return ['dt', mo, da, h, mi, True, solar]        # 29 Feb as a leap DateTime on a non-leap object
    if r < 0.55:
        dl = leap if rng.random() < 0.6 else (not leap)
        if not _valid_date(dl, mo, da):
            dl = leap
        return ['dt', mo, da, h, mi, dl, solar]
    m = _moy_of(leap, mo, da, h, mi)
    if r < 0.8:
        return ['moy', m, solar]
    return ['hoy', m / 60.0, solar]


def _gen_setter(rng, st):
    f = rng.choice(['lat', 'lon', 'tz', 'tz', 'north', 'leap', 'leap', 'leap'])
    if f == 'leap':
        return ['set_leap', rng.choice([True, False, True, False, 1, 0])]
    r = rng.random()
    if r < 0.7:
        v = rng.choice(VALID_VALUES[f]) if rng.random() < 0.6 else rng.uniform(*BOUNDS[f])
    elif r < 0.9:
        v = rng.choice(INVALID_VALUES[f] + TEXT_INVALID)
    else:
        v = rng.choice(UNPARSABLE)
    if isinstance(v, (int, float)) and not isinstance(v, bool) and rng.random() < 0.2:
        v = _as_text(rng, v) if rng.random() < 0.8 else bool(rng.random() < 0.5)      # numbers as text / as bool
    return ['set_' + f, v]


def _gen_other(rng):
    r = rng.random()
    span = rng.choice([(1, 2), (2, 2), (3, 3), (0, 1), (12, 13), (6, 3), (2, 3)])
    if r < 0.3:
        return ['analemma', rng.randrange(24), rng.choice([0, 30]), rng.random() < 0.3, rng.random() < 0.2,
                span[0], span[1], rng.choice([1, 2, 4, 29, 30, 40])]
    if r < 0.45:
        return ['hourly_analemma', rng.random() < 0.3, rng.random() < 0.2, span[0], span[1],
                rng.choice([1, 2, 30, 40])]
    if r < 0.6:
        mo, da = rng.choice([(3, 21), (6, 21), (12, 21), (2, 29), (2, 30), (13, 1), (0, 5), (4, 31), (1, 1)])
        return ['riseset', mo, da, rng.choice([0.5334, 0.0, 0.833, 6.0]), rng.random() < 0.3]
    if r < 0.72:
        mo, da = rng.choice([(3, 21), (6, 21), (12, 21), (2, 29), (13, 1), (9, 31)])
        return ['day_arc', mo, da]
    if r < 0.84:
        mo, da = rng.choice([(3, 21), (6, 21), (2, 29), (13, 1)])
        return ['day_poly2d', mo, da, rng.choice(['Orthographic', 'Stereographic', 'bad', 'bad'])]
    if r < 0.88:
        return ['poly2d', rng.choice(['bad', 'Stereographic'])]
    if r < 0.92:
        return ['monthly_arcs']
    return ['set_dsp', rng.choice([None, 'x', 5])]


def _rare_init(rng):
    """Configurations of the rare classes (kind d): falsy values for every numeric argument, exact bounds,
    integers instead of floats."""
    lat = rng.choice([0, 0.0, -0.0, 90, -90, 45]) if rng.random() < 0.5 else rng.uniform(-90.0, 90.0)
    lon = rng.choice([0, 0.0, -0.0, 180, -180, -21.9, 120]) if rng.random() < 0.5 else rng.uniform(-180.0, 180.0)
    tz = rng.choice([0, 0.0, -0.0, 0, 14, -12, None])
    north = rng.choice([0, 0.0, -0.0, 360, -360, 90])
    if rng.random() < 0.4:            # round 4: the constructor's numbers as text / bool
        lat, lon, north = [_as_text(rng, v) if rng.random() < 0.6 else v for v in (lat, lon, north)]
        if tz is not None and rng.random() < 0.6:
            tz = _as_text(rng, tz)
        if rng.random() < 0.15:
            north = rng.choice([True, False])
    return lat, lon, tz, north


def _gen_history(rng, bm, for_oracle):
    """A generated history: constructor arguments + ops.  After every setter / other op a probe follows (getters
    and questions of a small pool that are asked again and again, through varying entry points).  For the oracle
    a refused setter is directly followed by an accepted one of the same field (the state a refused setter leaves
    is the known finding C05-refused-setter-applied, witnessed in the fixed corpus)."""
    if rng.random() < 0.25:
        lat, lon, tz, north = _rare_init(rng)
        leap0 = rng.random() < 0.5
    else:
        lat, lon, tz, north, leap0 = _rand_cfg(rng)
    init = {'lat': lat, 'lon': lon, 'tz': tz, 'north': north}
    st = {'lat': float(lat), 'lon': float(lon), 'tz': _eff_tz(float(lon), tz), 'north': float(north), 'leap': False}
    ops = []
    pool = []
    for _ in range(rng.choice([1, 2, 3])):
        lq = rng.random() < 0.5
        r = _ref(lq, _rand_moy(rng, lq, bm))
        if (r.month, r.day) != (2, 29):
            pool.append((r.month, r.day, r.hour, r.minute))
    if rng.random() < 0.25 or not pool:
        pool.append((rng.choice([2, 2, 3, 12]), rng.choice([29, 28, 1]), rng.randrange(24), rng.randrange(60)))
    if rng.random() < 0.2:
        pool.append((rng.choice([1, 3, 12]), rng.choice([1, 31]), rng.choice([0, 23]), rng.choice([0, 59])))

    def probe():
        if rng.random() < 0.5:
            ops.append(['get'])
        for q in rng.sample(pool, min(len(pool), rng.choice([1, 1, 2, 3]))):
            ops.append(_question(rng, q, st['leap']))

    if leap0:                      # the rare year kind first
        ops.append(['set_leap', True])
        st['leap'] = True
    probe()
    for _ in range(rng.randrange(3, 9)):
        op = _gen_setter(rng, st) if rng.random() < 0.6 else _gen_other(rng)
        ops.append(op)
        ok = _spec_apply(st, op)
        if for_oracle and not ok and op[0] in SETTERS:
            f = SETTERS[op[0]]
            op2 = ['set_' + f, rng.choice([x for x in VALID_VALUES[f] if x is not None])]
            ops.append(op2)
            _spec_apply(st, op2)
        probe()
    return {'init': init, 'ops': ops}


def _op_token(op):
    """The op as tokens of the model driver's `hist` request."""
    k = op[0]
    if k in SETTERS:
        v = op[1]
        tag = {'set_lat': 'sl', 'set_lon': 'so', 'set_tz': 'st', 'set_north': 'sn'}[k]
        if v is None and k == 'set_tz':
            return tag + ' none'
        p = _parse_num(v)
        return tag + ' ' + (_fbits(p[1]) if p[0] == 'ok' else 'bad:' + p[0])
    if k == 'set_leap':
        return 'sy ' + _b(bool(op[1]))
    if k == 'moy':
        return 'rm %d %s' % (op[1], _b(op[2]))
    if k == 'hoy':
        return 'rh %s %s' % (_fbits(op[1]), _b(op[2]))
    if k == 'mdh':
        return 'rd %d %d %s %s' % (op[1], op[2], _fbits(op[3]), _b(op[4]))
    if k == 'dt':
        return 'rt %d %d %d %d %s %s' % (op[1], op[2], op[3], op[4], _b(op[5]), _b(op[6]))
    if k == 'get':
        return 'g'
    return 'x'


def _hist_line(h):
    i = h['init']
    v = _VALIDATE if _VALIDATE is not None else _setter_order()
    return 'hist %s %s %s %s %s %s %s %s ; %s' % (_b(v[0]), _b(v[1]), _b(v[2]), _b(v[3]), _fbits(i['lat']),
                                                  _fbits(i['lon']), _tz_tok(i['tz']), _fbits(i['north']),
                                                  ' ; '.join(_op_token(op) for op in h['ops']))


def _show_step(op, res, exc):
    k = op[0]
    if k in READS:
        return _show_sun(res) if exc is None else 'err:' + err_name(exc)
    if k == 'get':
        if exc is not None:
            return 'err:' + err_name(exc)
        return 'ok %s %s %s %s %s' % (_fbits(res[1]), _fbits(res[2]), _fbits(res[3]), _fbits(res[4]), _b(res[5]))
    if k in SETTERS or k == 'set_leap':
        return 'ok' if exc is None else 'err:' + err_name(exc)
    return 'ok'                 # other ops: only their effect on the later steps is compared


def _run_history_real(h):
    """Per-step response strings of the real object, in the model driver's format."""
    out = []
    try:
        sp = _new_sunpath(h['init'])
    except Exception as e:
        return ['err:' + err_name(e)]
    for op in h['ops']:
        try:
            res, exc = _apply_real(sp, op), None
        except Exception as e:
            res, exc = None, e
        out.append(_show_step(op, res, exc))
    return out


def _compare_histories(ctx, hists):
    drv = ctx.driver()
    lines = [_hist_line(h) for h in hists]
    outs = drv.run(lines)
    for h, line, mo in zip(hists, lines, outs):
        ms = mo.split(' | ')
        rs = _run_history_real(h)
        ctx.compared += len(rs)
        ctx.count('op:hist')
        ctx.count('hist:steps', len(rs))
        ctx.case(('hist', line), nontrivial=True)
        if len(ms) != len(rs):
            ctx.disagree('hist', {'history': h, 'line': line}, mo, ' | '.join(rs))
            continue
        for i, (a, b) in enumerate(zip(ms, rs)):
            eq, exact = _same(a, b, (7, 15))
            if exact:
                ctx.count('bit_exact')
            if b.startswith('err:'):
                ctx.count('hist:refused_steps')
            if not eq:
                ctx.disagree('hist', {'history': h, 'step': i, 'op': h['ops'][i]}, a, b)
                break
    if hists:
        ctx.sample({'op': 'hist', 'request': lines[0][:400], 'model': outs[0][:400]})


def _near(a, b, tol=TOL, circular=False):
    d = abs(a - b)
    if circular:
        d = min(d, abs(d - 360.0))
    return d <= tol


def _sun_diff(a, b):
    """First observable in which two Sun objects differ (None when they agree)."""
    da, db = a.datetime, b.datetime
    if (da.month, da.day, da.hour, da.minute, _dt_leap(da)) != (db.month, db.day, db.hour, db.minute, _dt_leap(db)):
        return 'datetime', (db.month, db.day, db.hour, db.minute, _dt_leap(db)), \
            (da.month, da.day, da.hour, da.minute, _dt_leap(da))
    if not _near(a.altitude, b.altitude):
        return 'altitude', b.altitude, a.altitude
    if not _near(a.azimuth, b.azimuth, circular=True) and abs(b.altitude) < 89.999:
        return 'azimuth', b.azimuth, a.azimuth
    va, vb = a.sun_vector, b.sun_vector
    if not (_near(va.x, vb.x) and _near(va.y, vb.y) and _near(va.z, vb.z)):
        return 'sun_vector', (vb.x, vb.y, vb.z), (va.x, va.y, va.z)
    if a.is_during_day != b.is_during_day and abs(b.altitude) > 1e-9:
        return 'is_during_day', b.is_during_day, a.is_during_day
    if not _near(a.north_angle, b.north_angle):
        return 'north_angle', b.north_angle, a.north_angle
    return None


def _read_instant(op, st):
    """(leap, moy) of the calendar instant a read op names on the established state (None when it names none)."""
    k = op[0]
    try:
        if k == 'moy':
            return st['leap'], int(op[1])
        if k == 'hoy':
            return st['leap'], int(round(op[1] * 60))
        if k == 'mdh':
            mi = int(round((op[3] - int(op[3])) * 60))
            return st['leap'], _moy_of(st['leap'], op[1], op[2], int(op[3]), 0) + mi
        if k == 'dt':
            lp = bool(op[5]) or st['leap']
            return lp, _moy_of(lp, op[1], op[2], op[3], op[4])
    except (ValueError, OverflowError):
        return None
    return None


def _check_history(inp):
    """The property on one object's history: after every step, every sun the object reports is the sun of a FRESH
    object built from the state the user has established (refused operations establish nothing), agrees with the
    independent ephemeris for that state, and the getters show that state."""
    ops = inp['ops']
    i0 = inp['init']
    st = {'lat': float(i0['lat']), 'lon': float(i0['lon']), 'tz': _eff_tz(float(i0['lon']), i0['tz']),
          'north': float(i0['north']), 'leap': False}
    sp = _new_sunpath(i0)
    last = 'init'

    def fail(step, what, required, observed, **kw):
        return {'required': required, 'observed': 'step %d %r: %s' % (step, ops[step] if step < len(ops) else 'final getters', observed),
                'sig': dict(kw, what=what, after=last)}

    def getters(step):
        """(field, value now, sun-level consequence) when the object no longer shows the established state AND some
        sun it reports differs from the sun of that state (the property speaks about suns)."""
        got = {'lat': sp.latitude, 'lon': sp.longitude, 'tz': sp.time_zone, 'north': sp.north_angle}
        hit = None
        for f in ('lat', 'lon', 'tz', 'north'):
            if not _near(got[f], st[f], 1e-7 if f == 'lat' else TOL):
                hit = (f, got[f])
                break
        if hit is None and sp.is_leap_year is not st['leap']:
            hit = ('leap', sp.is_leap_year)
        if hit is None:
            return None
        for probe in (['hoy', 4000.5, False], ['mdh', 6, 21, 9.0, False], ['mdh', 12, 21, 15.25, False],
                      ['moy', 120000, True]):
            try:
                a = _apply_real(sp, probe)
            except Exception as e:
                a = e
            b = _apply_real(_fresh_sunpath(st), probe)
            d = ('call', 'a sun', 'raises %s' % type(a).__name__) if isinstance(a, Exception) else _sun_diff(a, b)
            if d:
                return hit + ('%r now gives %s %r instead of %r' % (probe, d[0], d[2], d[1]),)
        return None

    pending = None
    kept = []                      # every sun the object has handed out, with what it said when it was handed out
    for n, op in enumerate(ops + [['get']]):
        k = op[0]
        if pending is not None:
            if not (k in SETTERS and SETTERS[k] == pending[0] and _spec_apply(dict(st), op)):
                g = getters(n)
                if g:
                    return {'required': 'a refused %s(%r) leaves the object as it was (%s = %r)'
                                        % (pending[1], pending[2], g[0], st.get(g[0])),
                            'observed': '%s is now %r; %s' % (g[0], g[1], g[2]),
                            'sig': {'what': 'refused-setter-applied', 'setter': pending[0]}}
            pending = None
        if k in READS:
            try:
                used, uexc = _apply_real(sp, op), None
            except Exception as e:
                used, uexc = None, e
            try:
                fresh, fexc = _apply_real(_fresh_sunpath(st), op), None
            except Exception as e:
                fresh, fexc = None, e
            if (uexc is None) != (fexc is None) or (uexc is not None and err_name(uexc) != err_name(fexc)):
                return fail(n, 'read-differs-from-fresh',
                            'as a fresh Sunpath of the established state %r: %s' % (st, fexc or 'a sun'),
                            uexc or 'a sun', entry=k)
            if uexc is None:
                kept.append((n, used, _sun_key(used)))
                d = _sun_diff(used, fresh)
                if d:
                    return fail(n, 'read-differs-from-fresh',
                                '%s %r as a fresh Sunpath of the established state %r' % (d[0], d[1], st),
                                '%s %r' % (d[0], d[2]), entry=k, observable=d[0])
                ins = _read_instant(op, st)
                solar = bool(op[-1])
                if ins is not None and not (solar and abs(st['tz'] - st['lon'] / 15.0) > 1.0):
                    h, az = _eph_expect(st['lat'], st['lon'], st['tz'], ins[0], ins[1], solar)
                    bad = _eph_verdict(h, az, used.altitude, used.azimuth)
                    if bad:
                        return fail(n, 'ephemeris-' + bad[0], bad[1] + ' for the established state %r' % (st,),
                                    bad[2], entry=k)
            continue
        if k == 'get':
            g = getters(n)
            if g:
                return fail(n, 'getter', 'established %s = %r' % (g[0], st.get(g[0])), '%r; %s' % (g[1], g[2]), field=g[0])
            continue
        before = dict(st)
        accepted = _spec_apply(st, op)
        try:
            _apply_real(sp, op)
            exc = None
        except Exception as e:
            exc = e
        if k in SETTERS or k == 'set_leap':
            f = SETTERS.get(k, 'leap')
            if accepted and exc is not None:
                return fail(n, 'valid-value-refused', '%s accepts %r' % (k, op[1]), 'raises %s: %s'
                            % (type(exc).__name__, exc), field=f)
            if not accepted and exc is None:
                g = getters(n)
                if g:
                    return fail(n, 'invalid-value-accepted',
                                '%s(%r) is refused and the suns stay those of %r' % (k, op[1], st),
                                'accepted: %s is now %r; %s' % (g[0], g[1], g[2]), field=f)
                continue
            if not accepted:
                # a refused setter is judged by what is observable afterwards: the next step (unless it is an
                # accepted setter of the same field) must see the object as it was
                pending = (f, k, op[1])
            else:
                g = getters(n)
                if g:
                    return fail(n, 'getter', 'established %s = %r' % (g[0], st.get(g[0])), '%r; %s' % (g[1], g[2]), field=g[0])
            last = k + ('' if accepted else ':refused')
        else:
            g = getters(n)
            if g:
                return fail(n, 'other-op-changed-state',
                            'the suns of the established state after %s (%s = %r)' % (k, g[0], st.get(g[0])),
                            '%s is now %r (the call %s); %s'
                            % (g[0], g[1], 'raised %s' % type(exc).__name__ if exc else 'returned', g[2]),
                            method=k, field=g[0], refused=exc is not None)
            last = k + (':raised' if exc else '')
    for n, sun, key in kept:       # kind f: a result handed out earlier is not touched by anything that followed
        if _sun_key(sun) != key:
            return {'required': 'the sun returned at step %d stays as returned: %r' % (n, key),
                    'observed': 'it now reads %r' % (_sun_key(sun),), 'sig': {'what': 'earlier-result-changed'}}
    return None


# ---- consumers of the sun producer (kind a: the untouched consumer shows the change)

def _check_consumers(inp):
    """Every public consumer of calculate_sun_from_date_time / Sun reports the suns of the producer: analemma_suns,
    hourly_analemma_suns, Sun.position_3d / position_2d (both projections), altitude/azimuth in radians, hoy,
    day_arc3d end points (suns of the sunrise / sunset date-times)."""
    from ladybug.dt import DateTime, Time
    from ladybug_geometry.geometry3d.pointvector import Point3D
    from ladybug_geometry.geometry2d.pointvector import Point2D
    sp = _sun_from(inp)
    leap = bool(inp.get('leap'))
    solar = bool(inp.get('solar'))
    h, mi = inp['hour'], inp['minute']
    start, end, steps = inp['start'], inp['end'], inp['steps']

    def direct(mo, da, hh, mm):
        return _sun_from(inp).calculate_sun_from_date_time(DateTime(mo, da, hh, mm, leap), solar)

    got = sp.analemma_suns(Time(h, mi), False, solar, start, end, steps)
    if steps == 1 and len(got) != max(0, end - start + 1):
        return {'required': 'one sun per month: %d' % max(0, end - start + 1), 'observed': '%d suns' % len(got),
                'sig': {'what': 'count', 'consumer': 'analemma_suns'}}
    if start <= end and not got:
        return {'required': 'suns for months %d..%d' % (start, end), 'observed': 'none',
                'sig': {'what': 'count', 'consumer': 'analemma_suns'}}
    for s in got:
        dd = s.datetime
        if (dd.hour, dd.minute) != (h, mi) or not (start <= dd.month <= end) or dd.leap_year != leap:
            return {'required': 'suns at %d:%02d of months %d..%d of the sunpath year' % (h, mi, start, end),
                    'observed': '%s (leap %s)' % (dd, dd.leap_year), 'sig': {'what': 'datetime', 'consumer': 'analemma_suns'}}
        d = _sun_diff(s, direct(dd.month, dd.day, h, mi))
        if d:
            return {'required': 'the sun of %d/%d %d:%02d: %s %r' % (dd.month, dd.day, h, mi, d[0], d[1]),
                    'observed': '%s %r' % (d[0], d[2]), 'sig': {'what': d[0], 'consumer': 'analemma_suns'}}
    # round 4, kind f: what was returned stays as returned - after a call on ANOTHER object, after the same call
    # again, after the caller has emptied / extended the returned list, after `data` was set on one sun
    snap = [_sun_key(s) for s in got]
    other = _sun_from(dict(inp, lat=max(-90.0, min(90.0, 10.0 - 0.5 * float(inp['lat']))), tz=None))
    other.is_leap_year = not leap
    other.analemma_suns(Time((h + 5) % 24, mi), False, solar, start, end, steps)
    again = sp.analemma_suns(Time(h, mi), False, solar, start, end, steps)
    for what, lst in (('first-result-after-later-calls', got), ('second-call', again)):
        if [_sun_key(s) for s in lst] != snap:
            return {'required': 'the %d suns first returned' % len(snap),
                    'observed': '%d suns, first difference at %r' % (
                        len(lst), next((i for i, (a, b) in enumerate(zip([_sun_key(s) for s in lst], snap)) if a != b), min(len(lst), len(snap)))),
                    'sig': {'what': 'aliasing', 'consumer': 'analemma_suns', 'case': what}}
    if again is got:
        return {'required': 'a new list per call', 'observed': 'the same list object',
                'sig': {'what': 'aliasing', 'consumer': 'analemma_suns', 'case': 'same-list'}}
    if again:
        again[0].data = {'marked': True}
    del again[:]
    again.append(None)
    third = sp.analemma_suns(Time(h, mi), False, solar, start, end, steps)
    if [_sun_key(s) for s in third] != snap or [_sun_key(s) for s in got] != snap:
        return {'required': 'the same %d suns after the caller emptied an earlier result' % len(snap),
                'observed': '%d suns (first result now %d)' % (len(third), len(got)),
                'sig': {'what': 'aliasing', 'consumer': 'analemma_suns', 'case': 'caller-edit'}}
    if any(s.data is not None for s in third):
        return {'required': 'fresh suns carry no data', 'observed': [s.data for s in third][:3],
                'sig': {'what': 'aliasing', 'consumer': 'Sun.data'}}
    # kind e / i: the time of day as a ladybug Time, a ladybug DateTime, a native datetime.time, keywords
    import datetime as _pydt
    for what, tm in (('DateTime', DateTime(7, 4, h, mi, leap)), ('datetime.time', _pydt.time(h, mi))):
        alt = sp.analemma_suns(tm, is_solar_time=solar, steps_per_month=steps, end_month=end, start_month=start)
        if [_sun_key(s) for s in alt] != snap:
            return {'required': 'the suns of Time(%d, %d)' % (h, mi), 'observed': '%d suns for the time given as %s' % (len(alt), what),
                    'sig': {'what': 'time-class', 'consumer': 'analemma_suns', 'class': what}}
    dayonly = sp.analemma_suns(Time(h, mi), True, solar, start, end, steps)
    if [s.datetime for s in dayonly] != [s.datetime for s in got if s.altitude >= 0]:
        return {'required': 'daytime_only keeps exactly the suns with altitude >= 0',
                'observed': [str(s.datetime) for s in dayonly], 'sig': {'what': 'daytime_only', 'consumer': 'analemma_suns'}}
    if inp.get('hourly'):
        first = sp.hourly_analemma_suns(False, solar, start, end, steps)
        hsnap = [[_sun_key(s) for s in a] for a in first]
        if len(set(id(a) for a in first)) != len(first):
            return {'required': 'one list per hour', 'observed': 'hours share a list',
                    'sig': {'what': 'aliasing', 'consumer': 'hourly_analemma_suns', 'case': 'shared-inner-list'}}
        for a in first[::5]:
            del a[:]
        first.reverse()
        allh = sp.hourly_analemma_suns(False, solar, start, end, steps)
        if len(allh) != 24:
            return {'required': '24 analemmas', 'observed': len(allh), 'sig': {'what': 'count', 'consumer': 'hourly'}}
        if [[_sun_key(s) for s in a] for a in allh] != hsnap:
            return {'required': 'the same 24 analemmas after the caller edited an earlier result',
                    'observed': [len(a) for a in allh],
                    'sig': {'what': 'aliasing', 'consumer': 'hourly_analemma_suns', 'case': 'caller-edit'}}
        for hr in (0, h, 23):
            if len(allh[hr]) != len(got):
                return {'required': '%d suns' % len(got), 'observed': len(allh[hr]),
                        'sig': {'what': 'count', 'consumer': 'hourly_analemma_suns'}}
            for s0, s in zip(got, allh[hr]):
                dd = s.datetime
                if (dd.month, dd.day, dd.hour, dd.minute) != (s0.datetime.month, s0.datetime.day, hr, 0):
                    return {'required': 'the days of the single analemma at %d:00' % hr, 'observed': str(dd),
                            'sig': {'what': 'datetime', 'consumer': 'hourly_analemma_suns'}}
                d = _sun_diff(s, direct(dd.month, dd.day, hr, 0))
                if d:
                    return {'required': 'the sun of %d/%d %d:00: %s %r' % (dd.month, dd.day, hr, d[0], d[1]),
                            'observed': '%s %r' % (d[0], d[2]),
                            'sig': {'what': d[0], 'consumer': 'hourly_analemma_suns'}}
    # Sun-level consumers
    for s in got[:3]:
        rv = s.sun_vector_reversed
        o3, rad = Point3D(1.5, -2.0, 0.25), 7.0
        p = s.position_3d(o3, rad)
        if not (_near(p.x, o3.x + rad * rv.x) and _near(p.y, o3.y + rad * rv.y) and _near(p.z, o3.z + rad * rv.z)):
            return {'required': 'origin + radius * reversed vector', 'observed': (p.x, p.y, p.z),
                    'sig': {'what': 'position_3d', 'consumer': 'Sun'}}
        o2 = Point2D(1.5, -2.0)
        q = s.position_2d('Orthographic', o2, rad)
        if not (_near(q.x, o2.x + rad * rv.x) and _near(q.y, o2.y + rad * rv.y)):
            return {'required': 'orthographic: (x, y) of the 3D position', 'observed': (q.x, q.y),
                    'sig': {'what': 'position_2d', 'consumer': 'Sun', 'projection': 'orthographic'}}
        if rv.z > -0.9:
            q = s.position_2d('Stereographic', o2, rad)
            ex, ey = o2.x + rad * rv.x / (1.0 + rv.z), o2.y + rad * rv.y / (1.0 + rv.z)
            if not (_near(q.x, ex, 1e-7) and _near(q.y, ey, 1e-7)):
                return {'required': 'stereographic projection %r' % ((ex, ey),), 'observed': (q.x, q.y),
                        'sig': {'what': 'position_2d', 'consumer': 'Sun', 'projection': 'stereographic'}}
        if not (_near(s.altitude_in_radians, math.radians(s.altitude)) and
                _near(s.azimuth_in_radians, math.radians(s.azimuth))):
            return {'required': 'radians of altitude / azimuth', 'observed': (s.altitude_in_radians, s.azimuth_in_radians),
                    'sig': {'what': 'radians', 'consumer': 'Sun'}}
        dd = s.datetime
        if not _near(s.hoy, _moy_of(leap, dd.month, dd.day, dd.hour, dd.minute) / 60.0):
            return {'required': 'hoy of the date-time', 'observed': s.hoy, 'sig': {'what': 'hoy', 'consumer': 'Sun'}}
    # day arc: its end points are the suns of the sunrise / sunset date-times the object reports (C11 owns the times)
    if inp.get('arc') and start <= end and 1 <= start <= 12:
        try:
            rs = sp.calculate_sunrise_sunset(start, 21)
            arc = sp.day_arc3d(start, 21, Point3D(), 100.0)
        except Exception:
            rs, arc = None, None
        if rs and arc is not None and rs['sunrise'] is not None:
            for key, pt in (('sunrise', arc.p1), ('sunset', arc.p2)):
                e = _sun_from(inp).calculate_sun_from_date_time(rs[key]).position_3d(Point3D(), 100.0)
                if not (_near(pt.x, e.x, 1e-6) and _near(pt.y, e.y, 1e-6) and _near(pt.z, e.z, 1e-6)):
                    return {'required': 'arc %s point = position of the sun at %s' % (key, rs[key]),
                            'observed': (pt.x, pt.y, pt.z), 'sig': {'what': 'day_arc3d', 'consumer': key}}
    return None


LOCATION_HOWS = ['ctor', 'setters', 'duplicate', 'dict', 'idf', 'from_location', 'ctor_text', 'idf_string', 'idf_hand',
                  'kv_string', 'kv_string', 'city_name', 'nothing', 'revit', 'dict_partial', 'dict_partial']
NUM_FORMATS = ('repr', 'g17', 'e17', 'plus', 'padded', 'upper_e')


def _num_text(v, fmt):
    """The number v as text in one of the spellings `float()` reads back exactly."""
    x = float(v)
    if fmt == 'g17':
        return '%.17g' % x
    if fmt == 'e17':
        return '%.17e' % x
    if fmt == 'upper_e':
        return '%.17E' % x
    if fmt == 'plus':
        return ('+' if x >= 0 and str(x)[0] != '-' else '') + repr(x)
    if fmt == 'padded':
        return '  %r\t' % x
    return repr(x)


def _check_location(inp):
    """Sunpath.from_location over every way of making a Location (constructor, setters, duplicate, dict and IDF
    serial forms, Location.from_location) gives the suns of Sunpath(latitude, longitude, time_zone); a Location
    without a time zone uses the whole-hour zone of its longitude."""
    from ladybug.location import Location
    from ladybug.sunpath import Sunpath
    lat, lon, tz, north = inp['lat'], inp['lon'], inp.get('tz'), inp.get('north', 0.0)
    leap, moy, how = bool(inp.get('leap')), inp['moy'], inp['how']
    fmt = inp.get('fmt', 'repr')
    etz = float(round(float(lon) / 15.0)) if tz is None else float(tz)
    if how == 'ctor':
        loc = Location('c', '-', 'k', lat, lon, tz, 12.0)
    elif how == 'setters':
        loc = Location('c')
        loc.longitude = lon
        loc.time_zone = tz
        loc.latitude = lat
    elif how == 'duplicate':
        loc = Location('c', None, None, lat, lon, tz).duplicate()
    elif how == 'dict':
        loc = Location.from_dict(Location('c', None, None, lat, lon, tz).to_dict())
    elif how == 'idf':
        loc = Location.from_idf(Location('c', None, None, lat, lon, tz).to_idf())
    elif how == 'from_location':
        loc = Location.from_location(Location('c', None, None, lat, lon, tz))
    # round 4: every other thing Sunpath.from_location accepts, numbers as text in several spellings
    elif how == 'ctor_text':
        loc = Location('c', None, None, _num_text(lat, fmt), _num_text(lon, fmt), None if tz is None else _num_text(tz, fmt))
    elif how == 'idf_string':
        loc = Location('c', None, None, lat, lon, tz).to_idf()
    elif how == 'idf_hand':
        if tz is None:
            tz = etz
        loc = ('Site:Location,\n    A city,   !- Name; of the place\n  %s ,  !- Latitude {deg}\n%s,!- Longitude, east\n'
               '    %s,\n\t%s; !- Elevation {m}' % (_num_text(lat, fmt), _num_text(lon, fmt), _num_text(tz, fmt), _num_text(12.5, fmt)))
    elif how == 'kv_string':
        if tz is None:
            tz = etz
        loc = 'city: A city, latitude: %s, longitude:%s, time_zone:  %s , elevation: %s' % (
            _num_text(lat, fmt), _num_text(lon, fmt), _num_text(tz, fmt), _num_text(3, fmt))
    elif how == 'city_name':
        loc, lat, lon, etz = 'Somewhere', 0.0, 0.0, 0.0
    elif how == 'nothing':
        loc, lat, lon, etz = (None if inp['moy'] % 2 else ''), 0.0, 0.0, 0.0
    elif how == 'revit':
        class _Revit(object):
            Name, Latitude, Longitude = 'Revit, project', lat, lon
        loc, etz = _Revit(), float(round(float(lon) / 15.0))
    elif how == 'dict_partial':
        # unsorted insertion order, keys left out, the time zone asked to be calculated
        data = {}
        keys = ['elevation', 'longitude', 'source', 'time_zone', 'latitude', 'type', 'city']
        if inp['moy'] % 3 == 0:
            keys.reverse()
        for k in keys:
            if k == 'latitude':
                data[k] = lat
            elif k == 'longitude':
                data[k] = lon
            elif k == 'time_zone':
                if tz is None and inp['moy'] % 2:
                    data[k] = {'type': 'Autocalculate'}
                elif tz is not None:
                    data[k] = tz
            elif k == 'type':
                data[k] = 'Location'
            elif k == 'elevation' and inp['moy'] % 5:
                data[k] = {'type': 'Autocalculate'} if inp['moy'] % 7 == 0 else 4
        before = repr(data)
        loc = Location.from_dict(data)
        if repr(data) != before:
            return {'required': 'from_dict leaves its argument alone', 'observed': repr(data)[:200],
                    'sig': {'how': how, 'what': 'argument-modified'}}
    else:
        raise ValueError('unknown way of making a location %r' % (how,))
    lat, lon = float(lat), float(lon)
    sp = Sunpath.from_location(loc, north)
    if isinstance(loc, Location):
        # kind f: the sunpath keeps numbers, not the Location - editing the Location afterwards changes nothing
        loc.latitude, loc.longitude, loc.time_zone = -lat * 0.5, -lon * 0.5, 0
    sp.is_leap_year = leap
    ref = Sunpath(float(lat), float(lon), etz, north)
    ref.is_leap_year = leap
    sig = {'how': how, 'tz': 'none' if tz is None else 'zero' if float(tz) == 0 else 'nonzero'}
    if not _near(sp.time_zone, etz) or not _near(sp.latitude, float(lat), 1e-7) or not _near(sp.longitude, float(lon)):
        return {'required': 'latitude %r longitude %r time zone %r' % (lat, lon, etz),
                'observed': (sp.latitude, sp.longitude, sp.time_zone), 'sig': dict(sig, what='configuration')}
    a, b = sp.calculate_sun_from_moy(moy), ref.calculate_sun_from_moy(moy)
    d = _sun_diff(a, b)
    if d:
        return {'required': '%s %r' % (d[0], d[1]), 'observed': '%s %r' % (d[0], d[2]), 'sig': dict(sig, what=d[0])}
    h, az = _eph_expect(float(lat), float(lon), etz, leap, moy, False)
    bad = _eph_verdict(h, az, a.altitude, a.azimuth)
    if bad:
        return {'required': bad[1], 'observed': bad[2], 'sig': dict(sig, what='ephemeris-' + bad[0])}
    return None


# ---- round 4: census of the branches of the anchored functions (kind j)

ANCHORED_FUNCS = {
    'sunpath.py': ('Sunpath.__init__', 'Sunpath.from_location', 'Sunpath.latitude', 'Sunpath.longitude', 'Sunpath.time_zone',
                   'Sunpath.north_angle', 'Sunpath.is_leap_year', 'Sunpath.calculate_sun', 'Sunpath.calculate_sun_from_hoy',
                   'Sunpath.calculate_sun_from_moy', 'Sunpath.calculate_sun_from_date_time', 'Sunpath.is_daylight_saving_hour',
                   'Sunpath._calculate_solar_geometry', 'Sunpath._calculate_solar_time', 'Sunpath._calculate_hour_and_minute',
                   'Sunpath._days_from_010119', 'Sunpath.analemma_suns', 'Sunpath.hourly_analemma_suns', 'Sun.__init__',
                   'Sun.azimuth_from_y_axis', 'Sun.is_during_day', 'Sun.position_3d', 'Sun.position_2d',
                   'Sun._calculate_sun_vector'),
    'location.py': ('Location.__init__', 'Location.from_dict', 'Location.from_location', 'Location.from_idf',
                    'Location.latitude', 'Location.longitude', 'Location.time_zone', 'Location.elevation'),
}


def _branch_arms(path, wanted):
    """[(function, first line of the arm, label)] for every if / else / except / loop arm of the wanted functions."""
    import ast
    with open(path) as f:
        src = f.read()
    lines = src.splitlines()
    arms = []

    def text(n):
        return ' '.join(lines[n - 1].split())[:60]

    def visit(fn, qual):
        for node in ast.walk(fn):
            if isinstance(node, ast.If):
                arms.append((qual, node.body[0].lineno, text(node.lineno) + ' -> then'))
                if node.orelse:
                    arms.append((qual, node.orelse[0].lineno, text(node.lineno) + ' -> else'))
            elif isinstance(node, ast.Try):
                for hd in node.handlers:
                    arms.append((qual, hd.body[0].lineno, text(hd.lineno)))
                if node.orelse:
                    arms.append((qual, node.orelse[0].lineno, text(node.lineno) + ' -> no exception'))
            elif isinstance(node, (ast.For, ast.While)):
                arms.append((qual, node.body[0].lineno, text(node.lineno) + ' -> body'))
    for cls in ast.parse(src).body:
        if isinstance(cls, ast.ClassDef):
            for fn in cls.body:
                if isinstance(fn, ast.FunctionDef) and cls.name + '.' + fn.name in wanted:
                    visit(fn, cls.name + '.' + fn.name)
    return arms


def _census_cases(ctx):
    """A slice of every oracle op, rare forms first, plus constructions that reach the refusing arms."""
    rng = ctx.rng
    bm = {False: _boundary_moys(False), True: _boundary_moys(True)}
    for op, inp in CORPUS:
        yield op, inp
    for how in LOCATION_HOWS:
        for tz in (None, 0, 5.5):
            yield 'location', _cfg_inp(_rand_cfg(rng), tz=tz, moy=rng.randrange(3, 500000), how=how, fmt=rng.choice(NUM_FORMATS))
    for i in range(30):
        c = _rand_cfg(rng)
        m = _rand_moy(rng, c[4], bm)
        yield 'entry', _cfg_inp(c, moy=m - m % 60 if rng.random() < 0.5 else m, solar=rng.random() < 0.3)
        r = _rand_native(rng, bm)
        yield 'pydt', _cfg_inp(c, y=r.year, mo=r.month, d=r.day, h=r.hour, mi=r.minute, solar=False)
        dsp = _rand_dsp(rng)
        yield 'dst', _cfg_inp(c, dsp=list(dsp), moy=_rand_dst_moy(rng, c[4], dsp, bm), solar=rng.random() < 0.5 and _solar_ok(c))
        yield 'sunvec', _cfg_inp(c, moy=m, solar=False)
        yield 'vector', {'alt': rng.uniform(-90, 90), 'az': rng.uniform(0, 360), 'north': rng.choice(NORTHS)}
        if i % 2:
            yield 'history', _gen_history(rng, bm, True)
    for i in range(4):
        c = _rand_cfg(rng)
        yield 'consumers', _cfg_inp(c, hour=rng.randrange(24), minute=0, start=rng.choice([1, 6]), end=12,
                                    steps=(1, 2, 3, 2)[i], solar=False, hourly=i < 2, arc=True)
    for shape in CTOR_SHAPES:
        yield 'defaults', _cfg_inp(_rand_cfg(rng), tz=2.0, moy=rng.randrange(500000), shape=shape)
    for la in (90.0, -90.0, 90, '-90'):
        yield 'ephemeris', {'lat': la, 'lon': 10.0, 'tz': 1.0, 'leap': False, 'moy': 250000}


def _census_extra():
    """Calls that only serve to reach the refusing / fall-back arms (their results are judged elsewhere)."""
    from ladybug.sunpath import Sunpath, Sun
    from ladybug.location import Location
    from ladybug.dt import DateTime
    from ladybug_geometry.geometry2d.pointvector import Point2D
    calls = [
        lambda: Sun(DateTime(1, 1, 0, 0), 10.0, 350.0, False, False, -90.0).azimuth_from_y_axis,
        lambda: Sun(DateTime(1, 1, 0, 0), 10.0, 10.0, False, False, 90.0).azimuth_from_y_axis,
        lambda: Sun(DateTime(1, 1, 0, 0), 10.0, 10.0, False, False, 0.0).position_2d('Stereographic', Point2D(), 10),
        lambda: Sun(DateTime(1, 1, 0, 0), 10.0, 10.0, False, False, 0.0).position_2d('orthographic', Point2D(), 10),
        lambda: Sun(DateTime(1, 1, 0, 0), 10.0, 10.0, False, False, 0.0).position_2d('bad', Point2D(), 10),
        lambda: Sunpath._calculate_hour_and_minute(11.9999),
        lambda: Sunpath(10, 20, 1).analemma_suns(DateTime(1, 1, 12, 0).time, True, False, 1, 12, 2),
        lambda: Sunpath(10, 20, 1).hourly_analemma_suns(True, False, 1, 2, 4),
        lambda: Location.from_location('Site:Location, x, 1, 2, 3, 4;'),
        lambda: Location.from_location(12345),
        lambda: Location('c', elevation=None),
        lambda: Location('c').__setattr__('elevation', []),
        lambda: Location.from_idf('Building, x;'),
        lambda: Sunpath(10, 20, 1).__setattr__('daylight_saving_period', 5),
    ]
    for f in calls:
        try:
            f()
        except Exception:
            pass


def _branch_census(ctx, zenith_cases):
    """Run a slice of the oracle (and the zenith cases of the correspondence) under a line tracer restricted to
    sunpath.py / location.py and count which arms of the anchored functions were reached."""
    import os
    import sys
    from ladybug.dt import DateTime
    files = {os.path.join(core.REPO, 'ladybug', name): name for name in ANCHORED_FUNCS}
    hit = {}

    def local(frame, event, arg):
        if event == 'line':
            k = (frame.f_code.co_filename, frame.f_lineno)
            hit[k] = hit.get(k, 0) + 1
        return local

    def tracer(frame, event, arg):
        return local if frame.f_code.co_filename in files else None

    old = sys.gettrace()
    sys.settrace(tracer)
    try:
        for op, inp in _census_cases(ctx):
            try:
                check_case(op, inp)
            except Exception:
                pass
        for c in zenith_cases[:400]:
            try:
                _sunpath(c[0]).calculate_sun_from_date_time(DateTime(c[3], c[4], c[5], c[6], c[2]), c[1])
            except Exception:
                pass
        _census_extra()
    finally:
        sys.settrace(old)
    for path, name in files.items():
        for qual, line, label in _branch_arms(path, ANCHORED_FUNCS[name]):
            n = hit.get((path, line), 0)
            if n:
                ctx.count('branch:%s: %s' % (qual, label), n)
            else:
                ctx.count('branch_unreached:%s: %s' % (qual, label))
            ctx.count('branch_arms_reached' if n else 'branch_arms_unreached')


# ---- process-order independence (fresh Python subprocesses, different seeded orders of the same cases)

ORDER_OPS = ('ephemeris', 'entry', 'history', 'consumers', 'location', 'sunvec', 'refused', 'pydt', 'dst')


def _check_refused(inp):
    """A call the code refuses (invalid date, hour of year outside the year) is refused, whatever ran before."""
    sp = _sun_from(inp)
    try:
        _apply_real(sp, inp['call'])
    except Exception:
        return None
    return {'required': 'the call %r is refused' % (inp['call'],), 'observed': 'returned',
            'sig': {'what': 'accepted', 'entry': inp['call'][0]}}


def _fingerprint(op, inp):
    """What one case computes, as exact values (compared between processes)."""
    try:
        if op in ('ephemeris', 'sunvec', 'entry'):
            s = _sun_from(inp).calculate_sun_from_moy(inp['moy'], bool(inp.get('solar')))
            return [_fbits(s.altitude), _fbits(s.azimuth), _fbits(s.sun_vector.x), _fbits(s.sun_vector.z)]
        if op == 'history':
            return _run_history_real(inp)
        if op == 'location':
            from ladybug.location import Location
            from ladybug.sunpath import Sunpath
            sp = Sunpath.from_location(Location('c', None, None, inp['lat'], inp['lon'], inp.get('tz')))
            s = sp.calculate_sun_from_moy(inp['moy'])
            return [_fbits(s.altitude), _fbits(s.azimuth)]
        if op == 'consumers':
            from ladybug.dt import Time
            got = _sun_from(inp).analemma_suns(Time(inp['hour'], inp['minute']), False, bool(inp.get('solar')),
                                               inp['start'], inp['end'], inp['steps'])
            return [_fbits(s.altitude) + _fbits(s.azimuth) for s in got]
        if op == 'pydt':
            s = _sun_from(inp).calculate_sun_from_date_time(
                datetime(inp['y'], inp['mo'], inp['d'], inp['h'], inp['mi']), bool(inp.get('solar')))
            return [_fbits(s.altitude), _fbits(s.azimuth), _fbits(s.sun_vector.x), _fbits(s.sun_vector.z)]
        if op == 'dst':
            from ladybug.dt import DateTime
            sp = _sun_from(inp)
            sp.daylight_saving_period = _dsp_period(inp['dsp'], bool(inp.get('leap')))
            r = _ref(bool(inp.get('leap')), inp['moy'])
            s = sp.calculate_sun_from_date_time(DateTime(r.month, r.day, r.hour, r.minute, bool(inp.get('leap'))),
                                                bool(inp.get('solar')))
            return [_fbits(s.altitude), _fbits(s.azimuth), _b(s.is_daylight_saving)]
        if op == 'refused':
            try:
                _apply_real(_sun_from(inp), inp['call'])
                return 'returned'
            except Exception as e:
                return 'err:' + err_name(e)
    except Exception as e:
        return 'err:' + err_name(e)
    return None


def _order_worker():
    """Entry of the fresh subprocess: evaluates the cases of stdin (JSON) in the given order."""
    import json
    import sys
    sys.path.insert(0, core.REPO)
    job = json.load(sys.stdin)
    out = []
    for op, inp in job['cases']:
        try:
            res = check_case(op, inp)
        except Exception as e:
            res = {'required': 'oracle evaluates', 'observed': 'exception %s: %s' % (type(e).__name__, e),
                   'sig': {'exception': type(e).__name__}}
        out.append([res, _fingerprint(op, inp)])
    json.dump(out, sys.stdout, default=str)


def _spawn_order(cases):
    import json
    import subprocess
    import sys
    code = ('import sys; sys.path.insert(0, %r); from harness.props import c05; c05._order_worker()' % core.ROOT)
    return subprocess.Popen([sys.executable, '-c', code], stdin=subprocess.PIPE, stdout=subprocess.PIPE,
                            stderr=subprocess.PIPE, cwd=core.ROOT), json.dumps({'cases': cases}, default=str)


def _run_orders(orders):
    """Run each order in its own fresh process (concurrently); returns the list of result lists."""
    import json
    procs = [_spawn_order(o) for o in orders]
    outs = []
    for p, data in procs:
        so, se = p.communicate(data.encode('utf-8'), timeout=900)
        if p.returncode != 0:
            raise RuntimeError('order worker failed: %s' % se.decode('utf-8', 'replace')[-800:])
        outs.append(json.loads(so.decode('utf-8')))
    return outs


def _check_order(inp):
    """Replay of a process-order failure: the cases of inp['order'] run in this order in ONE fresh process; the last
    one must satisfy its own check and compute exactly what it computes alone in a fresh process."""
    order = inp['order']
    if not order:
        try:
            _run_orders([[]])
        except RuntimeError as e:
            return {'required': 'the order workers run', 'observed': str(e)[:500], 'sig': {'what': 'worker-crash'}}
        return None
    last = order[-1]
    together, alone = _run_orders([order, [last]])
    res, fp = together[-1]
    res0, fp0 = alone[0]
    sig = {'what': 'process-order', 'case': last[0], 'first': order[0][0] if len(order) > 1 else last[0]}
    if res is not None and res0 is None:
        return {'required': 'case %r passes as it does alone in a fresh process' % (last,),
                'observed': 'after %d earlier case(s): %s' % (len(order) - 1, res.get('observed')), 'sig': sig}
    if fp != fp0:
        return {'required': 'the values it computes alone in a fresh process: %r' % (fp0,),
                'observed': 'after %d earlier case(s) in the same process: %r' % (len(order) - 1, fp), 'sig': sig}
    if res is not None:
        return {'required': res.get('required'), 'observed': res.get('observed'), 'sig': res.get('sig')}
    return None


def _order_cases(ctx):
    """The slice of cases whose order is varied: a few calendar instants asked under configurations that differ in
    ONE respect (year kind, zone, latitude, longitude, north, solar flag), histories, consumers, refused calls."""
    rng = ctx.rng
    bm = {False: _boundary_moys(False), True: _boundary_moys(True)}
    cases = []
    for _ in range(ctx.n(6, 16)):
        base = _rand_cfg(rng, north=False)
        mo, da = rng.randrange(3, 13), rng.randrange(1, 29)
        h, mi = rng.randrange(24), rng.randrange(60)
        variants = [base, base[:4] + (not base[4],), (base[0], base[1], rng.choice(TZS), base[3], base[4]),
                    (-base[0], base[1], base[2], base[3], base[4]), (base[0], -base[1], base[2], base[3], base[4]),
                    (base[0], base[1], base[2], 90.0, base[4]), (base[0], base[1], 0.0, base[3], not base[4])]
        for v in variants:
            cases.append(['ephemeris', _cfg_inp(v, moy=_moy_of(v[4], mo, da, h, mi),
                                                solar=rng.random() < 0.15 and _solar_ok(v))])
        cases.append(['entry', _cfg_inp(base, moy=_moy_of(base[4], mo, da, h, mi), solar=False)])
        cases.append(['consumers', _cfg_inp(base, hour=h, minute=rng.choice([0, 30]), start=rng.choice([1, 2, 11]),
                                            end=12, steps=rng.choice([1, 2, 3]), solar=False)])
        cases.append(['location', _cfg_inp(base, tz=rng.choice([None, 0, base[2]]),
                                           moy=_moy_of(base[4], mo, da, h, mi), how='ctor')])
        calls = [['mdh', 2, 30, 12.0, False], ['moy', 600000, False], ['hoy', 9000.0, False], ['mdh', 13, 1, 1.0, False]]
        if not base[4]:
            calls += [['mdh', 2, 29, 12.0, False], ['moy', 525600, False], ['hoy', 8760.0, False]]
        cases.append(['refused', _cfg_inp(base, call=rng.choice(calls))])
        # round 4: the same reading as a native datetime of several years, and with / without a daylight-saving period
        for y in (2017, 2016, rng.choice([2019, 2020, 2023, 2024, 1999])):
            cases.append(['pydt', _cfg_inp(base, y=y, mo=mo, d=da, h=h, mi=mi, solar=False)])
        for dsp in (DSPS[0], DSPS[2]):
            cases.append(['dst', _cfg_inp(base, dsp=list(dsp), moy=_moy_of(base[4], mo, da, h, mi), solar=False)])
    for _ in range(ctx.n(40, 150)):
        cases.append(['history', _gen_history(rng, bm, True)])
    return cases


def _rare_first_key(case):
    op, inp = case
    if op == 'refused':
        return 0
    if op == 'history':
        return 1 if inp['ops'] and inp['ops'][0] == ['set_leap', True] else 4
    if inp.get('leap'):
        return 2
    if inp.get('solar') or inp.get('tz') in (0, 0.0, None):
        return 3
    return 5


def _oracle_process_order(ctx):
    """Run the order slice in fresh subprocesses (different seeded orders, rare classes first in one of them) and
    compare every case with itself across the processes."""
    rng = ctx.rng
    cases = _order_cases(ctx)
    nproc = 3 if ctx.quick else 4
    orders = [list(cases)]
    orders.append(sorted(cases, key=_rare_first_key))            # refused calls, leap year, zero zones first
    o3 = list(cases)
    o3.reverse()
    orders.append(o3)
    while len(orders) < nproc:
        o = list(cases)
        rng.shuffle(o)
        orders.append(o)
    results = _run_orders(orders)
    ctx.count('order:processes', len(orders))
    ctx.count('order:cases_per_process', len(cases))
    import json
    key = lambda c: json.dumps(c, sort_keys=True, default=str)
    ref = {}
    for o, rs in zip(orders, results):
        for i, (c, (res, fp)) in enumerate(zip(o, rs)):
            ctx.evaluations += 1
            ctx.subclaim('process_order_independence', True)
            k = key(c)
            bad = None
            if res is not None:
                bad = 'check'
            elif k in ref and ref[k][0] != fp:
                bad = 'values'
            ref.setdefault(k, (fp, o, i))
            if bad:
                other = ref[k]
                alone = _run_orders([[c]])[0][0]
                if alone[0] is not None:
                    # fails alone in a fresh process too: an ordinary failing input
                    ctx.fail(c[0], c[1], alone[0].get('required'), alone[0].get('observed'), alone[0].get('sig'))
                    return
                # passes alone: something an earlier case left behind in the process
                for oo, ii in ((o, i), (other[1], other[2])):
                    inp = {'order': _shrink_order(oo[:ii + 1])}
                    r = _check_order(inp)
                    if r:
                        ctx.subclaims['process_order_independence']['failures'] += 1
                        ctx.fail('order', inp, r.get('required'), r.get('observed'), r.get('sig'))
                        return


def _confirm_first_failure(ctx, stream):
    """A failure of the main stream must be replayable: when its input passes alone in a fresh process, the failure
    depends on what ran before it in this process; it is then reported as an `order` replay (the shortest tail of the
    stream found that still makes it fail in a fresh process)."""
    known = core.load_known(PROP)
    first = None
    for f in ctx.failures:
        if not any(core.matches(f['sig'], k) for k in known):
            first = f
            break
    if first is None or first['op'] == 'order':
        return
    case = [first['op'], first['input']]
    try:
        alone = _run_orders([[case]])[0][0]
    except Exception:
        return
    if alone[0] is not None:
        return
    idx = None
    for i, c in enumerate(stream):
        if c[0] == case[0] and c[1] is first['input']:
            idx = i
            break
    if idx is None:
        return
    order = [list(c) for c in stream[max(0, idx - 3000):idx]] + [case]
    inp = {'order': order}
    r = _check_order(inp)
    if not r:
        return
    inp = {'order': _shrink_order(order)}
    r = _check_order(inp) or r
    ctx.failures.insert(0, {'op': 'order', 'input': inp, 'required': r.get('required'),
                            'observed': r.get('observed'), 'sig': dict(r.get('sig') or {}, op='order')})


def _shrink_order(order):
    """Shorten a failing order (the last case is the failing one): keep halving the prefix while the replay fails."""
    last = order[-1]
    prefix = order[:-1]
    budget = 14
    while len(prefix) > 1 and budget > 0:
        half = len(prefix) // 2
        a, b = prefix[:half], prefix[half:]
        budget -= 2
        if _check_order({'order': b + [last]}):
            prefix = b
        elif _check_order({'order': a + [last]}):
            prefix = a
        else:
            break
    return prefix + [last]


CHECKS = {
    'ephemeris': (_check_ephemeris, 'ephemeris_agreement_0.05deg'),
    'entry': (_check_entry, 'entry_points_same_sun'),
    'tzshift': (_check_tzshift, 'timezone_clock_shift_0.01deg'),
    'noon': (_check_noon, 'solar_noon_due_south_north_and_highest'),
    'solar_tz': (_check_solar_tz, 'solar_time_sun_independent_of_zone'),
    'vector': (_check_vector, 'sun_vector_identities'),
    'sunvec': (_check_sunvec, 'sun_vector_identities'),
    'history': (_check_history, 'history_on_one_object_equals_fresh_object_and_ephemeris'),
    'consumers': (_check_consumers, 'consumers_report_the_producers_suns'),
    'location': (_check_location, 'from_location_same_sun'),
    'refused': (_check_refused, 'refused_calls_are_refused'),
    'defaults': (_check_defaults, 'constructor_defaults_and_keywords_same_sun'),
    'pydt': (_check_pydt, 'native_datetime_same_sun_and_ephemeris'),
    'dst': (_check_dst, 'daylight_saving_hour_is_the_reading_one_hour_earlier'),
    'order': (_check_order, 'process_order_independence'),
}


def check_case(op, inp):
    if op not in CHECKS:
        raise ValueError('unknown op ' + op)
    return CHECKS[op][0](inp)


replay = check_case

# Fixed corpus: the witnesses of the two repaired defects (sun at the zenith at solar noon: crash; solar noon in the
# southern hemisphere: azimuth 180 instead of 0) and literal regression points.
CORPUS = [
    ('ephemeris', {'lat': -22.95717347119991, 'lon': 0.0, 'tz': 0.0, 'leap': False, 'moy': 720, 'solar': True}),
    ('ephemeris', {'lat': 4.723390098365789, 'lon': 0.0, 'tz': 0.0, 'leap': False, 'moy': 130320, 'solar': True}),
    ('noon', {'lat': -33.8688, 'lon': 151.2093, 'tz': 10.0, 'north': 0.0, 'leap': False, 'doy': 356}),
    ('ephemeris', {'lat': -33.8688, 'lon': 151.2093, 'tz': 10.0, 'leap': False, 'moy': 511920, 'solar': True}),
    ('ephemeris', {'lat': 40.7128, 'lon': -74.006, 'tz': -5.0, 'leap': False, 'moy': 247680}),
    ('ephemeris', {'lat': -33.8688, 'lon': 151.2093, 'tz': 10.0, 'leap': True, 'moy': 512000}),
    ('ephemeris', {'lat': 78.22, 'lon': 15.65, 'tz': 1.0, 'leap': False, 'moy': 247000}),
    ('ephemeris', {'lat': 0.0, 'lon': 0.0, 'tz': None, 'leap': False, 'moy': 113040, 'solar': True}),
    ('solar_tz', {'lat': 40.0, 'lon': -180.0, 'tz': 14.0, 'north': 0.0, 'leap': False, 'moy': 113040}),
    ('vector', {'alt': 0.0, 'az': 180.0, 'north': 0.0}),
    ('vector', {'alt': -0.0, 'az': 10.0, 'north': 90.0}),
    ('vector', {'alt': 90.0, 'az': 0.0, 'north': -360.0}),
    # round 3: histories on one object.  Witnesses of the known finding C05-refused-setter-applied (the four
    # setters assign before they validate) ...
    ('history', {'init': {'lat': 40.0, 'lon': -74.0, 'tz': -5.0, 'north': 0.0},
                 'ops': [['moy', 100000, False], ['set_lat', 100], ['moy', 100000, False]]}),
    ('history', {'init': {'lat': 40.0, 'lon': -74.0, 'tz': -5.0, 'north': 0.0},
                 'ops': [['set_lon', 200.0], ['mdh', 3, 21, 12.0, False]]}),
    ('history', {'init': {'lat': 40.0, 'lon': -74.0, 'tz': -5.0, 'north': 0.0},
                 'ops': [['set_tz', 15], ['mdh', 3, 21, 12.0, False]]}),
    ('history', {'init': {'lat': 40.0, 'lon': -74.0, 'tz': -5.0, 'north': 0.0},
                 'ops': [['set_north', 400], ['mdh', 3, 21, 12.0, False]]}),
    # ... and regression shapes: the same question before / after a change of year kind, a leap DateTime after a
    # non-leap one, a refused method between two reads on a leap-year object, zone 0 away from Greenwich
    ('history', {'init': {'lat': 40.72, 'lon': -74.02, 'tz': -5, 'north': 0},
                 'ops': [['mdh', 3, 21, 12.0, False], ['mdh', 10, 5, 8.0, False], ['set_leap', True],
                         ['mdh', 3, 21, 12.0, False], ['mdh', 10, 5, 8.0, False], ['set_leap', False],
                         ['mdh', 3, 21, 12.0, False], ['dt', 3, 21, 12, 0, True, False], ['dt', 3, 21, 12, 0, False, False]]}),
    ('history', {'init': {'lat': -33.87, 'lon': 151.22, 'tz': 10, 'north': 0},
                 'ops': [['set_leap', True], ['mdh', 3, 21, 9.5, False], ['hourly_analemma', False, False, 1, 12, 30],
                         ['get'], ['mdh', 3, 21, 9.5, False], ['hoy', 1929.5, False],
                         ['analemma', 12, 0, False, False, 0, 12, 1], ['mdh', 2, 29, 12.0, False],
                         ['day_poly2d', 3, 21, 'bad'], ['riseset', 2, 30, 0.5334, False], ['moy', 115770, False]]}),
    ('history', {'init': {'lat': 64.13, 'lon': -21.9, 'tz': 0, 'north': 0},
                 'ops': [['get'], ['mdh', 6, 1, 15.0, False], ['set_tz', None], ['get'], ['set_tz', 0.0], ['get'],
                         ['mdh', 6, 1, 15.0, False], ['set_lon', 0], ['set_lat', 0], ['set_north', 0], ['get'],
                         ['moy', 0, False]]}),
    ('location', {'lat': 64.13, 'lon': -21.9, 'tz': 0, 'north': 0.0, 'leap': False, 'moy': 218340, 'how': 'ctor'}),
    ('location', {'lat': 14.69, 'lon': -17.44, 'tz': None, 'north': 0.0, 'leap': True, 'moy': 218340, 'how': 'dict'}),
    ('consumers', {'lat': 40.7128, 'lon': -74.006, 'tz': -5.0, 'north': 0.0, 'leap': True, 'hour': 12, 'minute': 0,
                   'start': 1, 'end': 12, 'steps': 1, 'solar': False, 'hourly': True, 'arc': True}),
    ('refused', {'lat': 10.0, 'lon': 20.0, 'tz': 1.0, 'north': 0.0, 'leap': False, 'call': ['mdh', 2, 29, 12.0, False]}),
    # round 4: native datetimes (other year; leap-year sunpath; half hours), daylight-saving hours (solar time in the
    # first clock hour = negative solar time; the southern period that wraps the year end), numbers as text
    ('pydt', {'lat': 40.7128, 'lon': -74.006, 'tz': -5.0, 'north': 0.0, 'leap': False, 'y': 2021, 'mo': 3, 'd': 20, 'h': 9, 'mi': 30, 'solar': False}),
    ('pydt', {'lat': -33.8688, 'lon': 151.2093, 'tz': 10.0, 'north': 45.5, 'leap': True, 'y': 2019, 'mo': 9, 'd': 23, 'h': 15, 'mi': 45, 'solar': False}),
    ('pydt', {'lat': 51.5, 'lon': 0.0, 'tz': 0.0, 'north': 0.0, 'leap': False, 'y': 2024, 'mo': 2, 'd': 29, 'h': 12, 'mi': 59, 'solar': True}),
    ('dst', {'lat': 40.7128, 'lon': -74.006, 'tz': -5.0, 'north': 0.0, 'leap': False, 'dsp': [3, 12, 2, 11, 5, 2], 'moy': 247710, 'solar': False}),
    ('dst', {'lat': 40.7128, 'lon': -74.006, 'tz': -5.0, 'north': 0.0, 'leap': False, 'dsp': [3, 12, 2, 11, 5, 2], 'moy': 247710 - 9 * 60 + 3, 'solar': True}),
    ('dst', {'lat': -33.8688, 'lon': 151.2093, 'tz': 10.0, 'north': 0.0, 'leap': True, 'dsp': [10, 4, 2, 4, 5, 3], 'moy': 20, 'solar': True}),
    ('location', {'lat': 48.85, 'lon': 2.35, 'tz': 1, 'north': 0.0, 'leap': False, 'moy': 218340, 'how': 'kv_string', 'fmt': 'e17'}),
    ('location', {'lat': -12.05, 'lon': -77.04, 'tz': None, 'north': 0.0, 'leap': True, 'moy': 218341, 'how': 'dict_partial'}),
    ('location', {'lat': 35.68, 'lon': 139.69, 'tz': 9, 'north': 0.0, 'leap': False, 'moy': 300000, 'how': 'idf_hand', 'fmt': 'upper_e'}),
    ('location', {'lat': 35.68, 'lon': 139.69, 'tz': None, 'north': 0.0, 'leap': False, 'moy': 300000, 'how': 'revit'}),
    ('history', {'init': {'lat': '4.5e1', 'lon': ' -74.0 ', 'tz': '-5', 'north': True},
                 'ops': [['get'], ['mdh', 3, 21, 12.0, False], ['set_lat', '\uff14\uff10'], ['get'], ['set_tz', 'nan'], ['set_tz', '-4.0'],
                         ['mdh', 3, 21, 12.0, False], ['set_lon', '1_0'], ['set_north', '+0.0'], ['moy', 115770, False]]}),
]


def _cfg_inp(c, **kw):
    d = {'lat': c[0], 'lon': c[1], 'tz': c[2], 'north': c[3], 'leap': c[4]}
    d.update(kw)
    return d


def _solar_ok(c):
    """Ephemeris comparison of solar-time suns only where the zone is consistent with the longitude."""
    return c[2] is None or abs(c[2] - c[1] / 15.0) <= 1.0


def _oracle_cases(ctx):
    rng = ctx.rng
    big = ctx.searching or not ctx.quick
    bm = {False: _boundary_moys(False), True: _boundary_moys(True)}
    for op, inp in CORPUS:
        yield op, inp
    # ephemeris: structured product + random
    n_cfg = 24 if ctx.quick else 60
    cfgs = [_rand_cfg(rng, north=False) for _ in range(n_cfg)]
    cfgs += [(la, lo, tz, 0.0, False) for la, lo, tz in
             ((89.999, 0.0, 0.0), (-89.999, 179.99, 12.0), (0.0, -180.0, -12.0), (23.4378, 77.2, 5.5),
              (-23.4378, -43.2, -3.0), (66.5622, 25.7, 2.0), (51.5, 0.0, 14.0), (51.5, 0.0, -12.0),
              (35.7, 139.7, 9.0), (-54.8, -68.3, -3.0))]
    for c in cfgs:
        for leap in (False, True):
            cc = (c[0], c[1], c[2], c[3], leap)
            n = 1440 * _ydays(leap)
            for m in bm[leap][::(7 if ctx.quick else 1)]:
                yield 'ephemeris', _cfg_inp(cc, moy=m)
            for _ in range(120 if ctx.quick else 400):
                m = rng.randrange(n)
                solar = rng.random() < 0.2 and _solar_ok(cc)
                yield 'ephemeris', _cfg_inp(cc, moy=m, solar=solar)
    for _ in range(10000 if not big else 60000):
        c = _rand_cfg(rng, north=False)
        solar = rng.random() < 0.2 and _solar_ok(c)
        yield 'ephemeris', _cfg_inp(c, moy=_rand_moy(rng, c[4], bm), solar=solar)
    # entry points
    for _ in range(1500 if not big else 20000):
        c = _rand_cfg(rng)
        yield 'entry', _cfg_inp(c, moy=_rand_moy(rng, c[4], bm), solar=rng.random() < 0.2)
    for _ in range(120 if not big else 1200):          # the far end of the year (inexact hoy products), both year kinds
        c = _rand_cfg(rng)
        yield 'entry', _cfg_inp(c, moy=1440 * _ydays(c[4]) - 1 - rng.randrange(180), solar=rng.random() < 0.2)
    # time-zone + clock shift
    for _ in range(1500 if not big else 20000):
        c = _rand_cfg(rng, north=False)
        tz = _eff_tz(c[1], c[2]) if c[2] is None else c[2]
        shift = rng.choice([1.0, -1.0, 0.5, -0.5, 2.0, -3.0])
        n = 1440 * _ydays(c[4])
        m = _rand_moy(rng, c[4], bm)
        if not (-12.0 <= tz + shift <= 14.0) or not (0 <= m + int(round(60 * shift)) < n):
            continue
        yield 'tzshift', _cfg_inp(c, tz=tz, moy=m, shift=shift)
    # solar-time suns vs the configured zone (zones more than 1 h from the longitude: known finding; 0.017 deg/h, doubled by refraction at the horizon)
    # (only zones within 1 h are generated at random; the inconsistent-zone witness is in the fixed corpus, so the
    # known finding is reported once and does not crowd out the failure list)
    for _ in range(600 if not big else 8000):
        c = _rand_cfg(rng, north=False)
        tz = max(-12.0, min(14.0, c[1] / 15.0 + rng.choice([-1.0, -0.5, 0.0, 0.5, 1.0, rng.uniform(-1, 1)])))
        if abs(tz - c[1] / 15.0) > 1.0:
            continue
        yield 'solar_tz', _cfg_inp(c, tz=tz, moy=_rand_moy(rng, c[4], bm))
    # solar noon
    for _ in range(400 if not big else 6000):
        c = _rand_cfg(rng, north=False)
        yield 'noon', _cfg_inp(c, doy=rng.randrange(1, _ydays(c[4]) + 1))
    # vector clause
    for a in (0.0, -0.0, 1e-9, -1e-9, 90.0, -90.0, 45.0, -30.0):
        for z in (0.0, 90.0, 180.0, 270.0, 360.0, 123.4):
            for no in (0.0, 90.0, -90.0, 360.0, -360.0, 17.0):
                yield 'vector', {'alt': a, 'az': z, 'north': no}
    for _ in range(1500 if not big else 20000):
        yield 'vector', {'alt': rng.uniform(-90.0, 90.0), 'az': rng.uniform(0.0, 360.0),
                         'north': rng.choice(NORTHS) if rng.random() < 0.5 else rng.uniform(-360.0, 360.0)}
    for _ in range(1500 if not big else 20000):
        c = _rand_cfg(rng)
        yield 'sunvec', _cfg_inp(c, moy=_rand_moy(rng, c[4], bm), solar=rng.random() < 0.2)
    # round 3: histories on one object, consumers, locations, refused calls
    for _ in range(1500 if not big else 10000):
        h = _gen_history(rng, bm, True)
        ctx.count('hist:ops', len(h['ops']))
        for o in h['ops']:
            ctx.count('histop:' + o[0])
        yield 'history', h
    for _ in range(150 if not big else 1500):
        c = _rand_cfg(rng)
        yield 'consumers', _cfg_inp(c, hour=rng.randrange(24), minute=rng.choice([0, 30, 59]),
                                    start=rng.choice([1, 1, 2, 6, 12]), end=rng.choice([12, 12, 3, 6, 1]),
                                    steps=rng.choice([1, 1, 2, 3, 4, 7, 28]), solar=rng.random() < 0.2,
                                    hourly=rng.random() < 0.3, arc=rng.random() < 0.5)
    for _ in range(800 if not big else 8000):
        c = _rand_cfg(rng)
        tz = rng.choice([None, 0, 0.0, c[2], c[2], 5.5, -3, float(max(-12, min(14, round(c[1] / 15.0))))])
        ctx.count('location:tz_' + ('none' if tz is None else 'zero' if tz == 0 else 'other'))
        how = rng.choice(LOCATION_HOWS)
        ctx.count('location:how_' + how)
        yield 'location', _cfg_inp(c, tz=tz, moy=_rand_moy(rng, c[4], bm), how=how, fmt=rng.choice(NUM_FORMATS))
    # round 4: constructor shapes (defaults, keywords)
    for _ in range(600 if not big else 6000):
        c = _rand_cfg(rng)
        tz = c[2] if c[2] is not None else rng.choice([None, 0.0, 3.0])
        yield 'defaults', _cfg_inp(c, tz=tz, moy=_rand_moy(rng, c[4], bm), shape=rng.choice(CTOR_SHAPES))
    # round 4: native datetimes of any year 1950-2050; daylight-saving hours
    for _ in range(2500 if not big else 25000):
        c = _rand_cfg(rng)
        r = _rand_native(rng, bm)
        solar = rng.random() < 0.2 and _solar_ok(c)
        ctx.count('pydt:' + ('sunpath_year' if r.year in (2016, 2017) else 'other_year') + (':leap_sunpath' if c[4] else ''))
        yield 'pydt', _cfg_inp(c, y=r.year, mo=r.month, d=r.day, h=r.hour, mi=r.minute, solar=solar)
    for _ in range(2500 if not big else 25000):
        c = _rand_cfg(rng)
        dsp = _rand_dsp(rng)
        m = _rand_dst_moy(rng, c[4], dsp, bm)
        solar = rng.random() < 0.35 and _solar_ok(c)
        if _dst_flag(c[4], dsp, m):
            ctx.count('dst:inside' + (':solar' if solar else '') + (':first_hour' if m % 1440 < 60 else ''))
        else:
            ctx.count('dst:outside')
        yield 'dst', _cfg_inp(c, dsp=list(dsp), moy=m, solar=solar)
    for _ in range(200 if not big else 2000):
        c = _rand_cfg(rng)
        n = 1440 * _ydays(c[4])
        calls = [['mdh', 2, 30, 12.0, False], ['moy', n, False], ['moy', n + rng.randrange(10 ** 6), True],
                 ['hoy', n / 60.0, False], ['mdh', 13, 1, 1.0, False], ['mdh', 0, 1, 1.0, False], ['mdh', 4, 31, 0.0, False],
                 ['mdh', 1, 1, 24.0, False], ['mdh', 6, 0, 1.0, True]]
        if not c[4]:
            calls += [['mdh', 2, 29, 12.0, False], ['mdh', 2, 29, 0.0, True]]
        yield 'refused', _cfg_inp(c, call=rng.choice(calls))


def _dense_ephemeris(args):
    """Worker of the thorough tier: one configuration, every `step`-th minute of one year."""
    c, leap, step, off = args
    bad = []
    n = 1440 * _ydays(leap)
    cnt = 0
    for m in range(off, n, step):
        inp = _cfg_inp((c[0], c[1], c[2], 0.0, leap), moy=m)
        try:
            res = _check_ephemeris(inp)
        except Exception as e:
            res = {'required': 'oracle evaluates', 'observed': 'exception %s: %s' % (type(e).__name__, e),
                   'sig': {'exception': type(e).__name__}}
        cnt += 1
        if res and len(bad) < 5:
            bad.append((inp, res))
    return cnt, bad


def oracle(ctx):
    stream = []

    def chk(op, inp):
        stream.append((op, inp))
        res = check_case(op, inp)
        ctx.subclaim(CHECKS[op][1], res is None)
        return res

    # fresh subprocesses first (their verdict does not depend on what this process has already computed)
    try:
        _oracle_process_order(ctx)
    except RuntimeError as e:
        ctx.fail('order', {'order': []}, 'the order workers run', str(e)[:500], {'what': 'worker-crash'})
    run_oracle_cases(ctx, _oracle_cases(ctx), chk)
    if len(ctx.failures) > 0:
        _confirm_first_failure(ctx, stream)
    if not ctx.quick and not any(f['op'] == 'ephemeris' for f in ctx.failures):
        # dense sweep: lat x lon x tz configurations, every 7th minute of both years, 4 worker processes
        import multiprocessing
        rng = ctx.rng
        cfgs = [(la, lo, tz) for la, lo, tz in
                ((40.7128, -74.006, -5.0), (-33.8688, 151.2093, 10.0), (0.0, 0.0, 0.0), (78.22, 15.65, 1.0),
                 (-77.85, 166.67, 12.0), (23.4378, 77.2, 5.5), (64.1, -21.9, 0.0), (1.35, 103.8, 8.0))]
        cfgs += [_rand_cfg(rng, north=False)[:3] for _ in range(24)]
        jobs = [(c, leap, 7, rng.randrange(7)) for c in cfgs for leap in (False, True)]
        with multiprocessing.Pool(4) as pool:
            for cnt, bad in pool.imap_unordered(_dense_ephemeris, jobs):
                ctx.count('oracle:ephemeris_dense', cnt)
                d = ctx.subclaims.setdefault(CHECKS['ephemeris'][1], {'evaluations': 0, 'failures': 0})
                d['evaluations'] += cnt
                ctx.evaluations += cnt
                for inp, res in bad:
                    d['failures'] += 1
                    ctx.fail('ephemeris', inp, res.get('required'), res.get('observed'), res.get('sig'))


LEVEL_TEXT = ('Machine-checked Lean 4 theorems over the real-number instance of an executable model of '
              'sunpath.py (the same polymorphic definitions whose Float instance is compared bit-for-bit with the '
              'real code on every run): the three entry points build the same date-time hence the same sun; '
              'is_during_day <=> altitude >= 0; the sun vector is a unit vector equal to -R_z(north) applied to '
              '(sin az cos alt, cos az cos alt, sin alt) and points down exactly by day; azimuth quadrant and hour '
              'angle ranges; the 2016/2017 day-count literals equal the general formula; solar noon maximises the '
              'geometric altitude for a fixed declination; one object under any history of setters, reads and other '
              'methods is the fresh object of the established configuration (no numeric setter refused), reads are pure, '
              'refused reads / unconvertible arguments change nothing, the getters determine the object; a native datetime '
              'gives the sun of the DateTime of the same instant (on a leap-year sunpath: of the 2016 DateTime, whatever its year); '
              'a daylight-saving hour is the standard hour of the zone one hour east; both arms of the hour-angle line give the same '
              'cosine and the negative-solar-time arm is reached only in a daylight-saving hour; COUNTEREXAMPLE: '
              'a numeric setter refused by its assertion keeps the refused value (known finding). PARTIAL: agreement with the independent ephemeris '
              '(0.05 deg), time-zone shift invariance and the noon claim on the real code are sampled sub-claims.')
LEVEL_NOTE = ('Trusted: Lean kernel; axioms propext/Classical.choice/Quot.sound only; correspondence on generated '
              'inputs only; IEEE/libm vs real arithmetic not proved; ladybug_geometry rotations transcribed; the '
              'independent ephemeris of the harness is the reference of the sampled sub-claim.')
TECHNIQUE = ('regenerated Lean definitions of the sunpath.py formulas proved equal to the model (rfl); Lean 4 proof over R (Mathlib trigonometry: sin^2+cos^2, arccos range, floor) about a polymorphic model '
             'tied to sunpath.py by the translator and by differential correspondence of its Float instance; sampled '
             'ephemeris comparison')
