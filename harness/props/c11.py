"""C11 — Sunrise, noon, sunset and daylight saving follow from the sun positions.

Model: lean/Ladybug/Model/SunTimes.lean (on top of Model/Sun.lean of C05, Model/AP.lean of C04, Model/Cal.lean
of C08; generic over Transc, Float instance run by drv_c11) and, since round 3, the object state machine
lean/Ladybug/Model/SunpathObj.lean (six public attributes, checked setters, every method a read; `hist` op of the
driver = SunpathObj.run); theorems: lean/Ladybug/Props/C11.lean (lemmas Proofs/C11Lemmas.lean, Proofs/C11Obj.lean).
Tie: correspondence (C) on the ops below.  Numeric property, partial by nature (DESIGN.md sections 6, 9):
"true altitude at the reported sunrise/sunset = -depression within one minute of solar motion", "noon is the
day's maximum", "no rise/set => the sun does not cross the depression circle that day" and "a daylight-saving
clock time sees the sun of one hour earlier" on the real code are SAMPLED SUB-CLAIMS (tests), reported under
sampled_subclaims, never counted as theorems.

The model (and therefore the correspondence) describes the code WITH fixes/C11_dst_sunrise_direction.patch and
fixes/C11_midnight_wrap.patch applied (both committed); the setters are modelled WITH
fixes/C11_setters_validate_first.patch (a refused assignment stores nothing) – on a tree without it the four
known findings C11-setter-stores-before-assert-* are printed and generated histories re-establish the attribute
right after an out-of-range assignment.

The independent ephemeris is the low-precision algorithm of The Astronomical Almanac (as in c05.py; nothing of
it comes from NOAA's series or from ladybug), used WITHOUT refraction: "true altitude" is the geometric one.

Round 3 layers (history / failure path / process order):
  * histories on ONE Sunpath (`_gen_history`): reads in any order and repeated, the same question with one
    argument changed, every public setter between reads (leap switch, period incl. None and a period of the
    other calendar, latitude, longitude, zone incl. None, north), refused operations (non-numbers, out-of-range
    values, a non-period, dates / months / hours / steps / projections that do not exist – some fail half-way,
    some at the very end) followed by reads.  Correspondence: every answer vs SunpathObj.run, step by step.
    Oracle `history`: every answer = the answer of a FRESH Sunpath built from the attributes the user has
    established; getters show those attributes; a refused operation changes nothing; an answered read names
    the requested date-time; `check` steps run the independent oracles (window walk, one-hour-earlier,
    sunrise altitude / order, analemma, day arc) on the USED object.
  * process order (`_order_stage`): a slice of the oracle stream (corpus + generated + histories whose first
    operation is refused) in 3-4 fresh Python processes, rare classes first in one, reversed in the next,
    seeded shuffles in the others; every answer must be identical in all of them and in the check process.
    A failure is re-confirmed, shrunk and stored as op `order` ({"cases": [...in execution order...]});
    `replay` runs that list and its last case alone in two fresh processes.

Round 4 layers (kinds e-j of ROUND4_BRIEF.md):
  * (i) input shapes.  The daylight-saving period is handed to the real code in every shape AnalysisPeriod takes
    (`PFORMS`: numbers, strings, from_string text - plain, repr round trip, zero-padded, upper case with odd
    spacing, tabs, full-width digits, plus signs -, from_dict full / sparse / reversed key order, from_start_end_
    datetime, floats, duplicate, falsy defaults, clipped end day, other time step, keywords, int leap flag); the
    model and the oracle always get the six stored numbers.  A period tuple carries the shape as 8th element, an
    oracle input as 'pform'.  Every op with a period (dst, sun, riseset*, analemma, hourly, dayarc, histories:
    init + sper, all oracle ops) draws shapes; the `dst` correspondence sweeps every fixed period x shape.
    Setter values arrive as text ('40.72', '4.072e+01', padded), int, Fraction, Decimal (`VSHAPES`, third
    element of a history setter op); the Sunpath itself is made by constructor / keywords / from_location /
    strings / Decimal+Fraction / default object + setters / a re-used object of another place (`SFORMS`,
    chosen by `_sform_of` from the numbers of the configuration, histories: init['sform']).
  * (g) conventions between two methods: oracle op `geometry` calls day_arc3d, day_polyline2d,
    monthly_day_arc3d, monthly_day_polyline2d, hourly_analemma_polyline3d / 2d, Sun.position_3d / 2d with
    EVERY argument off its default (origin, radius, divisions, projection in any letter case, depression,
    daytime_only, is_solar_time, months, steps; positional and keyword) against own projection formulas and
    own sun positions; hour-of-year / minute-of-year / (month, day, float hour) entry points incl. fractional
    hoy name the same minute (dst_shift).
  * (f) aliasing: oracle op `alias` edits every returned container (dict, list, list of lists, Sun.data) in
    place, asks a second question and a second Sunpath, and asks again.
  * (e) sibling classes: Sunpath and Sun have no subclasses in ladybug; the sibling entry points are
    from_location (SFORMS) and a native datetime.datetime instead of a DateTime (sun / riseset correspondence).
    DateTime arguments are made by every DateTime constructor (`_dt`: plain, from_moy, from_hoy with a fractional
    hour, from_date_time_string, from_array, from_date_and_time).
  * (h) numeric edges: latitudes / longitudes / north +-1e-12 and -0.0, depressions 1e-300 .. 120 and negative,
    int arguments, float hours one ulp off a minute / half a minute (csun), fractional hoy.
  * (j) branches of the anchored functions, each counted under `branch:*` in the evidence:
      is_daylight_saving_hour: no period / plain / reversed            [branch:dst_none|north|wrap|empty]
      calculate_sun_from_date_time: leap rebuild of the datetime; native datetime (`except AttributeError`);
        daylight-saving hour 0 (negative hour) and with solar time (sol_time < 0); four refraction ranges
                                                                       [branch:sun_*, branch:refraction_*]
        (ZeroDivisionError / ValueError azimuth branches belong to C05 and are exercised there)
      calculate_sunrise_sunset_from_datetime: solar / clock noon; polar (`except ValueError`) with and
        without daylight saving; rise-set with and without; leap rebuild; native datetime
                                                                       [branch:riseset_*]
      _datetime_from_day_and_hour: previous day / next day / year wrap [riseset:sunrise_previous_*, ...]
      _calculate_hour_and_minute: minute carry (>= 60), negative       [branch:hm_*]
      analemma_suns / hourly_analemma_suns: one step / many / bad step; daytime filter   [analemma:steps_*]
      hourly_analemma_polyline3d: closed / open; daytime: above / below / split          [branch:hpoly_*]
      day_arc3d: polar circle / night None / rise-set arc               [branch:dayarc_*]
      _project_polyline_to_2d: orthographic / stereographic / refused   [oracle_geometry:*, history poly2d Mercator]
      _days_from_010119: 2017 / 2016 fast paths; the general branch is unreachable with ladybug DateTimes and is
        reached only by a native datetime of another year (not exercised: no independent statement about it)
      _calculate_solar_time_by_doy: raises NotImplementedError, no caller.

Round 6 layer (class: two objects that stand for DIFFERENT KINDS OF YEAR interact - a simplification that
compares objects, or ordinals of objects, of different calendars):
  * the Sunpath (is_leap_year), its daylight-saving period (AnalysisPeriod.is_leap_year) and a DateTime argument
    each carry their own calendar.  Oracle op `dst_mixed` runs all 8 mixes (counted oracle_mixed:S?P?D?): the
    statement fixes the window by its dates, the two calendars number a date at most one day apart, so every clock
    time further than a day from both ends (in either calendar) has a determined answer: is_daylight_saving_hour,
    the flag and clock date-time of the sun, the sun of one hour earlier / of standard time, calculate_sun and
    calculate_sun_from_moy naming the same time, sunrise / noon / sunset one hour later on the clock (inside) or
    unchanged (outside) through calculate_sunrise_sunset and _from_datetime; a noon DateTime of the other year
    kind names the same day (never a day off).  The band within a day of an end is not judged
    (C11_dst_other_calendar_band_counterexample).  History `check` steps dst_window / dst_shift on an object whose
    period is of the other calendar are judged by the same clauses instead of being skipped.
    Lean: C11_moy_other_calendar, C11_dst_changes_only_at_ends, C11_dst_other_calendar, C11_dst_year_agnostic.
    Sites of the class in the anchored code: is_daylight_saving_hour (period ends vs datetime), the leap rebuild
    of calculate_sun_from_date_time / calculate_sunrise_sunset_from_datetime (DateTime vs Sunpath),
    _datetime_from_day_and_hour (day start rebuilt in the Sunpath's calendar), _calculate_solar_geometry
    (datetime.year; compared with the model only).

Producers and their consumers (each consumer is exercised by the op named in brackets):
  is_daylight_saving_hour      -> calculate_sun_from_date_time [sun, dst_shift], calculate_sun [csun, dst_shift
                                  entry points], calculate_sun_from_hoy / _from_moy [shoy, smoy, dst_shift entry
                                  points], calculate_sunrise_sunset(_from_datetime) both branches [riseset(md),
                                  riseset oracle], analemma_suns / hourly_analemma_suns [analemma, hourly],
                                  hourly_analemma_polyline3d [analemma oracle: vertices; hpoly3d vs fresh],
                                  day_arc3d / monthly_day_arc3d [dayarc, monthly_arcs], the 2-D polylines
                                  [poly2d, monthly2d, hpoly2d: compared with a fresh object only]
  _calculate_solar_geometry    -> calculate_sun_from_date_time, calculate_sunrise_sunset_from_datetime
  _calculate_solar_time        -> calculate_sun_from_date_time (clock and solar branch) [sun with solar flag]
  _calculate_hour_and_minute   -> calculate_sun [csun], noon / polar noon, _datetime_from_day_and_hour [hmq, riseset]
  _calculate_sunrise_hour_angle-> calculate_sunrise_sunset_from_datetime -> day_arc3d -> day_polyline2d,
                                  monthly_day_arc3d -> monthly_day_polyline2d
  setters (6)                  -> every read [history]
"""
import json
import math
import os
import struct
import subprocess
import sys
from datetime import datetime, timedelta

from harness import core
from harness.core import err_name, run_oracle_cases

PROP = 'C11'
PROOF_MODULES = ['Ladybug.Props.C11']
GREP_MODULES = ['Ladybug.Py', 'Ladybug.Transc', 'Ladybug.RealInst', 'Ladybug.Model.Cal', 'Ladybug.Model.AP',
                'Ladybug.Model.Sun', 'Ladybug.Model.SunTimes', 'Ladybug.Model.SunpathObj', 'Ladybug.Gen.DtTables', 'Ladybug.Gen.ApTables',
                'Ladybug.Proofs.CalLemmas', 'Ladybug.Props.C08', 'Ladybug.Proofs.C05Real',
                'Ladybug.Proofs.C05Lemmas', 'Ladybug.Proofs.C11Lemmas', 'Ladybug.Proofs.C11Obj', 'Ladybug.Drv.C11', 'Ladybug.DrvCore',
                'Ladybug.Proofs.C11Forms', 'Ladybug.Props.C04', 'Ladybug.Proofs.C04Lemmas', 'Ladybug.Proofs.C04Listings',
                'Ladybug.Proofs.C04Order', 'Ladybug.Proofs.C04Obj', 'Ladybug.Model.APObj']
RULE = ('correspondence: Float instance of the model vs the real methods at the public API: '
        'is_daylight_saving_hour (every hour of the year + the minutes around the period ends, northern / '
        'year-wrapping / empty periods, both leap flags), calculate_sun_from_date_time with a daylight-saving '
        'period (datetime, altitude, azimuth, sun_vector_reversed, is_during_day, is_daylight_saving; 1e-9), '
        'calculate_sunrise_sunset and _from_datetime (the three date-times or None, error class), '
        '_calculate_hour_and_minute on signed float hours, analemma_suns / hourly_analemma_suns (every sun), '
        'day_arc3d / monthly_day_arc3d (end points = suns of the reported sunrise/sunset, middle sun on the arc). '
        'Inputs: latitude/longitude/zone boundary sets (poles, polar circles, tropics, date line, fractional and '
        'solar zones, zones up to 2 h off the longitude) x days (month ends, 29 Feb, solstices, equinoxes, '
        '1 Jan, 31 Dec) x depressions {0, .5334, .833, 6, 12, 18, random} x solar-time flag x daylight-saving '
        'periods; sunrise/sunset are AIMED at local midnight (+-40 s, +-1 h) by shifting a fractional zone by '
        'the model\'s own unrounded hours. A case is non-trivial when the implementation returns a value; '
        'distinct = distinct request line. Oracle (written from the statement, independent of the model): '
        'daylight-saving flag = membership of the hour in the set of hours walked cyclically from the start to '
        'the end of the period; sunrise <= noon <= sunset as instants with sunrise on the day or the day before '
        'and sunset on the day or the day after (year cyclic); derived suns recomputed from their own '
        'date-times; sampled sub-claims against the Almanac ephemeris.  Round 3: generated HISTORIES on one '
        'object (6-20 operations: repeated / varied reads, all six setters, refused setters and refused reads, '
        'times within a day of the ends of every period the history has seen, year ends, the leap day; rare '
        'strata counted under history:*: zone 0 off Greenwich, depression 0 as int and float, leap switch both '
        'ways, period of the other calendar, None period) compared step by step with SunpathObj.run (model) and '
        'with a fresh object of the established public state plus the independent oracles on the used object '
        '(oracle op history); a slice of the oracle stream re-run in 3-4 fresh processes in different orders '
        '(op order).  Round 4: the daylight-saving period in every shape AnalysisPeriod accepts (numbers, strings, '
        'from_string text in eight spellings, dictionaries, start/end date-times, floats, copies, falsy defaults, '
        'clipped end day, other time step) with the model fed the six stored numbers; setter values as text / int / '
        'Fraction / Decimal; the Sunpath made by constructor, keywords, from_location, strings, setters on a default '
        'or re-used object; native datetime arguments; geometry consumers with every argument off its default '
        'against own projection formulas (op geometry); results edited in place, second object (op alias); '
        'branches of the anchored functions counted under branch:*.  Round 6: Sunpath, daylight-saving period and '
        'DateTime argument of every mix of year kinds (op dst_mixed): clock times further than a day from both ends '
        'of the period are flagged / shifted / unaffected as the dates say, sunrise-noon-sunset move by one hour or '
        'not at all, a noon DateTime of the other year kind names the same day.')
TRUSTED_BASE = [
    'modelled, not verified: CPython float arithmetic and libm = Lean Float primitives on this machine (the '
    'model is compared with the code on every generated case; the rounded minute of sunrise/sunset is compared '
    'exactly)',
    'modelled, not verified: ladybug_geometry Arc3D.from_start_mid_end (observed through p1, p2, c, radius, '
    'plane normal only), Arc3D.to_polyline and Polyline3D.split_with_plane; the 2D variants (day_polyline2d, '
    'hourly_analemma_polyline2d/3d, monthly_day_polyline2d) are not modelled: the oracle op geometry compares them '
    'with own projection formulas applied to the 3-D results',
    'AnalysisPeriod truth value: `not self.daylight_saving_period` is modelled as `is None` (a period always '
    'has at least one time step); compared on every dst case',
    'IEEE evaluation vs real evaluation of the NOAA series is not proved; the altitude / noon / polar / '
    'one-hour-earlier claims on the real code are sampled against the independent ephemeris, not theorems',
    'the independent ephemeris (Astronomical Almanac low-precision Sun, in this file; stated precision 0.01 deg)',
    'histories: the model object has the six public attributes and nothing else; that the real object has no '
    'other state that matters is established by the step-by-step comparison on the generated histories of this '
    'run only (not a theorem about the Python object)',
    'refused out-of-range assignments are modelled as storing nothing (fixes/C11_setters_validate_first.patch); '
    'on a tree without the patch that clause is a known finding and is not compared',
]
ASSUMPTIONS = [
    'years 2016 (leap) / 2017 (normal) as fixed by ladybug DateTime; the year is cyclic (the day before 1 Jan '
    'is 31 Dec of the same reference year)',
    'oracle domain: time zone within 2 h of longitude/15 (further off, solar noon leaves the calendar day and '
    'the DateTime constructor raises ValueError; compared with the model, not judged by the oracle)',
    'altitude sub-claim: the code (as NOAA) uses the declination and equation of time of the input datetime '
    '(noon) for the whole day; the tolerance is the altitude range over +-1 minute around the reported time '
    'plus 1.1 x the ephemeris declination drift between the input datetime and the reported time plus 0.04 deg',
    'sunrise/sunset of the start and end day of a daylight-saving period are judged only when the reported '
    'time and noon of the day are on the same side of the switch',
]
LEVEL_TEXT = ('proof (Lean 4) of the integer/branch logic and closed-form real-analysis facts of the model: '
              'daylight-saving window = cyclic interval for all periods and minutes, shift of exactly one hour '
              'and flag, sunrise <= noon <= sunset, polar branch, calendar placement of before/after-midnight '
              'times incl. year ends and leap years, analemma date lists; object state machine: reads are pure '
              'and commute, refused operations preserve the state, every history refines the fresh object of its '
              'final public attributes; model tied to the code by correspondence (single calls and histories on '
              'one object); the wrap test is the lexicographic order of the numbers (not of their text), the '
              'period may arrive as copy / dictionary / start-end / text tokens / with any time step, an object made '
              'by setters equals the constructed one; altitude-at-sunrise, noon-is-maximum sampled')
LEVEL_NOTE = 'partial by nature (numeric): sampled sub-claims are tests; 2D projections are checked by the oracle only (not modelled)'
TECHNIQUE = 'Lean 4 proof over an executable model + differential correspondence'

TOL = 1e-9


def extract(ctx):
    from tools.extract import ap_tables, dt_tables
    dt_tables.extract()
    ap_tables.extract()


# ---------------------------------------------------------------------------------------------
# helpers


def _fbits(x):
    return '%016x' % struct.unpack('<Q', struct.pack('<d', float(x)))[0]


def _bits2f(s):
    return struct.unpack('<d', struct.pack('<Q', int(s, 16)))[0]


def _b(x):
    return '1' if x else '0'


def _ydays(leap):
    return 366 if leap else 365


def _ymin(leap):
    return 1440 * _ydays(leap)


def _ref(leap, moy):
    return datetime(2016 if leap else 2017, 1, 1) + timedelta(minutes=moy)


def _moy_of(leap, month, day, hour=0, minute=0):
    y = 2016 if leap else 2017
    return int((datetime(y, month, day, hour, minute) - datetime(y, 1, 1)).total_seconds() // 60)


def _tz_tok(tz):
    return 'none' if tz is None else _fbits(tz)


def _cfg_toks(c):
    """c = (lat, lon, tz, north, leap)"""
    return '%s %s %s %s %s' % (_fbits(c[0]), _fbits(c[1]), _tz_tok(c[2]), _fbits(c[3]), _b(c[4]))


def _per_toks(p):
    """p = None | (stM, stD, stH, endM, endD, endH, leap)"""
    return 'none' if p is None else '%d %d %d %d %d %d %s' % (p[0], p[1], p[2], p[3], p[4], p[5], _b(p[6]))


_PERIOD_CACHE = {}

# Round 4 (kind i, input shapes): the SAME stored daylight-saving period (six numbers + leap flag) is handed to
# the real code in every shape AnalysisPeriod accepts; the model always gets the six numbers.  A period tuple may
# carry the shape as an 8th element: p = (stM, stD, stH, endM, endD, endH, leap[, form]).
PFORMS = ('num', 'str', 'text', 'repr', 'padded', 'shout', 'tabs', 'unicode', 'plus', 'dict', 'dict_sparse',
          'dict_reversed', 'dts', 'float', 'dup', 'falsy', 'clip', 'ts', 'kw', 'int_leap', 'str_repr_dup')
_FULLWIDTH = dict((ord(str(d)), 0xFF10 + d) for d in range(10))


def _period_text(p, fmt='%d/%d to %d/%d between %d and %d @1'):
    return fmt % (p[0], p[1], p[3], p[4], p[2], p[5]) + ('*' if p[6] else '')


def _build_period(p, form='num'):
    """The AnalysisPeriod with stored fields p[:6] and leap flag p[6], built in the shape `form` (stdlib
    formatting only; every shape is documented or accepted input of AnalysisPeriod)."""
    import contextlib
    import io
    from ladybug.analysisperiod import AnalysisPeriod
    from ladybug.dt import DateTime
    sm, sd, sh, em, ed, eh = [int(x) for x in p[:6]]
    leap = bool(p[6])
    q = (sm, sd, sh, em, ed, eh, leap)
    if form == 'str':
        return AnalysisPeriod(str(sm), str(sd), str(sh), str(em), str(ed), str(eh), 1, leap)
    if form == 'text':
        return AnalysisPeriod.from_string(_period_text(q))
    if form == 'repr':
        return AnalysisPeriod.from_string(repr(AnalysisPeriod(sm, sd, sh, em, ed, eh, 1, leap)))
    if form == 'str_repr_dup':
        return AnalysisPeriod.from_string(str(AnalysisPeriod.from_string(_period_text(q)).duplicate()))
    if form == 'padded':
        return AnalysisPeriod.from_string(_period_text(q, '%02d/%02d to %02d/%02d between %02d and %02d @1'))
    if form == 'shout':
        return AnalysisPeriod.from_string('  ' + _period_text(q, '%d / %d  TO %d / %d BETWEEN  %d AND %d @ 1 ')
                                          .replace('*', ' * ') + '  ')
    if form == 'tabs':
        return AnalysisPeriod.from_string(_period_text(q, '%d/%d\tto\t%d/%d between %d\tand %d @1'))
    if form == 'unicode':
        t = _period_text(q)
        return AnalysisPeriod.from_string(t[:t.index('@')].translate(_FULLWIDTH) + t[t.index('@'):])
    if form == 'plus':
        return AnalysisPeriod.from_string(_period_text(q, '+%d/+%d to +%d/+%d between +%d and +%d @1'))
    if form in ('dict', 'dict_sparse', 'dict_reversed'):
        items = [('st_month', sm), ('st_day', sd), ('st_hour', sh), ('end_month', em), ('end_day', ed),
                 ('end_hour', eh), ('timestep', 1), ('is_leap_year', leap)]
        if form == 'dict_sparse':
            dflt = {'st_month': 1, 'st_day': 1, 'st_hour': 0, 'end_month': 12, 'end_day': 31, 'end_hour': 23,
                    'timestep': 1, 'is_leap_year': False}
            items = [(k, v) for k, v in items if dflt[k] != v]
        if form == 'dict_reversed':
            items = list(reversed(items)) + [('type', 'AnalysisPeriod')]
        return AnalysisPeriod.from_dict(dict(items))
    if form == 'dts':
        return AnalysisPeriod.from_start_end_datetime(DateTime(sm, sd, sh, 0, leap), DateTime(em, ed, eh, 0, leap), 1)
    if form == 'float':
        return AnalysisPeriod(float(sm), float(sd), float(sh), float(em), float(ed), float(eh), 1, leap)
    if form == 'dup':
        return AnalysisPeriod(sm, sd, sh, em, ed, eh, 1, leap).duplicate()
    if form == 'falsy':     # `x or default`: None and 0 stand for the defaults 1/1 0h .. 12/31 23h
        return AnalysisPeriod(0 if sm == 1 else sm, None if sd == 1 else sd, None if sh == 0 else sh,
                              None if em == 12 else em, 0 if ed == 31 else ed, None if eh == 23 else eh,
                              None, leap or None)
    if form == 'clip':      # an end day past the end of the month is clipped to the last day (prints a note)
        last = MDAYS[em - 1] + (1 if (leap and em == 2) else 0)
        if ed == last and ed < 31:
            with contextlib.redirect_stdout(io.StringIO()):
                return AnalysisPeriod(sm, sd, sh, em, 31, eh, 1, leap)
    if form == 'ts':        # the time step of the period plays no role for daylight saving
        return AnalysisPeriod(sm, sd, sh, em, ed, eh, 2 if (sh, eh) != (0, 23) else 60, leap)
    if form == 'kw':
        return AnalysisPeriod(is_leap_year=leap, end_hour=eh, end_day=ed, end_month=em, st_hour=sh, st_day=sd,
                              st_month=sm)
    if form == 'int_leap':
        return AnalysisPeriod(sm, sd, sh, em, ed, eh, 1, 1 if leap else 0)
    return AnalysisPeriod(sm, sd, sh, em, ed, eh, 1, leap)


def _period(p):
    """The AnalysisPeriod objects are cached: the truth value of a period (`not period` in
    is_daylight_saving_hour) enumerates all its time steps once per object (~20 ms)."""
    if p is None:
        return None
    p = tuple(p)
    if p not in _PERIOD_CACHE:
        if len(_PERIOD_CACHE) > 1500:
            _PERIOD_CACHE.clear()
        _PERIOD_CACHE[p] = _build_period(p, p[7] if len(p) > 7 else 'num')
    return _PERIOD_CACHE[p]


# Round 4 (kinds e, i): the same Sunpath through every way of making one.
SFORMS = ('ctor', 'kw', 'location', 'str', 'setters', 'reuse', 'dec', 'ctor', 'ctor')


def _sform_of(c):
    """The way the Sunpath of configuration c is made: a fixed function of its numbers (so that a replay
    makes it the same way)."""
    k = int(abs(c[0]) * 1000003 + abs(c[1]) * 10007) % len(SFORMS)
    return SFORMS[k]


def _make_sunpath(lat, lon, tz, north, period, form='ctor'):
    from ladybug.sunpath import Sunpath
    if form == 'kw':
        return Sunpath(daylight_saving_period=period, north_angle=north, time_zone=tz, longitude=lon, latitude=lat)
    if form == 'location' and tz is not None:
        from ladybug.location import Location
        return Sunpath.from_location(Location(latitude=lat, longitude=lon, time_zone=tz), north, period)
    if form == 'str':
        return Sunpath(repr(float(lat)), ' %r ' % float(lon), None if tz is None else '%.17e' % tz,
                       repr(float(north)) + '\n', period)
    if form == 'dec':
        from decimal import Decimal
        from fractions import Fraction
        return Sunpath(Decimal(repr(float(lat))), Fraction(float(lon)), None if tz is None else Fraction(float(tz)),
                       Decimal(repr(float(north))), period)
    if form in ('setters', 'reuse'):
        sp = Sunpath() if form == 'setters' else Sunpath(-lat / 2.0, -lon / 2.0, None, 45.0, _period((6, 1, 5, 9, 1, 4, False)))
        if form == 'reuse':
            sp.is_leap_year = True
        sp.daylight_saving_period = period
        sp.north_angle = north
        sp.longitude = lon          # before the zone: `time_zone = None` is resolved with the longitude
        sp.time_zone = tz
        sp.latitude = lat
        sp.is_leap_year = False
        return sp
    return Sunpath(lat, lon, tz, north, period)


def _sunpath(c, p=None, sform=None):
    sp = _make_sunpath(c[0], c[1], c[2], c[3], _period(p), sform or _sform_of(c))
    sp.is_leap_year = c[4]
    return sp


def _show_dt(d):
    # (a native datetime.datetime has no leap_year attribute: year 2016 is the leap reference year)
    return '%d/%d/%d/%d/%s' % (d.month, d.day, d.hour, d.minute, _b(getattr(d, 'leap_year', d.year == 2016)))


def _dt(month, day, hour, minute, leap):
    """The ladybug DateTime of a moment through one of its constructors (kind i: the helper class in its rarer
    forms); which one is a fixed function of the numbers.  Dates that do not exist go to the plain constructor."""
    from ladybug.dt import DateTime, Date, Time
    k = (month * 7 + day * 3 + hour + minute) % 7
    try:
        moy = _moy_of(leap, month, day, hour, minute)
    except (ValueError, TypeError):
        return DateTime(month, day, hour, minute, leap)
    if k == 1:
        return DateTime.from_moy(moy, leap)
    if k == 2:
        return DateTime.from_hoy(moy / 60.0, leap)
    if k == 3:
        return DateTime.from_date_time_string(_ref(leap, moy).strftime('%d %b %H:%M'), leap)
    if k == 4:
        return DateTime.from_array(x for x in (month, day, hour, minute, leap))     # a one-shot iterable
    if k == 5:
        return DateTime.from_date_and_time(Date(month, day, leap), Time(hour, minute))
    return DateTime(month, day, hour, minute, leap)


def _native(month, day, hour, minute, leap):
    """The same moment as a datetime.datetime of the standard library (what the `except AttributeError` branch of
    calculate_sun_from_date_time is for)."""
    return datetime(2016 if leap else 2017, month, day, hour, minute)


def _show_odt(d):
    return '-' if d is None else _show_dt(d)


def _show_sun(s):
    r = s.sun_vector_reversed
    return '%s %s %s %s %s %s %s %s' % (
        _show_dt(s.datetime), _fbits(s.altitude), _fbits(s.azimuth), _fbits(r.x), _fbits(r.y), _fbits(r.z),
        _b(s.is_during_day), _b(s.is_daylight_saving))


_HEX = set('0123456789abcdef')


def _same(mo, io):
    """Token-wise comparison; 16-hex-digit tokens are floats compared within TOL (azimuth circular is not
    needed at this tolerance: both sides compute the same branch).  Returns (equal, bit_exact)."""
    if mo == io:
        return True, True
    a, b = mo.split(), io.split()
    if len(a) != len(b):
        return False, False
    for x, y in zip(a, b):
        if x == y:
            continue
        if len(x) == 16 and len(y) == 16 and set(x) <= _HEX and set(y) <= _HEX:
            fx, fy = _bits2f(x), _bits2f(y)
            if fx != fx or fy != fy:
                return False, False
            d = abs(fx - fy)
            if min(d, abs(d - 360.0)) <= TOL:
                continue
        return False, False
    return True, False


def _compare(ctx, op, cases, model_line, impl_fn):
    drv = ctx.driver()
    lines = [model_line(c) for c in cases]
    outs = drv.run(lines)
    for c, line, mo in zip(cases, lines, outs):
        try:
            io = impl_fn(c)
        except Exception as e:
            io = 'err:' + err_name(e)
        ctx.compared += 1
        ctx.count('op:' + op)
        ctx.case((op, line), nontrivial=not io.startswith('err:'))
        if io.startswith('err:'):
            ctx.count('err_results:' + op)
        eq, exact = _same(mo, io)
        if exact:
            ctx.count('bit_exact')
        if not eq:
            ctx.disagree(op, {'case': c, 'line': line}, mo, io)
    if cases:
        ctx.sample({'op': op, 'request': lines[0], 'model': outs[0]})
    return outs


# ---------------------------------------------------------------------------------------------
# generators (stdlib only)

LATS = [-90.0, -89.999, -78.0, -66.5622, -65.63, -45.0, -23.4378, -1e-12, -0.0, 0.0, 1e-12, 1e-7, 23.4378, 40.72, 59.9, 65.63, 66.5622,
        67.5, 71.0, 89.999, 90.0]
LONS = [-180.0, -179.99, -122.4, -74.02, -16.12, -7.5, -1e-12, -0.0, 0.0, 7.4999, 77.2, 151.22, 179.99, 180.0]
DEPS = [0.0, 0.5334, 0.833, 0.8333, 6.0, 12.0, 18.0]
MDAYS = [31, 28, 31, 30, 31, 30, 31, 31, 30, 31, 30, 31]
# daylight-saving periods as stored (stM, stD, stH, endM, endD, endH): northern, southern (wrapping), odd
PERIODS = [(3, 8, 2, 11, 1, 2), (3, 12, 2, 11, 5, 2), (3, 26, 1, 10, 29, 1), (10, 1, 2, 4, 1, 3), (10, 7, 2, 4, 7, 3),
           (9, 24, 2, 4, 2, 3), (12, 31, 23, 1, 1, 1), (1, 1, 0, 12, 31, 23), (6, 1, 5, 6, 1, 5), (6, 1, 5, 6, 1, 4),
           (2, 28, 23, 3, 1, 0), (11, 1, 0, 1, 1, 0), (1, 1, 1, 1, 1, 0)]
SPECIAL_DAYS = [(1, 1), (1, 2), (2, 28), (3, 1), (3, 20), (6, 20), (6, 21), (9, 22), (12, 21), (12, 30), (12, 31)]


_POOL = {}


def _rand_period(rng, leap):
    """A fixed period, or one of a pool of 24 random periods of this run (see `_period`)."""
    r = rng.random()
    if r < 0.6:
        p = rng.choice(PERIODS)
    elif len(_POOL.setdefault(id(rng), [])) >= 24:
        p = rng.choice(_POOL[id(rng)])
    else:
        sm, em = rng.randrange(1, 13), rng.randrange(1, 13)
        p = (sm, rng.randrange(1, MDAYS[sm - 1] + 1), rng.randrange(24), em, rng.randrange(1, MDAYS[em - 1] + 1),
             rng.randrange(24))
        _POOL[id(rng)].append(p)
    return p + (leap, _form_for(rng, p, leap))


_FORMS = {}


def _form_for(rng, p, leap):
    """The shape in which a period is handed to the real code: per run every (period, leap) has 'num' and three
    seeded shapes (each distinct period object costs one enumeration of its time steps, see `_period`)."""
    pool = _FORMS.setdefault(id(rng), {})
    key = (tuple(p[:6]), bool(leap))
    if key not in pool:
        pool[key] = ['num'] + [rng.choice(PFORMS) for _ in range(3)]
    return rng.choice(pool[key])


def _near_tz(rng, lon, spread=2.0):
    r = rng.random()
    base = lon / 15.0
    if r < 0.2:
        return None
    if r < 0.6:
        tz = float(round(base) + rng.choice([-2, -1, 0, 0, 0, 1, 2]))
    else:
        tz = base + rng.uniform(-spread, spread)
    return max(-12.0, min(14.0, tz))


def _rand_cfg(rng, near=True):
    lat = rng.choice(LATS) if rng.random() < 0.4 else rng.uniform(-90.0, 90.0)
    lon = rng.choice(LONS) if rng.random() < 0.4 else rng.uniform(-180.0, 180.0)
    if rng.random() < 0.06:     # a zone of exactly 0 (falsy) away from Greenwich
        lon, tz = rng.choice([-29.9, -20.0, -15.0, 12.5, 20.0, 29.9]), 0.0
    elif near or rng.random() < 0.8:
        tz = _near_tz(rng, lon)
    else:
        tz = rng.uniform(-12.0, 14.0)
    north = rng.choice([0.0, 0.0, 0.0, 90.0, -45.5, 360.0, -0.0, 1e-12, -359.99999999])
    return (lat, lon, tz, north, rng.random() < 0.4)


def _rand_day(rng, leap):
    r = rng.random()
    if r < 0.35:
        return rng.choice(SPECIAL_DAYS)
    if r < 0.4 and leap:
        return (2, 29)
    m = rng.randrange(1, 13)
    last = MDAYS[m - 1] + (1 if (leap and m == 2) else 0)
    if r < 0.55:
        return (m, rng.choice([1, last, 21]))
    return (m, rng.randrange(1, last + 1))


def _dst_boundary_moys(p, leap):
    out = set()
    n = _ymin(leap)
    for (m, d, h) in ((p[0], p[1], p[2]), (p[3], p[4], p[5])):
        try:
            b = _moy_of(leap, m, d, h)
        except ValueError:
            continue
        for k in (-61, -60, -1, 0, 1, 59, 60):
            out.add((b + k) % n)
    out.update([0, 1, 59, 60, n - 1, n - 60, n - 61])
    return sorted(out)


def _rs_line(op, c, p, solar, dep, tail):
    return '%s %s %s %s %s %s' % (op, _cfg_toks(c), _per_toks(p), _b(solar), _fbits(dep), tail)


def _show_rs(r):
    return 'ok %s %s %s' % (_show_odt(r['sunrise']), _show_dt(r['noon']), _show_odt(r['sunset']))


def _aimed_cases(ctx, n):
    """Sunrise/sunset aimed at local midnight: ask the MODEL for the unrounded hours of a configuration and
    move the (fractional) time zone so that sunrise or sunset lands at 0 / 24 +- a few seconds or minutes."""
    rng = ctx.rng
    base = []
    for _ in range(n):
        lat = rng.choice([-66.0, -65.0, -60.0, -55.0, 55.0, 58.0, 62.0, 65.63, 66.2]) + rng.uniform(-1, 1)
        lon = rng.uniform(-170.0, 170.0)
        leap = rng.random() < 0.4
        north = lat > 0
        r = rng.random()
        if r < 0.35:
            md = rng.choice([(1, 1), (12, 31), (1, 2), (12, 30)]) if not north else rng.choice([(6, 21), (7, 1), (5, 30)])
        else:
            m = rng.choice([5, 6, 7, 8] if north else [11, 12, 1, 2])
            md = (m, rng.randrange(1, 29))
        dep = rng.choice(DEPS)
        p = None
        if rng.random() < 0.35:
            p = (rng.choice([(3, 8, 2, 11, 1, 2)] if north else [(10, 1, 2, 4, 1, 3)]))[:6] + (leap,)
        base.append(((lat, lon, lon / 15.0, 0.0, leap), p, False, dep, md))
    lines = [_rs_line('risesetf', c, p, s, dep, '%d %d' % md) for (c, p, s, dep, md) in base]
    outs = ctx.driver().run(lines)
    cases = []
    for (c, p, s, dep, md), o in zip(base, outs):
        t = o.split()
        if len(t) != 4 or t[0] != 'ok' or t[1] == '-':
            continue
        sr, ss = _bits2f(t[1]), _bits2f(t[3])
        which = rng.random() < 0.5
        target = rng.choice([0.0, 0.0, -1.0, 1.0 / 60]) if which else rng.choice([24.0, 24.0, 25.0, 24.0 - 1.0 / 60])
        eps = rng.choice([0.0, 1e-9, -1e-9, 20.0 / 3600, -20.0 / 3600, 31.0 / 3600, -31.0 / 3600, 29.0 / 3600,
                          -29.0 / 3600, 0.2, -0.2])
        shift = (target + eps) - (sr if which else ss)
        tz = c[2] + shift
        if not (-12.0 <= tz <= 14.0):
            continue
        ctx.count('aimed:' + ('sunrise' if which else 'sunset') + ('@%g' % target))
        cases.append(((c[0], c[1], tz, c[3], c[4]), p, s, dep, md))
    return cases


def correspondence(ctx):
    from ladybug.sunpath import Sunpath
    from ladybug.dt import DateTime, Time
    rng = ctx.rng

    # --- is_daylight_saving_hour: every hour of the year (+ boundary minutes) for a set of periods
    cases = []
    plist = [pp + (leap,) for pp in PERIODS for leap in (False, True)]
    if ctx.quick:
        plist = rng.sample(plist, 7) + [PERIODS[0] + (False,), PERIODS[3] + (False,), PERIODS[3] + (True,),
                                        PERIODS[8] + (False,)]
    plist += [_rand_period(rng, rng.random() < 0.5) for _ in range(ctx.n(4, 40))]
    for p in plist:
        leap = p[6]
        kind = 'wrap' if (p[0], p[1], p[2]) > (p[3], p[4], p[5]) else 'empty' if (p[0], p[1], p[2]) == (p[3], p[4], p[5]) else 'north'
        ctx.count('dst_period:' + kind)
        ctx.count('branch:dst_' + kind)
        hours = range(0, _ymin(leap), 60)
        if ctx.quick:
            hours = list(range(0, _ymin(leap), 60 * 7)) + [rng.randrange(_ymin(leap)) for _ in range(300)]
        for m in list(hours) + _dst_boundary_moys(p, leap):
            r = _ref(leap, m)
            cases.append((p, leap, r.month, r.day, r.hour, r.minute))
        # a datetime whose leap flag differs from the period's (the two minutes of the year are compared as is)
        for _ in range(20):
            dl = not leap
            r = _ref(dl, rng.randrange(_ymin(dl)))
            cases.append((p, dl, r.month, r.day, r.hour, r.minute))
    cases.append((None, False, 6, 21, 12, 0))
    ctx.count('branch:dst_none')
    # round 4: every fixed period in every shape AnalysisPeriod accepts (text, strings, dictionary, ...): the
    # model gets the six numbers, the real code the shape; times = the ends of the period +- and random ones
    for pp in PERIODS:
        forms = rng.sample(PFORMS[1:], 6) if ctx.quick else PFORMS[1:]
        for form in forms:
            leap = rng.random() < 0.4
            if leap and (pp[0], pp[1]) == (2, 28) and form == 'clip':
                pass
            p = pp + (leap, form)
            ctx.count('dst_form:' + form)
            ctx.count('branch:dst_' + _kind(pp))
            n = _ymin(leap)
            for m in _dst_boundary_moys(pp, leap) + [rng.randrange(n) for _ in range(25)]:
                r = _ref(leap, m)
                cases.append((p, leap, r.month, r.day, r.hour, r.minute))
    sp_cache = {}

    def impl_dst(c):
        key = c[0]
        if key not in sp_cache:
            sp_cache[key] = _sunpath((0.0, 0.0, 0.0, 0.0, False), c[0])
        return 'ok ' + _b(sp_cache[key].is_daylight_saving_hour(_dt(c[2], c[3], c[4], c[5], c[1])))

    _compare(ctx, 'dst', cases,
             lambda c: 'dst %s %s %d %d %d %d' % (_per_toks(c[0]), _b(c[1]), c[2], c[3], c[4], c[5]), impl_dst)

    # --- _calculate_hour_and_minute on signed float hours (before-midnight sunrise, after-midnight sunset)
    cases = []
    for _ in range(ctx.n(3000, 60000)):
        h, m = rng.randrange(-26, 50), rng.randrange(60)
        cases.append(h + (m + rng.choice([0.0, 0.5, 0.49, 0.51, 1e-9, -1e-9, 0.999999])) / 60.0)
        cases.append(rng.uniform(-30.0, 54.0))
    cases += [-0.0, -1.0, -1e-12, -0.5 / 60, -0.49 / 60, -0.51 / 60, 24.0, 23.0 + 59.5 / 60, 23.0 + 59.49 / 60, -23.999,
              float('inf'), float('nan')]
    for x in cases:
        if x == x and abs(x) < 1e9:
            ctx.count('branch:hm_%s%s' % ('negative' if x < 0 else 'positive',
                                          '_minute_carry' if int(round((x - int(x)) * 60)) >= 60 else ''))
    _compare(ctx, 'hmq', cases, lambda c: 'hmq ' + _fbits(c),
             lambda c: 'ok %d %d' % Sunpath._calculate_hour_and_minute(c))

    # --- calculate_sun_from_date_time with a daylight-saving period
    cases = []
    for _ in range(ctx.n(6000, 80000)):
        c = _rand_cfg(rng, near=False)
        p = _rand_period(rng, c[4] if rng.random() < 0.9 else not c[4]) if rng.random() < 0.9 else None
        dl = c[4] if rng.random() < 0.85 else (rng.random() < 0.5)
        r = rng.random()
        if p is not None and r < 0.3:
            m = rng.choice(_dst_boundary_moys(p, dl))
        elif r < 0.45:
            m = rng.randrange(_ydays(dl)) * 1440 + rng.choice([0, 1, 30, 59, 60])
        else:
            m = rng.randrange(_ymin(dl))
        t = _ref(dl, m)
        solar = rng.random() < 0.25
        native = p is None and rng.random() < 0.5
        cases.append((c, p, solar, dl, t.month, t.day, t.hour, t.minute, native))
        ctx.count('sun:' + ('no_period' if p is None else 'period'))
        ctx.count('sun:hour0' if t.hour == 0 else 'sun:hour>0')
        if native:
            ctx.count('branch:sun_native_datetime')
        if c[4] and not dl:
            ctx.count('branch:sun_leap_rebuild')

    def impl_sun(c):
        d = _native(c[4], c[5], c[6], c[7], c[3]) if c[8] else _dt(c[4], c[5], c[6], c[7], c[3])
        s = _sunpath(c[0], c[1]).calculate_sun_from_date_time(d, c[2])
        ctx.count('sun:flagged' if s.is_daylight_saving else 'sun:unflagged')
        if s.is_daylight_saving and c[6] == 0:
            ctx.count('branch:sun_dst_hour0' + ('_solar_negative_time' if c[2] else ''))
        a = s.altitude
        ctx.count('branch:refraction_' + ('>85' if a > 85 else '>5' if a > 5 else '>-0.575' if a > -0.575 else 'below'))
        return 'ok ' + _show_sun(s)

    _compare(ctx, 'sun', cases,
             lambda c: 'sun %s %s %s %s %d %d %d %d' % (_cfg_toks(c[0]), _per_toks(c[1]), _b(c[2]), _b(c[3]), c[4],
                                                        c[5], c[6], c[7]), impl_sun)

    # --- calculate_sunrise_sunset(month, day, depression, is_solar_time)
    cases = []
    for _ in range(ctx.n(7000, 90000)):
        c = _rand_cfg(rng, near=rng.random() < 0.9)
        p = _rand_period(rng, c[4]) if rng.random() < 0.4 else None
        dep = rng.choice(DEPS) if rng.random() < 0.8 else rng.uniform(0.0, 18.0)
        if rng.random() < 0.05:      # depressions far outside the twilight range, tiny ones, integers (kind h)
            dep = rng.choice([1e-12, 1e-300, 0, 6, 18, 45.0, 89.9, 90.0, 120.0, -0.5, -6.0, 18.000000000000004])
            ctx.count('riseset:depression_edge')
        md = _rand_day(rng, c[4])
        cases.append((c, p, rng.random() < 0.15, dep, md))
    for c0 in ((10.0, 20.0, 1.0, 0.0, False), (10.0, 20.0, 1.0, 0.0, True)):
        for md in ((2, 29), (2, 30), (13, 1), (4, 31), (0, 1), (1, 0)):
            cases.append((c0, None, False, 0.5334, md))
    cases += _aimed_cases(ctx, ctx.n(1500, 15000))

    def impl_rsmd(c):
        r = _sunpath(c[0], c[1]).calculate_sunrise_sunset(c[4][0], c[4][1], c[3], c[2])
        ctx.count('riseset:' + ('polar' if r['sunrise'] is None else 'rise_set'))
        ctx.count('branch:riseset_%s_%s%s' % ('polar' if r['sunrise'] is None else 'rise_set',
                                              'dst' if (c[1] is not None and _in_window(c[1], c[0][4], _moy_of(c[0][4], c[4][0], c[4][1], 12))) else 'std',
                                              '_solar' if c[2] else ''))
        if r['sunrise'] is not None:
            if (r['sunrise'].month, r['sunrise'].day) != tuple(c[4]):
                ctx.count('riseset:sunrise_previous_day')
                if tuple(c[4]) == (1, 1):
                    ctx.count('riseset:sunrise_previous_year_end')
            if (r['sunset'].month, r['sunset'].day) != tuple(c[4]):
                ctx.count('riseset:sunset_next_day')
                if tuple(c[4]) == (12, 31):
                    ctx.count('riseset:sunset_next_year_start')
        return _show_rs(r)

    _compare(ctx, 'risesetmd', cases,
             lambda c: _rs_line('risesetmd', c[0], c[1], c[2], c[3], '%d %d' % tuple(c[4])), impl_rsmd)

    # --- calculate_sunrise_sunset_from_datetime (any hour of the day; datetime leap flag may differ)
    cases = []
    for _ in range(ctx.n(2500, 30000)):
        c = _rand_cfg(rng)
        p = _rand_period(rng, c[4]) if rng.random() < 0.5 else None
        dep = rng.choice(DEPS)
        dl = c[4] if rng.random() < 0.85 else (rng.random() < 0.5)
        if p is not None and rng.random() < 0.3:
            m = rng.choice(_dst_boundary_moys(p, dl))
        else:
            m = rng.randrange(_ymin(dl))
        t = _ref(dl, m)
        native = p is None and rng.random() < 0.4
        if native:
            ctx.count('branch:riseset_native_datetime')
        if c[4] and not dl:
            ctx.count('branch:riseset_leap_rebuild')
        cases.append((c, p, rng.random() < 0.15, dep, dl, t.month, t.day, t.hour, t.minute, native))

    def impl_rs(c):
        d = _native(c[5], c[6], c[7], c[8], c[4]) if c[9] else _dt(c[5], c[6], c[7], c[8], c[4])
        r = _sunpath(c[0], c[1]).calculate_sunrise_sunset_from_datetime(d, c[3], c[2])
        return _show_rs(r)

    _compare(ctx, 'riseset', cases,
             lambda c: _rs_line('riseset', c[0], c[1], c[2], c[3], '%s %d %d %d %d' % (_b(c[4]), c[5], c[6], c[7], c[8])),
             impl_rs)

    # --- analemma_suns / hourly_analemma_suns
    cases = []
    for _ in range(ctx.n(250, 3000)):
        c = _rand_cfg(rng)
        p = _rand_period(rng, c[4]) if rng.random() < 0.5 else None
        sm = rng.choice([1, 1, 1, rng.randrange(1, 13)])
        em = rng.choice([12, 12, rng.randrange(1, 13)])
        steps = rng.choice([1, 1, 2, 3, 4, 5, 7, 10, 14, 15, 16, 28, 29, 30, 31, rng.randrange(1, 32)])
        if rng.random() < 0.08:
            steps = rng.choice([0, 32, 40, -1, -3])
        cases.append((c, p, rng.random() < 0.2, rng.random() < 0.4, sm, em, steps, rng.randrange(24),
                      rng.choice([0, 0, 30, rng.randrange(60)])))
        ctx.count('analemma:steps_' + ('1' if steps == 1 else 'bad' if steps < 1 or steps > 31 else 'n'))

    def impl_ana(c):
        suns = _sunpath(c[0], c[1]).analemma_suns(Time(c[7], c[8]), c[3], c[2], c[4], c[5], c[6])
        return 'ok %d %s' % (len(suns), ' '.join(_show_sun(s) for s in suns))

    _compare(ctx, 'analemma', cases,
             lambda c: 'analemma %s %s %s %s %d %d %d %d %d' % (_cfg_toks(c[0]), _per_toks(c[1]), _b(c[2]), _b(c[3]),
                                                               c[4], c[5], c[6], c[7], c[8]), impl_ana)
    cases = []
    for _ in range(ctx.n(12, 150)):
        c = _rand_cfg(rng)
        p = _rand_period(rng, c[4]) if rng.random() < 0.5 else None
        cases.append((c, p, rng.random() < 0.2, rng.random() < 0.4, rng.choice([1, 1, 4]), rng.choice([12, 12, 9]),
                      rng.choice([1, 1, 2, 3, 6])))

    def impl_hourly(c):
        ll = _sunpath(c[0], c[1]).hourly_analemma_suns(c[3], c[2], c[4], c[5], c[6])
        return 'ok %d %s' % (len(ll), ' '.join('%d %s' % (len(l), ' '.join(_show_sun(s) for s in l)) for l in ll))

    def canon_ws(s):
        return ' '.join(s.split())

    outs = _compare(ctx, 'hourly', cases,
                    lambda c: 'hourly %s %s %s %s %d %d %d' % (_cfg_toks(c[0]), _per_toks(c[1]), _b(c[2]), _b(c[3]),
                                                              c[4], c[5], c[6]),
                    lambda c: canon_ws(impl_hourly(c)))

    # --- day_arc3d / monthly_day_arc3d: the arc goes through the suns of the reported times
    _arc_correspondence(ctx)

    # --- histories on one object, step by step against SunpathObj.run
    _hist_correspondence(ctx)


def _arc_points(model_out, radius=100.0):
    """(kind, [(x, y, z)] * 3) from a `dayarc` answer; None for `ok none`."""
    t = model_out.split()
    if t[:2] == ['ok', 'none']:
        return 'none', None
    kind = t[1]
    pts = []
    for k in range(3):
        o = 2 + 8 * k
        pts.append(tuple(_bits2f(t[o + 3 + j]) * radius for j in range(3)))
    return kind, pts


def _dist(a, b):
    return math.sqrt(sum((x - y) ** 2 for x, y in zip(a, b)))


def _arc_vs_points(arc, kind, pts, radius=100.0):
    """None if the Arc3D is the one through the three model suns, else a description."""
    if kind == 'none':
        return None if arc is None else 'model: None, implementation: an arc'
    if arc is None:
        return 'model: an arc (%s), implementation: None' % kind
    tol = 1e-6 * radius
    c = (arc.c.x, arc.c.y, arc.c.z)
    n = (arc.plane.n.x, arc.plane.n.y, arc.plane.n.z)
    for name, pt in zip(('first', 'middle', 'last'), pts):
        off = abs(_dist(pt, c) - arc.radius)
        pl = abs(sum((pt[i] - c[i]) * n[i] for i in range(3)))
        if off > tol or pl > tol:
            return '%s sun %r is not on the arc (radial %.3g, out of plane %.3g)' % (name, pt, off, pl)
    if kind == 'arc':
        p1, p2 = (arc.p1.x, arc.p1.y, arc.p1.z), (arc.p2.x, arc.p2.y, arc.p2.z)
        if _dist(p1, pts[0]) > tol or _dist(p2, pts[2]) > tol:
            return 'arc ends %r %r are not the sunrise/sunset suns %r %r' % (p1, p2, pts[0], pts[2])
        if arc.is_circle:
            return 'a closed circle where an arc from sunrise to sunset is required'
    else:
        if not arc.is_circle:
            return 'an open arc where the full circle of a day without sunrise is required'
    return None


def _arc_correspondence(ctx):
    rng = ctx.rng
    cases = []
    for _ in range(ctx.n(700, 8000)):
        c = _rand_cfg(rng)
        c = (c[0], c[1], c[2], rng.choice([0.0, 0.0, 30.0]), c[4])
        p = _rand_period(rng, c[4]) if rng.random() < 0.3 else None
        cases.append((c, p, rng.choice(DEPS), rng.random() < 0.6, _rand_day(rng, c[4])))
    lines = ['dayarc %s %s %s %s %d %d' % (_cfg_toks(c[0]), _per_toks(c[1]), _fbits(c[2]), _b(c[3]), c[4][0], c[4][1])
             for c in cases]
    outs = ctx.driver().run(lines)
    for c, line, mo in zip(cases, lines, outs):
        ctx.compared += 1
        ctx.count('op:dayarc')
        try:
            arc = _sunpath(c[0], c[1]).day_arc3d(c[4][0], c[4][1], depression=c[2], daytime_only=c[3])
            io = 'ok'
        except Exception as e:
            io = 'err:' + err_name(e)
        ctx.case(('dayarc', line), nontrivial=io == 'ok')
        if io != 'ok' or not mo.startswith('ok'):
            if mo != io:
                ctx.disagree('dayarc', {'case': c, 'line': line}, mo, io)
            continue
        kind, pts = _arc_points(mo)
        ctx.count('dayarc:' + kind)
        why = _arc_vs_points(arc, kind, pts)
        if why:
            ctx.disagree('dayarc', {'case': c, 'line': line}, mo, why)
    # monthly_day_arc3d = the arcs of the 21st of every month that are not None, in order
    for _ in range(ctx.n(25, 300)):
        c = _rand_cfg(rng)
        c = (c[0], c[1], c[2], 0.0, c[4])
        dep, dto = rng.choice(DEPS), rng.random() < 0.7
        lines = ['dayarc %s none %s %s %d 21' % (_cfg_toks(c), _fbits(dep), _b(dto), m) for m in range(1, 13)]
        outs = ctx.driver().run(lines)
        ctx.compared += 1
        ctx.count('op:monthly_arcs')
        try:
            arcs = _sunpath(c).monthly_day_arc3d(depression=dep, daytime_only=dto)
        except Exception as e:
            arcs = 'err:' + err_name(e)
        ctx.case(('monthly', lines[0]), nontrivial=not isinstance(arcs, str))
        merr = [o for o in outs if not o.startswith('ok')]
        if isinstance(arcs, str) or merr:
            if not (isinstance(arcs, str) and merr and merr[0] == arcs):
                ctx.disagree('monthly_arcs', {'case': c, 'dep': dep, 'daytime_only': dto}, merr[:1] or 'ok', str(arcs)[:80])
            continue
        want = [_arc_points(o) for o in outs]
        want = [w for w in want if w[0] != 'none']
        if len(want) != len(arcs):
            ctx.disagree('monthly_arcs', {'case': c, 'dep': dep, 'daytime_only': dto}, '%d arcs' % len(want),
                         '%d arcs' % len(arcs))
            continue
        for (kind, pts), arc in zip(want, arcs):
            why = _arc_vs_points(arc, kind, pts)
            if why:
                ctx.disagree('monthly_arcs', {'case': c, 'dep': dep, 'daytime_only': dto}, kind, why)
                break


# ---------------------------------------------------------------------------------------------
# independent ephemeris (The Astronomical Almanac, low precision), geometric altitude only


def _jd0(y, m, d):
    """Julian day number at 0h UT of a Gregorian calendar date (Meeus, ch. 7)."""
    if m <= 2:
        y -= 1
        m += 12
    a = y // 100
    return math.floor(365.25 * (y + 4716)) + math.floor(30.6001 * (m + 1)) + d + (2 - a + a // 4) - 1524.5


def _almanac(jd):
    """Right ascension, declination, Greenwich mean sidereal time (degrees)."""
    n = jd - 2451545.0
    mean_long = (280.460 + 0.9856474 * n) % 360.0
    g = math.radians((357.528 + 0.9856003 * n) % 360.0)
    lam = math.radians(mean_long + 1.915 * math.sin(g) + 0.020 * math.sin(2 * g))
    eps = math.radians(23.439 - 0.0000004 * n)
    ra = math.degrees(math.atan2(math.cos(eps) * math.sin(lam), math.cos(lam))) % 360.0
    dec = math.degrees(math.asin(math.sin(eps) * math.sin(lam)))
    gmst = (280.46061837 + 360.98564736629 * n) % 360.0
    return ra, dec, gmst


def _alt_from(lat, dec, ha_deg):
    la, de, ha = math.radians(lat), math.radians(dec), math.radians(ha_deg)
    s = math.sin(la) * math.sin(de) + math.cos(la) * math.cos(de) * math.cos(ha)
    return math.degrees(math.asin(max(-1.0, min(1.0, s))))


def _eff_tz(lon, tz):
    return lon / 15.0 if tz is None else float(tz)


def _true_alt(lat, lon, etz, leap, day_moy0, std_minutes, solar):
    """Geometric altitude and declination at `std_minutes` minutes of STANDARD zone time (or of apparent solar
    time when `solar`) after the midnight that starts the day whose first minute of the year is `day_moy0`."""
    r = _ref(leap, day_moy0)
    jd_mid = _jd0(r.year, r.month, r.day)
    if solar:
        jd = jd_mid + (std_minutes / 60.0 - lon / 15.0) / 24.0
        _, dec, _ = _almanac(jd)
        return _alt_from(lat, dec, 15.0 * (std_minutes / 60.0 - 12.0)), dec
    jd = jd_mid + (std_minutes / 60.0 - etz) / 24.0
    ra, dec, gmst = _almanac(jd)
    ha = (gmst + lon - ra + 180.0) % 360.0 - 180.0
    return _alt_from(lat, dec, ha), dec


# ---------------------------------------------------------------------------------------------
# property oracle (written from the statement; the model is not used)


def _window_hours(p, leap):
    """The set of hours of the year inside the daylight-saving period: walk hour by hour from the start
    moment until the end moment is reached, passing the year end if need be."""
    n = _ydays(leap) * 24
    st = _moy_of(leap, p[0], p[1], p[2]) // 60
    en = _moy_of(leap, p[3], p[4], p[5]) // 60
    out = set()
    h = st
    while h != en:
        out.add(h)
        h = (h + 1) % n
    return out


_WIN = {}


def _in_window(p, leap, moy):
    if p is None:
        return False
    key = (tuple(p[:6]), leap)
    if key not in _WIN:
        if len(_WIN) > 200:
            _WIN.clear()
        _WIN[key] = _window_hours(p, leap)
    return (moy // 60) in _WIN[key]


def _kind(p):
    if p is None:
        return 'none'
    a, b = tuple(p[:3]), tuple(p[3:6])
    return 'wrap' if a > b else 'empty' if a == b else 'north'


def _cfg_of(inp):
    return (inp['lat'], inp['lon'], inp.get('tz'), inp.get('north', 0.0), bool(inp.get('leap')))


def _per_of(inp):
    p = inp.get('period')
    return None if p is None else tuple(p[:6]) + (bool(inp.get('leap')), inp.get('pform', 'num'))


def _check_dst_window(inp, sp=None):
    """is_daylight_saving_hour(dt) <=> dt in the cyclic window."""
    from ladybug.dt import DateTime
    leap = bool(inp.get('leap'))
    p = _per_of(inp)
    sp = sp or _sunpath((0.0, 0.0, 0.0, 0.0, leap), p)
    bad = []
    for moy in inp['moys']:
        r = _ref(leap, moy)
        got = bool(sp.is_daylight_saving_hour(_dt(r.month, r.day, r.hour, r.minute, leap)))
        want = _in_window(p, leap, moy)
        if got != want:
            bad.append((moy, r.strftime('%d %b %H:%M'), want, got))
    if bad:
        m = bad[0]
        return {'required': '%s: daylight saving = %s (period %r, %d of %d sampled minutes wrong)'
                % (m[1], m[2], p, len(bad), len(inp['moys'])),
                'observed': 'is_daylight_saving_hour = %s' % m[3],
                'sig': {'period': _kind(p), 'expected': m[2]}}
    return None


def _circ(a, b):
    return abs((a - b + 180.0) % 360.0 - 180.0)


def _check_dst_shift(inp, sp=None):
    """Inside the window the sun is the sun of one hour earlier standard time and is flagged; outside it is
    the sun of the Sunpath without a period, unflagged.  Every entry point that names the same clock time
    (calculate_sun, calculate_sun_from_hoy, calculate_sun_from_moy) gives the same sun."""
    from ladybug.dt import DateTime
    c, p = _cfg_of(inp), _per_of(inp)
    leap, solar = c[4], bool(inp.get('solar'))
    n = _ymin(leap)
    sp, sp0 = sp or _sunpath(c, p), _sunpath(c, None)
    for moy in inp['moys']:
        r = _ref(leap, moy)
        s = sp.calculate_sun_from_date_time(_dt(r.month, r.day, r.hour, r.minute, leap), solar)
        inside = _in_window(p, leap, moy)
        sig = {'period': _kind(p), 'inside': inside, 'solar': solar}
        when = r.strftime('%d %b %H:%M')
        others = [('calculate_sun_from_moy', lambda: sp.calculate_sun_from_moy(moy, solar)),
                  ('calculate_sun', lambda: sp.calculate_sun(r.month, r.day, r.hour + r.minute / 60.0, solar))]
        if r.minute == 0:
            others.append(('calculate_sun_from_hoy', lambda: sp.calculate_sun_from_hoy(moy // 60, solar)))
        # a fractional hour of the year names its minute (float product, then rounding: kind h)
        others.append(('calculate_sun_from_hoy(float)', lambda: sp.calculate_sun_from_hoy(moy / 60.0, solar)))
        for name, fn in others:
            try:
                t = _sun_tuple(fn())
            except Exception as e:
                t = 'raises %s' % type(e).__name__
            if t != _sun_tuple(s):
                return {'required': '%s: %s names the same clock time as calculate_sun_from_date_time: %r'
                        % (when, name, _sun_tuple(s)), 'observed': t,
                        'sig': dict(sig, what='entry-points-differ', entry=name)}
        # a datetime.datetime of the standard library names the same moment (Sunpath without a period: the
        # daylight-saving test needs the minute of the year, which only a ladybug DateTime has)
        try:
            sn = _sun_tuple(sp0.calculate_sun_from_date_time(_native(r.month, r.day, r.hour, r.minute, leap), solar))[4:]
        except Exception as e:
            sn = 'raises %s' % type(e).__name__
        sd = _sun_tuple(sp0.calculate_sun_from_date_time(_dt(r.month, r.day, r.hour, r.minute, leap), solar))[4:]
        if sn != sd:
            return {'required': '%s: a native datetime gives the sun of the DateTime of the same moment %r' % (when, sd),
                    'observed': sn, 'sig': dict(sig, what='native-datetime')}
        if bool(s.is_daylight_saving) != inside:
            return {'required': '%s: is_daylight_saving = %s' % (when, inside),
                    'observed': s.is_daylight_saving, 'sig': dict(sig, what='flag')}
        d = s.datetime
        if (d.month, d.day, d.hour, d.minute) != (r.month, r.day, r.hour, r.minute):
            return {'required': 'the sun keeps its clock date-time %s' % when, 'observed': str(d),
                    'sig': dict(sig, what='datetime')}
        if not inside:
            s0 = sp0.calculate_sun_from_date_time(DateTime(r.month, r.day, r.hour, r.minute, leap), solar)
            if (s.altitude, s.azimuth) != (s0.altitude, s0.azimuth):
                return {'required': '%s outside the period: the sun of standard time (%r, %r)'
                        % (when, s0.altitude, s0.azimuth), 'observed': (s.altitude, s.azimuth),
                        'sig': dict(sig, what='outside-changed')}
            continue
        r1 = _ref(leap, (moy - 60) % n)
        s1 = sp0.calculate_sun_from_date_time(DateTime(r1.month, r1.day, r1.hour, r1.minute, leap), solar)
        tol = 0.1 if moy < 60 else 0.05        # the first hour of the year is compared with the last of the same year
        sep = _circ(s.azimuth, s1.azimuth) * math.cos(math.radians(s1.altitude))
        if abs(s.altitude - s1.altitude) > 2 * tol or sep > 2 * tol:
            return {'required': '%s inside the period: the sun of %s standard time (altitude %.4f azimuth %.4f)'
                    % (when, r1.strftime('%d %b %H:%M'), s1.altitude, s1.azimuth),
                    'observed': 'altitude %.4f azimuth %.4f' % (s.altitude, s.azimuth),
                    'sig': dict(sig, what='not-one-hour-earlier')}
    return None


# Round 6 (class: two objects that stand for different kinds of year interact).  The Sunpath (is_leap_year), its
# daylight-saving period (AnalysisPeriod.is_leap_year) and a DateTime argument each carry their own calendar; the
# anchored code compares year-agnostic ordinals (minutes of the year) of objects that may come from different
# calendars.  The statement fixes the window by its dates: read in either calendar the two ends and the moment
# keep their order, and the ordinals of the two calendars are at most one day apart (29 Feb), so for every moment
# further than a day from both ends the answer is determined whatever the mix of calendars is.

_MIXED_BAND = 1440 + 61


def _mixed_expect(p6, month, day, hour, minute):
    """True / False: the moment is inside / outside the period in BOTH calendars and further than a day from both
    ends; None: not judged (within the band of an end, or a date that one calendar lacks)."""
    ans = set()
    for k in (False, True):
        try:
            t = _moy_of(k, month, day, hour, minute)
            st, en = _moy_of(k, p6[0], p6[1], p6[2]), _moy_of(k, p6[3], p6[4], p6[5])
        except ValueError:
            return None
        n = _ymin(k)
        for e in (st, en):
            if min((t - e) % n, (e - t) % n) <= _MIXED_BAND:
                return None
        ans.add((t - st) % n < (en - st) % n)
    return ans.pop() if len(ans) == 1 else None


def _mixed_times_from_moys(leap, moys):
    out = []
    for m in moys:
        r = _ref(leap, m % _ymin(leap))
        out.append([r.month, r.day, r.hour, r.minute])
    return out


def _check_dst_mixed(inp, sp=None):
    """Sunpath, daylight-saving period and DateTime argument of any mix of year kinds ('leap', 'pleap', 'dleap'):
    a clock time clearly inside the period is flagged and sees the sun of one hour earlier standard time, a clock
    time clearly outside is unaffected; sunrise / noon / sunset of a day clearly inside are one hour later on the
    clock than without the period, of a day clearly outside unchanged."""
    from ladybug.dt import DateTime
    leap = bool(inp.get('leap'))
    pleap = bool(inp.get('pleap', leap))
    dleap = bool(inp.get('dleap', leap))
    solar = bool(inp.get('solar'))
    p6 = tuple(inp['period'][:6])
    p = p6 + (pleap, inp.get('pform', 'num'))
    c = (inp.get('lat', 0.0), inp.get('lon', 0.0), inp.get('tz', 0.0), inp.get('north', 0.0), leap)
    sp = sp or _sunpath(c, p)
    sp0 = _sunpath(c, None)
    mix = 'S%dP%dD%d' % (leap, pleap, dleap)
    for (month, day, hour, minute) in inp['times']:
        want = _mixed_expect(p6, month, day, hour, minute)
        if want is None:
            _COUNT('oracle_mixed_time:not_judged')
            continue
        _COUNT('oracle_mixed_time:' + ('inside' if want else 'outside'))
        when = '%d/%d %02d:%02d (%s-year DateTime, %s-year Sunpath, %s-year period %r)' % (
            month, day, hour, minute, 'leap' if dleap else 'normal', 'leap' if leap else 'normal',
            'leap' if pleap else 'normal', p6)
        sig = {'mix': mix, 'period': _kind(p6), 'inside': want, 'solar': solar}
        got = bool(sp.is_daylight_saving_hour(_dt(month, day, hour, minute, dleap)))
        if got != want:
            return {'required': '%s: daylight saving = %s (more than a day from both ends in either calendar)'
                    % (when, want), 'observed': 'is_daylight_saving_hour = %s' % got, 'sig': dict(sig, what='window')}
        s = sp.calculate_sun_from_date_time(_dt(month, day, hour, minute, dleap), solar)
        if bool(s.is_daylight_saving) != want:
            return {'required': '%s: is_daylight_saving = %s' % (when, want), 'observed': s.is_daylight_saving,
                    'sig': dict(sig, what='flag')}
        d = s.datetime
        if (d.month, d.day, d.hour, d.minute) != (month, day, hour, minute):
            return {'required': 'the sun keeps its clock date-time %s' % when, 'observed': str(d),
                    'sig': dict(sig, what='datetime')}
        if dleap == leap:
            for name, fn in (('calculate_sun', lambda: sp.calculate_sun(month, day, hour + minute / 60.0, solar)),
                             ('calculate_sun_from_moy',
                              lambda: sp.calculate_sun_from_moy(_moy_of(leap, month, day, hour, minute), solar))):
                try:
                    t = _sun_tuple(fn())
                except Exception as e:
                    t = 'raises %s' % type(e).__name__
                if t != _sun_tuple(s):
                    return {'required': '%s: %s names the same clock time as calculate_sun_from_date_time: %r'
                            % (when, name, _sun_tuple(s)), 'observed': t,
                            'sig': dict(sig, what='entry-points-differ', entry=name)}
        if not want:
            s0 = sp0.calculate_sun_from_date_time(DateTime(month, day, hour, minute, dleap), solar)
            if (s.altitude, s.azimuth) != (s0.altitude, s0.azimuth):
                return {'required': '%s outside the period: the sun of standard time (%r, %r)'
                        % (when, s0.altitude, s0.azimuth), 'observed': (s.altitude, s.azimuth),
                        'sig': dict(sig, what='outside-changed')}
        else:
            # one hour earlier in the calendar the Sunpath reads the date in (a leap-year Sunpath re-reads a
            # normal-year DateTime in its own calendar: the hour before 1 Mar 00:30 is then 29 Feb 23:30)
            eff = True if leap else dleap
            moy = _moy_of(eff, month, day, hour, minute)
            r1 = _ref(eff, (moy - 60) % _ymin(eff))
            s1 = sp0.calculate_sun_from_date_time(DateTime(r1.month, r1.day, r1.hour, r1.minute, eff), solar)
            tol = 0.1 if moy < 60 else 0.05
            sep = _circ(s.azimuth, s1.azimuth) * math.cos(math.radians(s1.altitude))
            if abs(s.altitude - s1.altitude) > 2 * tol or sep > 2 * tol:
                return {'required': '%s inside the period: the sun of %s standard time (altitude %.4f azimuth %.4f)'
                        % (when, r1.strftime('%d %b %H:%M'), s1.altitude, s1.azimuth),
                        'observed': 'altitude %.4f azimuth %.4f' % (s.altitude, s.azimuth),
                        'sig': dict(sig, what='not-one-hour-earlier')}
        # the day of the moment: sunrise / noon / sunset on the clock
        if abs(c[2] - c[1] / 15.0) > 2.0 if c[2] is not None else False:
            continue
        day_w = [_mixed_expect(p6, month, day, h, mi) for (h, mi) in ((0, 0), (12, 0), (23, 59))]
        try:
            prev, nxt = _ref(False, (_moy_of(False, month, day) - 1440) % _ymin(False)), \
                _ref(False, (_moy_of(False, month, day) + 1440) % _ymin(False))
        except ValueError:
            continue
        day_w += [_mixed_expect(p6, prev.month, prev.day, 12, 0), _mixed_expect(p6, nxt.month, nxt.day, 12, 0)]
        if any(w is None for w in day_w) or len(set(day_w)) != 1:
            continue
        dep = inp.get('dep', 0.5334)
        routes = [('calculate_sunrise_sunset', lambda o: o.calculate_sunrise_sunset(month, day, dep, solar)),
                  ('calculate_sunrise_sunset_from_datetime',
                   lambda o: o.calculate_sunrise_sunset_from_datetime(DateTime(month, day, 12, 0, dleap), dep, solar))]
        ns = _ymin(leap)
        own = None
        for name, route in routes:
            try:
                base = route(sp0)       # the same call on the Sunpath without a period
            except Exception:
                continue
            fn = lambda: route(sp)
            try:
                rs = fn()
            except Exception as e:
                return {'required': '%s: %s answers as without the period (%s)' % (when, name, _show_rs(base)),
                        'observed': 'raises %s' % type(e).__name__, 'sig': dict(sig, what='riseset-raises', entry=name)}
            for key in ('sunrise', 'noon', 'sunset'):
                a, b = base[key], rs[key]
                ok = (a is None) == (b is None)
                if ok and a is not None:
                    try:
                        ma = _moy_of(leap, a.month, a.day, a.hour, a.minute)
                        mb = _moy_of(leap, b.month, b.day, b.hour, b.minute)
                    except ValueError:
                        continue
                    delta = (mb - ma - (60 if want else 0) + ns // 2) % ns - ns // 2
                    ok = abs(delta) <= 1
                if not ok:
                    return {'required': '%s: %s of the day %s the period = %s without the period %s'
                            % (when, key, 'inside' if want else 'outside', _show_odt(a),
                               'plus one hour' if want else 'unchanged'),
                            'observed': '%s: %s' % (name, _show_odt(b)),
                            'sig': dict(sig, what='riseset-' + key, entry=name)}
            if name == 'calculate_sunrise_sunset':
                own = rs
            elif dleap != leap and own is not None:
                # a noon DateTime of the other year kind names the same day: the answers are those of
                # (month, day) in the Sunpath's own calendar up to one day of solar motion, never a day off
                for key in ('sunrise', 'noon', 'sunset'):
                    a, b = own[key], rs[key]
                    if a is None or b is None:
                        continue
                    try:
                        ma = _moy_of(leap, a.month, a.day, a.hour, a.minute)
                        mb = _moy_of(leap, b.month, b.day, b.hour, b.minute)
                    except ValueError:
                        continue
                    delta = (mb - ma + ns // 2) % ns - ns // 2
                    if abs(delta) > 360 or (key == 'noon' and (b.month, b.day) != (month, day)):
                        return {'required': '%s: %s for a noon DateTime of the other year kind is the %s of %d/%d (%s)'
                                % (when, key, key, month, day, _show_odt(a)),
                                'observed': '%s: %s' % (name, _show_odt(b)),
                                'sig': dict(sig, what='other-calendar-day-' + key, entry=name)}
    return None


def _rs(inp, sp=None):
    c, p = _cfg_of(inp), _per_of(inp)
    sp = sp or _sunpath(c, p)
    return c, p, sp, sp.calculate_sunrise_sunset(inp['month'], inp['day'], inp['dep'], bool(inp.get('solar')))


def _offset_minutes(leap, day0, d):
    """Minutes of `d` after the midnight starting the day with first minute `day0`, for a date-time on the
    day before, the day itself or the day after (year cyclic); None for any other day."""
    n = _ymin(leap)
    m = _moy_of(leap, d.month, d.day, d.hour, d.minute)
    for off in (-1440, 0, 1440):
        lo = (day0 + off) % n
        if lo <= m < lo + 1440:
            return off + (m - lo)
    return None


def _check_riseset(inp, sp=None):
    """Order, calendar days, polar days, altitude at the reported sunrise/sunset, noon is the maximum."""
    leap = bool(inp.get('leap'))
    solar = bool(inp.get('solar'))
    dep = inp['dep']
    sig = {'solar': solar, 'dst': _kind(_per_of(inp)) != 'none'}
    try:
        c, p, sp, r = _rs(inp, sp)
    except Exception as e:
        return {'required': 'sunrise/noon/sunset of %d/%d' % (inp['month'], inp['day']),
                'observed': 'raises %s: %s' % (type(e).__name__, str(e)[:100]),
                'sig': dict(sig, what='exception', exception=type(e).__name__,
                            day='year-end' if (inp['month'], inp['day']) in ((1, 1), (12, 31)) else 'other')}
    lat, lon = c[0], c[1]
    etz = _eff_tz(lon, c[2])
    day0 = _moy_of(leap, inp['month'], inp['day'])
    noon_dst = _in_window(p, leap, day0 + 720)

    def std(off, d):
        """reported clock minutes -> standard minutes after the day's midnight (None: other side of a switch)"""
        m = _moy_of(leap, d.month, d.day, d.hour, d.minute)
        if _in_window(p, leap, m) != noon_dst:
            return None
        return off - 60 if noon_dst else off

    noon = r['noon']
    if (noon.month, noon.day) != (inp['month'], inp['day']):
        return {'required': 'noon on the day itself', 'observed': str(noon), 'sig': dict(sig, what='noon-day')}
    noon_off = noon.hour * 60 + noon.minute
    if (r['sunrise'] is None) != (r['sunset'] is None):
        return {'required': 'sunrise and sunset both reported or both None', 'observed': str(r),
                'sig': dict(sig, what='one-sided')}
    # the day's true altitudes, minute by minute in standard time (independent ephemeris)
    alts = None
    nstd = std(noon_off, noon)
    if nstd is not None:
        alts = [_true_alt(lat, lon, etz, leap, day0, m, solar)[0] for m in range(0, 1440, 2)]
        hi = max(alts)
        a_noon, dec_noon = _true_alt(lat, lon, etz, leap, day0, nstd, solar)
        decs = [_true_alt(lat, lon, etz, leap, day0, m, solar)[1] for m in (0, 1439)]
        drift = abs(decs[1] - decs[0])
        culm = 90.0 - abs(lat - dec_noon)
        # the upper culmination for the declination of that moment; over the day the altitude can exceed it
        # only by the drift of the declination (at the poles the altitude IS the declination)
        res = culm - _alt_from(lat, dec_noon, 0.25)      # what one minute of hour angle costs at the top
        ok = a_noon >= culm - 0.01 - res and a_noon >= hi - 0.01 - res - drift
        _SUB('noon is the highest sun of the day (true altitude within 0.01 deg + one minute of motion of the upper '
             'culmination 90 - |lat - dec|, and of the day\'s maximum up to the declination drift of the day)', ok)
        if not ok:
            return {'required': 'reported noon %s is the highest sun of the day (culmination %.4f, day maximum %.4f, '
                    'declination drift %.4f)' % (noon, culm, hi, drift),
                    'observed': 'true altitude at reported noon %.4f' % a_noon, 'sig': dict(sig, what='noon-not-max')}
        if abs(lat) <= 50.0:
            k = alts.index(hi) * 2
            fine = [(_true_alt(lat, lon, etz, leap, day0, m / 4.0, solar)[0], m / 4.0)
                    for m in range(max(0, (k - 3) * 4), min(1440, k + 3) * 4)]
            tmax = max(fine)[1]
            ok = abs(tmax - nstd) <= 2.0
            _SUB('reported noon within 2 minutes of the culmination (|lat| <= 50)', ok)
            if not ok:
                return {'required': 'noon within 2 min of the culmination at %.2f min (standard time)' % tmax,
                        'observed': 'reported noon %s = %d min' % (noon, nstd), 'sig': dict(sig, what='noon-time')}
    if r['sunrise'] is None:
        if alts is not None:
            lo, hi = min(alts) + dep, max(alts) + dep
            ok = not (lo < -0.3 and hi > 0.3)
            _SUB('no sunrise/sunset reported => the sun does not cross -depression that day (0.3 deg)', ok)
            if not ok:
                return {'required': 'a sunrise and a sunset (true altitude + depression ranges over [%.3f, %.3f])'
                        % (lo, hi), 'observed': 'only noon reported', 'sig': dict(sig, what='polar-but-crosses')}
        return None
    offs = {}
    for k in ('sunrise', 'sunset'):
        o = _offset_minutes(leap, day0, r[k])
        if o is None or (k == 'sunrise' and o >= 1440) or (k == 'sunset' and o < 0):
            return {'required': '%s on %d/%d or the day %s' % (k, inp['month'], inp['day'],
                                                              'before' if k == 'sunrise' else 'after'),
                    'observed': str(r[k]), 'sig': dict(sig, what=k + '-day',
                                                      day='year-end' if (inp['month'], inp['day']) in ((1, 1), (12, 31)) else 'other')}
        offs[k] = o
    if not (offs['sunrise'] <= noon_off <= offs['sunset']):
        return {'required': 'sunrise <= noon <= sunset', 'observed': '%s | %s | %s' % (r['sunrise'], noon, r['sunset']),
                'sig': dict(sig, what='order',
                            day='year-end' if (inp['month'], inp['day']) in ((1, 1), (12, 31)) else 'other')}
    if alts is not None:
        lo, hi = min(alts) + dep, max(alts) + dep
        ok = lo < 0.3 and hi > -0.3
        _SUB('sunrise/sunset reported => the sun reaches -depression that day (0.3 deg)', ok)
        if not ok:
            return {'required': 'only noon (true altitude + depression ranges over [%.3f, %.3f])' % (lo, hi),
                    'observed': str(r), 'sig': dict(sig, what='rise-but-no-crossing')}
    _, dec_ref = _true_alt(lat, lon, etz, leap, day0, 720 - (60 if noon_dst else 0), solar)
    for k in ('sunrise', 'sunset'):
        t = std(offs[k], r[k])
        if t is None:
            _COUNT('oracle:skipped_across_switch')
            continue
        g = []
        for dt in (-1.0, 0.0, 1.0):
            a, dec = _true_alt(lat, lon, etz, leap, day0, t + dt, solar)
            g.append(a + dep)
        slack = 0.04 + 1.1 * abs(dec - dec_ref)
        ok = min(g) - slack <= 0.0 <= max(g) + slack
        _SUB('true altitude at the reported %s = -depression within one minute of motion' % k, ok)
        if not ok:
            return {'required': 'true altitude -%.4f within one minute of %s %s (slack %.3f)' % (dep, k, r[k], slack),
                    'observed': 'true altitude %.4f (%.4f .. %.4f over +-1 min)' % (g[1] - dep, min(g) - dep, max(g) - dep),
                    'sig': dict(sig, what=k + '-altitude')}
    return None


def _check_riseset_dt(inp, sp=None):
    """calculate_sunrise_sunset_from_datetime(any time of the day) names the same day as (month, day)."""
    from ladybug.dt import DateTime
    c, p = _cfg_of(inp), _per_of(inp)
    sp = sp or _sunpath(c, p)
    a = sp.calculate_sunrise_sunset(inp['month'], inp['day'], inp['dep'], bool(inp.get('solar')))
    b = sp.calculate_sunrise_sunset_from_datetime(DateTime(inp['month'], inp['day'], 12, 0, c[4]), inp['dep'],
                                                  bool(inp.get('solar')))
    if a != b:
        return {'required': str(a), 'observed': str(b), 'sig': {'what': 'from_datetime-differs'}}
    if p is None:
        for hm in ((0, 0), (12, 0), (23, 59)):
            b = sp.calculate_sunrise_sunset_from_datetime(_native(inp['month'], inp['day'], hm[0], hm[1], c[4]), inp['dep'],
                                                          bool(inp.get('solar')))
            d = sp.calculate_sunrise_sunset_from_datetime(_dt(inp['month'], inp['day'], hm[0], hm[1], c[4]), inp['dep'],
                                                          bool(inp.get('solar')))
            if b != d:
                return {'required': 'a native datetime names the day like a DateTime: %s' % d, 'observed': str(b),
                        'sig': {'what': 'native-datetime'}}
    return None


def _sun_tuple(s):
    d = s.datetime
    return (d.month, d.day, d.hour, d.minute, s.altitude, s.azimuth, bool(s.is_daylight_saving), bool(s.is_solar_time))


def _check_analemma(inp, sp=None):
    """Every sun of an analemma is the sun the position calculation gives for its own date-time, at the
    requested time of day, in a requested month, on an existing day; no date twice; the 21st when one step."""
    from ladybug.dt import DateTime, Time
    c, p = _cfg_of(inp), _per_of(inp)
    sp = sp or _sunpath(c, p)
    solar, daytime = bool(inp.get('solar')), bool(inp.get('daytime_only'))
    hour, minute = inp['hour'], inp['minute']
    suns = sp.analemma_suns(Time(hour, minute), daytime, solar, inp['start'], inp['end'], inp['steps'])
    full = sp.analemma_suns(Time(hour, minute), False, solar, inp['start'], inp['end'], inp['steps'])
    sig = {'steps': 'one' if inp['steps'] == 1 else 'many', 'daytime_only': daytime}
    seen = set()
    for s in full:
        d = s.datetime
        if (d.hour, d.minute) != (hour, minute) or not (inp['start'] <= d.month <= inp['end']):
            return {'required': 'suns of %02d:%02d in months %d..%d' % (hour, minute, inp['start'], inp['end']),
                    'observed': str(d), 'sig': dict(sig, what='date')}
        if inp['steps'] == 1 and d.day != 21:
            return {'required': 'the 21st', 'observed': str(d), 'sig': dict(sig, what='not-21st')}
        if (d.month, d.day) in seen:
            return {'required': 'each date once', 'observed': str(d), 'sig': dict(sig, what='duplicate')}
        seen.add((d.month, d.day))
        again = sp.calculate_sun_from_date_time(DateTime(d.month, d.day, d.hour, d.minute, d.leap_year), solar)
        if _sun_tuple(again) != _sun_tuple(s):
            return {'required': 'the sun of %s: %r' % (d, _sun_tuple(again)), 'observed': _sun_tuple(s),
                    'sig': dict(sig, what='not-the-position')}
    if inp['steps'] == 1 and len(full) != max(0, inp['end'] - inp['start'] + 1):
        return {'required': '%d suns' % (inp['end'] - inp['start'] + 1), 'observed': len(full), 'sig': dict(sig, what='count')}
    want = [_sun_tuple(s) for s in full if s.is_during_day] if daytime else [_sun_tuple(s) for s in full]
    if [_sun_tuple(s) for s in suns] != want:
        return {'required': 'the daytime suns of the full analemma', 'observed': '%d of %d' % (len(suns), len(full)),
                'sig': dict(sig, what='daytime-filter')}
    if inp.get('hourly'):
        ll = sp.hourly_analemma_suns(daytime, solar, inp['start'], inp['end'], inp['steps'])
        if len(ll) != 24:
            return {'required': '24 analemmas', 'observed': len(ll), 'sig': dict(sig, what='hourly-count')}
        for hr, l in enumerate(ll):
            one = sp.analemma_suns(Time(hr, 0), daytime, solar, inp['start'], inp['end'], inp['steps'])
            if [_sun_tuple(s) for s in l] != [_sun_tuple(s) for s in one]:
                return {'required': 'hourly analemma %d = analemma_suns(Time(%d))' % (hr, hr), 'observed': 'differs',
                        'sig': dict(sig, what='hourly')}
        # consumer: the 3-D polylines go through the positions of exactly these suns
        full_h = sp.hourly_analemma_suns(False, solar, inp['start'], inp['end'], inp['steps'])
        if min(len(l) for l in full_h) < 3:
            return None             # a Polyline3D needs three vertices (limit of the geometry library)
        pls = sp.hourly_analemma_polyline3d(daytime_only=False, is_solar_time=solar, start_month=inp['start'],
                                            end_month=inp['end'], steps_per_month=inp['steps'])
        for hr, (pl, l) in enumerate(zip(pls, full_h)):
            want = [s.position_3d() for s in l]
            if inp['start'] == 1 and inp['end'] == 12:
                want.append(want[0])
            got = [(v.x, v.y, v.z) for v in pl.vertices]
            if got != [(v.x, v.y, v.z) for v in want]:
                return {'required': 'polyline %d through the %d suns of hourly analemma %d' % (hr, len(l), hr),
                        'observed': '%d vertices, first %r' % (len(got), got[:1]), 'sig': dict(sig, what='polyline3d')}
    return None


def _check_dayarc(inp, sp=None):
    """The day arc runs from the sun of the reported sunrise through the sun of the reported noon to the sun
    of the reported sunset (positions of calculate_sun_from_date_time)."""
    c, p = _cfg_of(inp), _per_of(inp)
    sp = sp or _sunpath(c, p)
    dep, dto = inp['dep'], bool(inp.get('daytime_only', True))
    r = sp.calculate_sunrise_sunset(inp['month'], inp['day'], dep)
    arc = sp.day_arc3d(inp['month'], inp['day'], depression=dep, daytime_only=dto)
    sig = {'polar': r['sunrise'] is None}
    noon = sp.calculate_sun_from_date_time(r['noon'])
    if r['sunrise'] is None:
        if dto and noon.altitude < 0:
            if arc is not None:
                return {'required': 'None (sun below the horizon all day)', 'observed': 'an arc', 'sig': dict(sig, what='night-arc')}
            return None
        pts = [sp.calculate_sun(inp['month'], inp['day'], 6), noon, sp.calculate_sun(inp['month'], inp['day'], 18)]
        kind = 'polar'
    else:
        pts = [sp.calculate_sun_from_date_time(r['sunrise']), noon, sp.calculate_sun_from_date_time(r['sunset'])]
        kind = 'arc'
    pp = []
    for s in pts:
        q = s.position_3d()
        pp.append((q.x, q.y, q.z))
    why = _arc_vs_points(arc, kind, pp)
    if why:
        return {'required': 'the %s through the suns of %s' % (kind, [str(s.datetime) for s in pts]), 'observed': why,
                'sig': dict(sig, what='arc')}
    return None


# ---------------------------------------------------------------------------------------------
# round 4 (kind g): the geometry consumers with EVERY argument off its default, against an oracle that does not
# share their code path (own projection formulas, own sun positions from sun_vector_reversed)


def _proj(pt, projection, radius, o):
    """Orthographic / stereographic projection of a 3-D point about the origin o = (ox, oy, oz) (textbook)."""
    x, y, z = pt
    if projection.lower() == 'orthographic':
        return (x, y)
    k = radius / (radius + (z - o[2]))
    return ((x - o[0]) * k + o[0], (y - o[1]) * k + o[1])


def _pos(sun, o, radius):
    r = sun.sun_vector_reversed
    return (r.x * radius + o[0], r.y * radius + o[1], r.z * radius + o[2])


def _close(a, b, tol):
    return len(a) == len(b) and all(abs(x - y) <= tol for x, y in zip(a, b))


def _v3(pl):
    return [(v.x, v.y, v.z) for v in pl.vertices]


def _v2(pl):
    return [(v.x, v.y) for v in pl.vertices]


def _check_geometry(inp, sp=None):
    """See `_check_geometry_body`; two limits of the geometry library are not judged (three coincident / colinear
    suns cannot define an arc, a polyline needs three vertices)."""
    try:
        return _check_geometry_body(inp, sp)
    except (ValueError, AssertionError) as e:
        if 'colinear' in str(e) or 'at least 3 vertices' in str(e):
            _COUNT('geometry:library_limit')
            return None
        return {'required': 'the geometry of %d/%d' % (inp['month'], inp['day']),
                'observed': 'raises %s: %s' % (type(e).__name__, str(e)[:120]),
                'sig': {'what': 'geometry-exception', 'exception': type(e).__name__}}


def _check_geometry_body(inp, sp=None):
    """day_arc3d / day_polyline2d / monthly_day_arc3d / monthly_day_polyline2d / hourly_analemma_polyline3d /
    hourly_analemma_polyline2d / Sun.position_3d / position_2d with origin, radius, divisions, depression,
    daytime_only, is_solar_time, months and steps all chosen by the caller: every one of them shows the suns the
    position calculation gives, scaled by the radius about the origin, projected as requested."""
    from ladybug_geometry.geometry3d.pointvector import Point3D
    from ladybug_geometry.geometry2d.pointvector import Point2D
    c, p = _cfg_of(inp), _per_of(inp)
    sp = sp or _sunpath(c, p)
    o3 = tuple(inp['origin'])
    o2 = (o3[0], o3[1], 0.0)            # the 2-D methods work in the plane z = 0
    radius, div, dep = inp['radius'], inp['divisions'], inp['dep']
    proj, dto, solar = inp['projection'], bool(inp['daytime_only']), bool(inp.get('solar'))
    month, day = inp['month'], inp['day']
    sm, em, steps = inp['start'], inp['end'], inp['steps']
    tol = 1e-7 * max(1.0, radius)
    sig = {'projection': proj.lower(), 'daytime_only': dto, 'solar': solar}
    P3, P2 = Point3D(*o3), Point2D(o3[0], o3[1])
    # -- one day: the arc about the origin goes through the suns of the reported times
    r = sp.calculate_sunrise_sunset(month, day, dep)
    arc = sp.day_arc3d(month, day, P3, radius, dto, dep)
    arck = sp.day_arc3d(month=month, day=day, depression=dep, daytime_only=dto, radius=radius, origin=P3)
    if _arc_digest(arc) != _arc_digest(arck):
        return {'required': 'day_arc3d: the same arc for positional and keyword arguments', 'observed': 'differ',
                'sig': dict(sig, what='arc-args')}
    noon = sp.calculate_sun_from_date_time(r['noon'])
    polar = r['sunrise'] is None
    _COUNT('branch:dayarc_' + ('polar' if polar else 'rise_set'))
    if polar and dto and noon.altitude < 0:
        _COUNT('branch:dayarc_night_none')
        if arc is not None:
            return {'required': 'no arc (the sun stays below the horizon)', 'observed': 'an arc', 'sig': dict(sig, what='night-arc')}
    else:
        if polar:
            suns = [sp.calculate_sun(month, day, 6), noon, sp.calculate_sun(month, day, 18)]
        else:
            suns = [sp.calculate_sun_from_date_time(r['sunrise']), noon, sp.calculate_sun_from_date_time(r['sunset'])]
        why = _arc_vs_points(arc, 'polar' if polar else 'arc', [_pos(x, o3, radius) for x in suns], radius)
        if why:
            return {'required': 'the day arc of %d/%d (depression %r) about %r with radius %r through the suns of %s'
                    % (month, day, dep, o3, radius, [str(x.datetime) for x in suns]), 'observed': why,
                    'sig': dict(sig, what='arc', polar=polar)}
        for x in suns:          # Sun.position_3d / position_2d are the producers of every vertex
            q = x.position_3d(P3, radius)
            if not _close((q.x, q.y, q.z), _pos(x, o3, radius), tol):
                return {'required': 'position_3d = origin + radius * sun_vector_reversed = %r' % (_pos(x, o3, radius),),
                        'observed': (q.x, q.y, q.z), 'sig': dict(sig, what='position_3d')}
            q = x.position_2d(proj, P2, radius)
            want = _proj(_pos(x, o2, radius), proj, radius, o2)
            if not _close((q.x, q.y), want, tol):
                return {'required': 'position_2d (%s) = %r' % (proj, want), 'observed': (q.x, q.y),
                        'sig': dict(sig, what='position_2d')}
    pl = sp.day_polyline2d(month, day, proj, P2, radius, dto, dep, div)
    arc0 = sp.day_arc3d(month, day, Point3D(*o2), radius, dto, dep)
    if (pl is None) != (arc0 is None):
        return {'required': 'day_polyline2d is None exactly when the day arc is', 'observed': repr(pl),
                'sig': dict(sig, what='polyline2d-none')}
    if pl is not None:
        want = [_proj(v, proj, radius, o2) for v in _v3(arc0.to_polyline(div, interpolated=True))]
        got = _v2(pl)
        if len(got) != len(want) or any(not _close(a, b, tol) for a, b in zip(got, want)):
            return {'required': 'day_polyline2d %d/%d: the %s projection of the day arc (depression %r, daytime_only %r, '
                    'radius %r) in %d divisions: %r ...' % (month, day, proj, dep, dto, radius, div, want[:2]),
                    'observed': '%d vertices %r ...' % (len(got), got[:2]), 'sig': dict(sig, what='polyline2d')}
    # -- the 21st of every month
    arcs = sp.monthly_day_arc3d(P3, radius, dto, dep)
    want = [a for a in (sp.day_arc3d(m, 21, P3, radius, dto, dep) for m in range(1, 13)) if a is not None]
    if [_arc_digest(a) for a in arcs] != [_arc_digest(a) for a in want]:
        return {'required': 'monthly_day_arc3d = the day arcs of the 21st of the 12 months (%d arcs)' % len(want),
                'observed': '%d arcs' % len(arcs), 'sig': dict(sig, what='monthly3d')}
    pls = sp.monthly_day_polyline2d(proj, P2, radius, dto, dep, div)
    want = [x for x in (sp.day_polyline2d(m, 21, proj, P2, radius, dto, dep, div) for m in range(1, 13)) if x is not None]
    if [_v2(x) for x in pls] != [_v2(x) for x in want]:
        return {'required': 'monthly_day_polyline2d = the day polylines of the 21st of the 12 months (%d)' % len(want),
                'observed': '%d polylines' % len(pls), 'sig': dict(sig, what='monthly2d')}
    # -- hourly analemmas
    full = sp.hourly_analemma_suns(False, solar, sm, em, steps)
    if min(len(l) for l in full) >= 3:
        closed = sm == 1 and em == 12
        _COUNT('branch:hpoly_' + ('closed' if closed else 'open'))
        pls = sp.hourly_analemma_polyline3d(P3, radius, False, solar, sm, em, steps)
        want = [[_pos(x, o3, radius) for x in l] for l in full]
        if closed:
            want = [w + w[:1] for w in want]
        got = [_v3(x) for x in pls]
        if len(got) != 24 or any(len(a) != len(b) or any(not _close(u, v, tol) for u, v in zip(a, b))
                                 for a, b in zip(got, want)):
            return {'required': '24 polylines through the suns of hourly_analemma_suns(False, %r, %d, %d, %d) about %r '
                    'radius %r' % (solar, sm, em, steps, o3, radius), 'observed': '%d polylines, first %r'
                    % (len(got), got[0][:1] if got else None), 'sig': dict(sig, what='hpoly3d')}
        day = sp.hourly_analemma_polyline3d(P3, radius, True, solar, sm, em, steps)
        verts = [v for x in day for v in _v3(x)]
        sun_pts = set(tuple(round(t / tol) for t in q) for w in want for q in w)

        def is_sun(v):
            k = [round(t / tol) for t in v]
            return any((k[0] + a, k[1] + b, k[2] + cc) in sun_pts for a in (-1, 0, 1) for b in (-1, 0, 1) for cc in (-1, 0, 1))

        for v in verts:
            on_plane = abs(v[2] - o3[2]) <= tol
            if v[2] < o3[2] - tol or not (on_plane or is_sun(v)):
                return {'required': 'daytime analemma vertices are suns above the plane z = %r or points on it' % o3[2],
                        'observed': v, 'sig': dict(sig, what='hpoly3d-day')}
        for hr, w in enumerate(want):
            zs = [q[2] - o3[2] for q in w]
            _COUNT('branch:hpoly_day_' + ('above' if min(zs) > 0 else 'below' if max(zs) < 0 else 'split'))
        for dt_only in (dto,):
            p2 = sp.hourly_analemma_polyline2d(proj, P2, radius, dt_only, solar, sm, em, steps)
            p3 = sp.hourly_analemma_polyline3d(Point3D(*o2), radius, dt_only, solar, sm, em, steps)
            want2 = [[_proj(v, proj, radius, o2) for v in _v3(x)] for x in p3]
            got2 = [_v2(x) for x in p2]
            if len(got2) != len(want2) or any(len(a) != len(b) or any(not _close(u, v, tol) for u, v in zip(a, b))
                                               for a, b in zip(got2, want2)):
                return {'required': 'hourly_analemma_polyline2d(%s, daytime_only=%r, is_solar_time=%r, %d..%d, %d steps) = '
                        'the projection of hourly_analemma_polyline3d with the same arguments (%d polylines)'
                        % (proj, dt_only, solar, sm, em, steps, len(want2)),
                        'observed': '%d polylines, first %r' % (len(got2), got2[0][:1] if got2 else None),
                        'sig': dict(sig, what='hpoly2d')}
    return None


# ---------------------------------------------------------------------------------------------
# round 4 (kind f): results are the caller's own.  Editing a returned container, asking another question, asking
# a second Sunpath, attaching data to a returned Sun: none of it may change an earlier or a later answer.

_TOKEN = [0]


def _scramble(x):
    """Edit a returned container in place (dictionary, list, list of lists)."""
    _TOKEN[0] += 1
    if isinstance(x, dict):
        for k in list(x):
            x[k] = ('edited', _TOKEN[0])
        x['extra'] = _TOKEN[0]
    elif isinstance(x, list):
        for e in x:
            if isinstance(e, list):
                _scramble(e)
            elif hasattr(e, 'data'):
                try:
                    e.data = {'edited': _TOKEN[0]}
                except Exception:
                    pass
        x.reverse()
        x.append(('edited', _TOKEN[0]))
        if len(x) > 2:
            del x[0]


def _show_any(x):
    if isinstance(x, dict):
        return 'dict ' + ' '.join('%s=%s' % (k, _show_odt(x[k]) if x[k] is None or hasattr(x[k], 'month') else repr(x[k]))
                                  for k in sorted(x))
    if isinstance(x, list):
        return '[' + ', '.join(_show_any(e) for e in x) + ']'
    if hasattr(x, 'sun_vector_reversed'):
        return _show_sun(x) + ' data=%r' % (x.data,)
    if hasattr(x, 'p1') and hasattr(x, 'c'):
        return _arc_digest(x)
    if hasattr(x, 'vertices'):
        return repr([tuple(v.to_array()) for v in x.vertices])
    return repr(x)


def _check_alias(inp):
    from ladybug.dt import Time
    c, p = _cfg_of(inp), _per_of(inp)
    sp = _sunpath(c, p)
    c2 = (-c[0] * 0.5 + 3.0, c[1], c[2], 30.0, c[4])
    other = _sunpath(c2, None if p is not None else (3, 8, 2, 11, 1, 2, c2[4]))
    month, day, dep = inp['month'], inp['day'], inp['dep']
    m2, d2, dep2 = (month % 12) + 1, min(day, 28), (6.0 if dep != 6.0 else 0.5334)
    solar, daytime = bool(inp.get('solar')), bool(inp.get('daytime_only'))
    sm, em, steps, hour, minute = inp['start'], inp['end'], inp['steps'], inp['hour'], inp['minute']
    calls = [
        ('calculate_sunrise_sunset', lambda o, v: o.calculate_sunrise_sunset(m2 if v else month, d2 if v else day,
                                                                           dep2 if v else dep, solar)),
        ('analemma_suns', lambda o, v: o.analemma_suns(Time((hour + 5) % 24 if v else hour, minute), daytime, solar,
                                                       sm, em, steps)),
        ('hourly_analemma_suns', lambda o, v: o.hourly_analemma_suns(daytime, not solar if v else solar, sm, em, steps)),
        ('monthly_day_arc3d', lambda o, v: o.monthly_day_arc3d(depression=dep2 if v else dep, daytime_only=not daytime)),
        ('hourly_analemma_polyline3d', lambda o, v: o.hourly_analemma_polyline3d(
            daytime_only=daytime, is_solar_time=solar, start_month=1, end_month=12 if not v else 6)),
        ('monthly_day_polyline2d', lambda o, v: o.monthly_day_polyline2d('Stereographic' if v else 'Orthographic',
                                                                         depression=dep)),
    ]
    for name, call, in calls:
        sig = {'what': 'aliasing', 'call': name}
        try:
            a = call(sp, False)
            sa = _show_any(a)
            b = call(sp, True)          # another question to the same object
            x = call(other, False)      # the same question to a second object
            sb = _show_any(b)
            _scramble(x)
            if _show_any(a) != sa or _show_any(b) != sb:
                return {'required': '%s: a result is not changed by editing the result of a second Sunpath: %s'
                        % (name, sa[:200]), 'observed': _show_any(a)[:200], 'sig': dict(sig, how='other-object')}
            _scramble(b)
            if _show_any(a) != sa:
                return {'required': '%s: a result is not changed by editing the result of a later call: %s'
                        % (name, sa[:200]), 'observed': _show_any(a)[:200], 'sig': dict(sig, how='later-result')}
            _scramble(a)
            a2, b2 = call(sp, False), call(sp, True)
            if _show_any(a2) != sa or _show_any(b2) != sb:
                return {'required': '%s: the same question has the same answer after the caller edited earlier '
                        'results in place: %s' % (name, sa[:200]),
                        'observed': (_show_any(a2) if _show_any(a2) != sa else _show_any(b2))[:200],
                        'sig': dict(sig, how='edited-result')}
        except (ValueError, AssertionError) as e:
            if 'colinear' in str(e) or 'at least 3 vertices' in str(e):
                continue
            return {'required': name + ' answers', 'observed': 'raises %s: %s' % (type(e).__name__, str(e)[:100]),
                    'sig': dict(sig, how='exception')}
    # a Sun is the caller's own as well
    s1 = sp.calculate_sun(month, day, hour, solar)
    t1 = _sun_tuple(s1)
    s1.data = {'note': _TOKEN[0]}
    s2 = sp.calculate_sun(month, day, hour, solar)
    if s2.data is not None or _sun_tuple(s2) != t1 or _sun_tuple(s1) != t1:
        return {'required': 'a new Sun without data, equal to the first: %r' % (t1,), 'observed': (_sun_tuple(s2), s2.data),
                'sig': {'what': 'aliasing', 'call': 'calculate_sun', 'how': 'sun-data'}}
    return None


# ---------------------------------------------------------------------------------------------
# histories on ONE Sunpath object (round 3)
#
# A history is {'init': {lat, lon, tz, north, leap, period}, 'ops': [[name, args...], ...]} (JSON-able).  It is
# executed on one real Sunpath; every answer is compared (correspondence) with the `hist` op of the model
# driver = SunpathObj.run of Model/SunpathObj.lean, and (oracle) with the answer of a FRESH Sunpath built from the
# public state the user has established so far (the values of the accepted setters), plus, for `check` ops, with
# the independent oracles above evaluated on the used object itself.

SETTERS = ('slat', 'slon', 'snorth', 'stz', 'sleap', 'sper')
UNMODELLED = ('poly2d', 'monthly2d', 'monthly3d', 'hpoly3d', 'hpoly2d')
_BAD_ARG = {'bad:value': 'abc', 'bad:type': None}
RANGES = {'slat': (-90.0, 90.0), 'slon': (-180.0, 180.0), 'snorth': (-360.0, 360.0), 'stz': (-12.0, 14.0)}


VSHAPES = ('str', 'exp', 'pad', 'int', 'frac', 'dec', 'float')


def _shape(v, shape):
    """The number v as text / another numeric type that `float()` turns back into exactly v (kind i)."""
    v = float(v)
    if shape == 'str':
        return repr(v)
    if shape == 'exp':
        return '%.17e' % v
    if shape == 'pad':
        return '  %r\t\n' % v
    if shape == 'int' and v == int(v):
        return int(v)
    if shape == 'frac':
        from fractions import Fraction
        return Fraction(v)
    if shape == 'dec':
        from decimal import Decimal
        return Decimal(repr(v))
    return v


def _num_tok(v):
    return v if isinstance(v, str) else _fbits(v)


def _op_toks(op):
    k = op[0]
    if k in ('slat', 'slon', 'snorth'):
        return '%s %s' % (k, _num_tok(op[1]))
    if k == 'stz':
        return 'stz ' + ('none' if op[1] is None else _num_tok(op[1]))
    if k == 'sleap':
        return 'sleap ' + _b(op[1])
    if k == 'sper':
        return 'sper ' + ('bad' if op[1] == 'bad' else _per_toks(op[1]))
    if k == 'dst':
        return 'dst %s %d %d %d %d' % (_b(op[1]), op[2], op[3], op[4], op[5])
    if k == 'sun':
        return 'sun %s %s %d %d %d %d' % (_b(op[1]), _b(op[2]), op[3], op[4], op[5], op[6])
    if k == 'csun':
        return 'csun %s %d %d %s' % (_b(op[1]), op[2], op[3], _fbits(op[4]))
    if k in ('smoy', 'shoy'):
        return '%s %s %d' % (k, _b(op[1]), op[2])
    if k == 'riseset':
        return 'riseset %s %s %s %d %d %d %d' % (_b(op[1]), _fbits(op[2]), _b(op[3]), op[4], op[5], op[6], op[7])
    if k == 'risesetmd':
        return 'risesetmd %s %s %d %d' % (_b(op[1]), _fbits(op[2]), op[3], op[4])
    if k == 'analemma':
        return 'analemma %s %s %d %d %d %d %d' % (_b(op[1]), _b(op[2]), op[3], op[4], op[5], op[6], op[7])
    if k == 'hourly':
        return 'hourly %s %s %d %d %d' % (_b(op[1]), _b(op[2]), op[3], op[4], op[5])
    if k == 'dayarc':
        return 'dayarc %s %s %d %d' % (_fbits(op[1]), _b(op[2]), op[3], op[4])
    return 'nop'


def _hist_line(h):
    i = h['init']
    p = None if i.get('period') is None else tuple(i['period'])
    head = 'hist %s %s %s %s %s %s' % (_fbits(i['lat']), _fbits(i['lon']), _tz_tok(i['tz']), _fbits(i['north']),
                                     _b(i['leap']), _per_toks(p))
    return head + ''.join(' ; ' + _op_toks(op) for op in h['ops'] if op[0] != 'check')


def _pl2(pl):
    return 'none' if pl is None else repr([(v.x, v.y) for v in pl.vertices])


def _arc_digest(arc):
    if arc is None:
        return 'none'
    return repr((arc.p1.x, arc.p1.y, arc.p1.z, arc.p2.x, arc.p2.y, arc.p2.z, arc.c.x, arc.c.y, arc.c.z, arc.radius,
                 arc.is_circle))


def _apply(sp, op):
    """One operation on a real Sunpath: the answer in the model's text format, ('arc', Arc3D | None) for a day
    arc, ('raw', text) for the reads the model does not describe, 'err:<class>' when it raises."""
    from ladybug.dt import DateTime, Time
    k = op[0]
    try:
        if k in ('slat', 'slon', 'snorth', 'stz'):
            v = _BAD_ARG[op[1]] if isinstance(op[1], str) else op[1]
            if k == 'stz' and isinstance(op[1], str):
                v = 'abc' if op[1] == 'bad:value' else [1]
            if len(op) > 2 and v is not None and not isinstance(op[1], str):
                v = _shape(v, op[2])
            setattr(sp, {'slat': 'latitude', 'slon': 'longitude', 'snorth': 'north_angle', 'stz': 'time_zone'}[k], v)
            return 'ok'
        if k == 'sleap':
            sp.is_leap_year = op[1]
            return 'ok'
        if k == 'sper':
            sp.daylight_saving_period = (3, 8, 2, 11, 1, 2) if op[1] == 'bad' else _period(op[1])
            return 'ok'
        if k == 'dst':
            return 'ok ' + _b(sp.is_daylight_saving_hour(_dt(op[2], op[3], op[4], op[5], op[1])))
        if k == 'sun':
            mk = _native if (len(op) > 7 and sp.daylight_saving_period is None) else _dt
            return 'ok ' + _show_sun(sp.calculate_sun_from_date_time(mk(op[3], op[4], op[5], op[6], op[2]), op[1]))
        if k == 'csun':
            return 'ok ' + _show_sun(sp.calculate_sun(op[2], op[3], op[4], op[1]))
        if k == 'smoy':
            return 'ok ' + _show_sun(sp.calculate_sun_from_moy(op[2], op[1]))
        if k == 'shoy':
            return 'ok ' + _show_sun(sp.calculate_sun_from_hoy(op[2], op[1]))
        if k == 'riseset':
            mk = _native if (len(op) > 8 and sp.daylight_saving_period is None) else _dt
            return _show_rs(sp.calculate_sunrise_sunset_from_datetime(
                mk(op[4], op[5], op[6], op[7], op[3]), op[2], op[1]))
        if k == 'risesetmd':
            return _show_rs(sp.calculate_sunrise_sunset(op[3], op[4], op[2], op[1]))
        if k == 'analemma':
            suns = sp.analemma_suns(Time(op[6], op[7]), op[2], op[1], op[3], op[4], op[5])
            return 'ok %d %s' % (len(suns), ' '.join(_show_sun(x) for x in suns))
        if k == 'hourly':
            ll = sp.hourly_analemma_suns(op[2], op[1], op[3], op[4], op[5])
            return ' '.join(('ok %d %s' % (len(ll), ' '.join('%d %s' % (len(l), ' '.join(_show_sun(x) for x in l))
                                                            for l in ll))).split())
        if k == 'dayarc':
            return ('arc', sp.day_arc3d(op[3], op[4], depression=op[1], daytime_only=op[2]))
        if k == 'poly2d':
            return ('raw', _pl2(sp.day_polyline2d(op[1], op[2], op[3], depression=op[4])))
        if k == 'monthly2d':
            return ('raw', ' '.join(_pl2(x) for x in sp.monthly_day_polyline2d(op[1], depression=op[2])))
        if k == 'monthly3d':
            return ('raw', ' '.join(_arc_digest(a) for a in sp.monthly_day_arc3d(depression=op[1], daytime_only=op[2])))
        if k == 'hpoly3d':
            pls = sp.hourly_analemma_polyline3d(daytime_only=op[1], is_solar_time=op[2], start_month=op[3],
                                                end_month=op[4], steps_per_month=op[5])
            return ('raw', repr([[(v.x, v.y, v.z) for v in pl.vertices] for pl in pls]))
        if k == 'hpoly2d':
            pls = sp.hourly_analemma_polyline2d(op[1], start_month=op[2], end_month=op[3])
            return ('raw', ' '.join(_pl2(x) for x in pls))
    except Exception as e:
        return 'err:' + err_name(e)
    raise ValueError('unknown history op %r' % (op,))


def _digest(out):
    if isinstance(out, tuple):
        return out[0] + ':' + (_arc_digest(out[1]) if out[0] == 'arc' else out[1])
    return out


def _est_of(init):
    e = dict(init)
    e['tz'] = math.degrees(math.radians(init['lon'])) / 15 if init['tz'] is None else float(init['tz'])
    e['period'] = None if init.get('period') is None else list(init['period'])
    return e


def _est_update(est, op):
    k = op[0]
    if k == 'stz':
        est['tz'] = math.degrees(math.radians(est['lon'])) / 15 if op[1] is None else float(op[1])
    elif k == 'sper':
        est['period'] = None if op[1] is None else list(op[1])
    else:
        est[{'slat': 'lat', 'slon': 'lon', 'snorth': 'north', 'sleap': 'leap'}[k]] = \
            bool(op[1]) if k == 'sleap' else float(op[1])


def _build(est, sform='ctor'):
    sp = _make_sunpath(est['lat'], est['lon'], est['tz'], est['north'], _period(est['period']), sform)
    sp.is_leap_year = est['leap']
    return sp


def _getters(sp):
    p = sp.daylight_saving_period
    return (sp.latitude, sp.longitude, sp.time_zone, sp.north_angle, sp.is_leap_year,
            None if p is None else (p.st_month, p.st_day, p.st_hour, p.end_month, p.end_day, p.end_hour, p.is_leap_year))


def _refusal_kind(op):
    k = op[0]
    if k in RANGES and not isinstance(op[1], str) and op[1] is not None:
        lo, hi = RANGES[k]
        if not (lo <= op[1] <= hi):
            return 'refused-range:' + k
    return 'refused:' + k


def _hist_outs(h):
    """The answers of the real object, one per op that is not a `check`."""
    sp = _build(_est_of(h['init']), h['init'].get('sform', 'ctor'))
    return [_apply(sp, op) for op in h['ops'] if op[0] != 'check']


def _in_domain(est):
    return abs(est['tz'] - est['lon'] / 15.0) <= 2.0


def _history_check(sp, est, op):
    """['check', name, params]: the independent oracle `name` on the used object."""
    name, params = op[1], op[2]
    p = est['period']
    if p is not None and bool(p[6]) != bool(est['leap']):
        # the two calendars differ: the statement fixes the answer further than a day from the ends (round 6)
        if name not in ('dst_window', 'dst_shift'):
            return 'skipped'
        inp = {'lat': est['lat'], 'lon': est['lon'], 'tz': est['tz'], 'north': est['north'], 'leap': est['leap'],
               'pleap': bool(p[6]), 'dleap': est['leap'], 'period': list(p[:6]), 'solar': bool(params.get('solar')),
               'times': _mixed_times_from_moys(est['leap'], params['moys'][:60] if name == 'dst_window'
                                               else params['moys'])}
        if len(p) > 7:
            inp['pform'] = p[7]
        return _check_dst_mixed(inp, sp=sp)
    if name in ('riseset', 'dayarc', 'geometry') and not _in_domain(est):
        return 'skipped'
    inp = dict(params, lat=est['lat'], lon=est['lon'], tz=est['tz'], north=est['north'], leap=est['leap'])
    if p is not None:
        inp['period'] = list(p[:6])
        if len(p) > 7:
            inp['pform'] = p[7]
    return CHECKS[name](inp, sp=sp)


def _named_datetime(op, est):
    """The (month, day[, hour, minute]) a read is about, when its answer repeats it (sun: its date-time;
    sunrise/sunset: the day of noon)."""
    k = op[0]
    if k == 'sun':
        return (op[3], op[4], op[5], op[6])
    if k == 'csun' and op[4] == int(op[4]) and 0 <= op[4] < 24:
        return (op[2], op[3], int(op[4]), 0)
    if k in ('smoy', 'shoy'):
        m = op[2] * (60 if k == 'shoy' else 1)
        if 0 <= m < _ymin(est['leap']):
            r = _ref(est['leap'], m)
            return (r.month, r.day, r.hour, r.minute)
    if k == 'risesetmd':
        return (op[3], op[4])
    return None


def _check_history(inp):
    """Every answer of a used object equals the answer of a fresh object built from the established public
    state; getters show that state; refused operations change nothing; the independent oracles hold on the
    used object."""
    est = _est_of(inp['init'])
    try:
        sp = _build(est, inp['init'].get('sform', 'ctor'))
    except Exception as e:
        return {'required': 'Sunpath(%r)' % (inp['init'],), 'observed': 'raises %s' % type(e).__name__,
                'sig': {'what': 'construct'}}
    last = 'construct'
    done = []
    for i, op in enumerate(inp['ops']):
        k = op[0]
        where = 'step %d %r after %s' % (i, op, last)
        if k == 'check':
            res = _history_check(sp, est, op)
            if res == 'skipped':
                _COUNT('history:check_skipped')
                continue
            _COUNT('history:check:' + op[1])
            if res:
                return {'required': '%s: on this used object, %s' % (where, res['required']),
                        'observed': res['observed'],
                        'sig': dict(res.get('sig') or {}, what='oracle-on-used-object', checked=op[1], after=last)}
            continue
        out = _apply(sp, op)
        if k in SETTERS:
            if out == 'ok':
                _est_update(est, op)
                last = k
            else:
                last = _refusal_kind(op)
                lo, hi = RANGES.get(k, (None, None))
                if k in ('sleap',) or (k == 'sper' and op[1] != 'bad') or \
                        (lo is not None and op[1] is not None and not isinstance(op[1], str) and lo <= op[1] <= hi) or \
                        (k == 'stz' and op[1] is None):
                    return {'required': '%s: a value in the documented range is accepted' % where, 'observed': out,
                            'sig': {'what': 'valid-set-refused', 'setter': k}}
            nxt = inp['ops'][i + 1] if i + 1 < len(inp['ops']) else None
            if last.startswith('refused-range:') and nxt is not None and nxt[0] == k and \
                    not _refusal_kind(nxt).startswith('refused-range:') and not isinstance(nxt[1], str):
                continue        # the user re-establishes the attribute at once (see the known finding)
            try:
                want = _getters(_build(est))
            except Exception:
                continue
            got = _getters(sp)
            if got != want:
                return {'required': '%s: the public attributes are those of the established state %r' % (where, want),
                        'observed': got, 'sig': {'what': 'attributes', 'after': last}}
            continue
        try:
            tw = _build(est)
        except Exception:
            continue
        ref = _apply(tw, op)
        if _digest(out) != _digest(ref):
            return {'required': '%s: the answer of a fresh Sunpath with the same public state: %s'
                    % (where, _digest(ref)[:300]), 'observed': _digest(out)[:300],
                    'sig': {'what': 'differs-from-fresh', 'after': last, 'read': k}}
        named = _named_datetime(op, est)
        if named is not None and isinstance(out, str) and out.startswith('ok '):
            got = out.split()[2 if k == 'risesetmd' else 1].split('/')
            if tuple(int(x) for x in got[:len(named)]) != named:
                return {'required': '%s: the answer is about the requested date-time %r' % (where, named),
                        'observed': out[:120], 'sig': {'what': 'other-datetime', 'read': k}}
        if isinstance(out, str) and out.startswith('err:'):
            last = 'refused:' + k
            got, want = _getters(sp), _getters(tw)
            if got != want:
                return {'required': '%s: a refused call leaves the public attributes %r' % (where, want),
                        'observed': got, 'sig': {'what': 'attributes', 'after': last}}
    return None


# ---- history generator (stdlib only)

BAD_DATES = [(2, 30), (2, 31), (4, 31), (13, 1), (6, 0), (0, 5), (11, 31)]
OUT_OF_RANGE = {'slat': [90.0001, -90.5, 100.0, -1e9], 'slon': [180.0001, -180.5, 360.0],
                'snorth': [360.0001, -400.0, 720.0], 'stz': [14.0001, -12.5, 15.0, 24.0]}


def _hot_moys(est, hot, leap):
    out = list(hot)
    p = est['period']
    if p is not None:
        for (m, d, hh) in ((p[0], p[1], p[2]), (p[3], p[4], p[5])):
            try:
                out.append(_moy_of(leap, m, d, hh))
            except ValueError:
                pass
    return out


def _gen_time(rng, est, hot, leap):
    """A minute of the year: near the ends of any period this history has seen (+- a minute, an hour, half a
    day, a day), the year ends, the leap day, or anywhere."""
    n = _ymin(leap)
    hm = _hot_moys(est, hot, leap)
    r = rng.random()
    if hm and r < 0.6:
        b = rng.choice(hm)
        if rng.random() < 0.5:
            off = rng.choice([-1441, -1440, -1439, -720, -61, -60, -59, -1, 0, 1, 59, 60, 61, 720, 1439, 1440, 1441])
        else:
            off = rng.randrange(-1500, 1501)
        return (b + off) % n
    if r < 0.75:
        return rng.choice([0, 1, 59, 60, 61, n - 1, n - 60, n - 61, 58 * 1440 + 720, 59 * 1440, 59 * 1440 + 720,
                           60 * 1440, 60 * 1440 + 720]) % n
    if r < 0.85:
        return rng.randrange(_ydays(leap)) * 1440 + rng.choice([0, 0, 1, 30, 59, 60, 720])
    return rng.randrange(n)


def _gen_read(rng, est, hot):
    """A question for the object in its present state (always well-formed arguments)."""
    leap = est['leap']
    dl = leap if rng.random() < 0.9 else not leap
    t = _ref(dl, _gen_time(rng, est, hot, dl))
    solar = rng.random() < 0.2
    dep = rng.choice(DEPS + [0]) if rng.random() < 0.85 else rng.uniform(0.0, 18.0)
    r = rng.random()
    if r < 0.16:
        return ['dst', dl, t.month, t.day, t.hour, t.minute]
    if r < 0.34:
        return ['sun', solar, dl, t.month, t.day, t.hour, t.minute] + (['native'] if rng.random() < 0.3 else [])
    if r < 0.44:
        tt = _ref(leap, _gen_time(rng, est, hot, leap))
        rr = rng.random()
        hr = float(tt.hour) if rr < 0.5 else tt.hour + tt.minute / 60.0 if rr < 0.8 else \
            tt.hour + (tt.minute + rng.choice([0.5, 0.49, 0.51, 1e-9, -1e-9, 0.999999])) / 60.0
        return ['csun', solar, tt.month, tt.day, tt.hour if rr < 0.1 else hr]
    if r < 0.50:
        return ['smoy', solar, _gen_time(rng, est, hot, leap)]
    if r < 0.55:
        return ['shoy', solar, _gen_time(rng, est, hot, leap) // 60]
    if r < 0.63:
        return ['riseset', solar, dep, dl, t.month, t.day, t.hour, t.minute] + (['native'] if rng.random() < 0.3 else [])
    if r < 0.78:
        tt = _ref(leap, _gen_time(rng, est, hot, leap))
        md = (tt.month, tt.day) if rng.random() < 0.6 else _rand_day(rng, leap)
        return ['risesetmd', solar, dep, md[0], md[1]]
    if r < 0.86:
        sm = rng.choice([1, 1, 3, rng.randrange(1, 13)])
        em = rng.choice([12, sm, min(12, sm + 2), rng.randrange(1, 13)])
        return ['analemma', solar, rng.random() < 0.3, sm, em, rng.choice([1, 1, 2, 3, 4, 7, 15, 28, 31]),
                rng.choice([0, 2, 12, t.hour]), rng.choice([0, 0, 30, t.minute])]
    if r < 0.88:
        sm = rng.randrange(1, 12)
        return ['hourly', solar, rng.random() < 0.3, sm, min(12, sm + rng.choice([0, 1])), rng.choice([1, 2])]
    if r < 0.95:
        tt = _ref(leap, _gen_time(rng, est, hot, leap))
        return ['dayarc', dep, rng.random() < 0.6, tt.month, tt.day]
    rr = rng.random()
    if rr < 0.4:
        tt = _ref(leap, _gen_time(rng, est, hot, leap))
        return ['poly2d', tt.month, tt.day, rng.choice(['Orthographic', 'Stereographic']), dep]
    if rr < 0.55:
        return ['monthly2d', rng.choice(['Orthographic', 'Stereographic']), dep]
    if rr < 0.75:
        return ['monthly3d', dep, rng.random() < 0.6]
    if rr < 0.9:
        sm = rng.randrange(1, 11)
        return ['hpoly3d', rng.random() < 0.5, solar, sm, sm + 2, 1]
    sm = rng.randrange(1, 11)
    return ['hpoly2d', rng.choice(['Orthographic', 'Stereographic']), sm, sm + 2]


def _variant(rng, op):
    """The same question with one argument changed (same date, other depression / flag / hour)."""
    op = list(op)
    k = op[0]
    if k in ('sun', 'csun', 'smoy', 'shoy', 'riseset', 'risesetmd', 'analemma', 'hourly') and rng.random() < 0.4:
        op[1] = not op[1]
    elif k in ('riseset', 'risesetmd'):
        op[2] = rng.choice([d for d in DEPS if d != op[2]])
    elif k == 'dayarc':
        if rng.random() < 0.5:
            op[1] = rng.choice([d for d in DEPS if d != op[1]])
        else:
            op[2] = not op[2]
    elif k == 'sun':
        op[5] = (op[5] + rng.choice([1, 12, 23])) % 24
    elif k == 'dst':
        op[4] = (op[4] + rng.choice([1, 12, 23])) % 24
    elif k == 'csun':
        op[4] = float((int(op[4]) + rng.choice([1, 12])) % 24)
    elif k == 'analemma':
        op[6] = (op[6] + rng.choice([1, 6, 12])) % 24
    return op


def _gen_refused_read(rng, est):
    leap = est['leap']
    bad = list(BAD_DATES) + ([] if leap else [(2, 29)])
    md = rng.choice(bad)
    dep = rng.choice(DEPS)
    r = rng.random()
    if r < 0.2:
        return ['csun', False, md[0], md[1], 12.0]
    if r < 0.3:
        return ['csun', rng.random() < 0.3, 6, 21, rng.choice([24.0, -1.0, 25.5, -0.5])]
    if r < 0.45:
        return ['risesetmd', rng.random() < 0.2, dep, md[0], md[1]]
    if r < 0.62:
        return ['dayarc', dep, rng.random() < 0.6, md[0], md[1]]
    if r < 0.7:
        return ['smoy', False, rng.choice([-5000, -1441, _ymin(leap) + 5, 10 ** 7])]
    if r < 0.82:        # fails half-way: some months are computed before the month that does not exist / bad step
        return rng.choice([['analemma', False, False, 10, 13, 1, 12, 0], ['analemma', False, True, 1, 12, 0, 12, 0],
                           ['analemma', True, False, 1, 12, 40, 9, 30], ['hourly', False, False, 11, 13, 1],
                           ['hourly', False, True, 1, 2, 0]])
    if r < 0.9:         # fails at the very end (projection name is looked at after all suns are computed)
        return rng.choice([['poly2d', 6, 21, 'Mercator', dep], ['monthly2d', 'Mercator', dep],
                           ['hpoly2d', 'Mercator', 3, 4]])
    return ['poly2d', md[0], md[1], 'Orthographic', dep]


def _gen_setter(rng, est):
    leap = est['leap']
    r = rng.random()
    if r < 0.28:
        return [['sleap', not leap]] if rng.random() < 0.85 else [['sleap', leap]]
    if r < 0.56:
        if rng.random() < 0.15:
            return [['sper', None]]
        pl = leap if rng.random() < 0.85 else not leap
        return [['sper', list(_rand_period(rng, pl))]]
    if r < 0.7:
        return [_shaped(rng, ['slat', rng.choice(LATS) if rng.random() < 0.5 else rng.uniform(-90.0, 90.0)])]
    if r < 0.82:
        lon = max(-180.0, min(180.0, est['lon'] + rng.uniform(-25.0, 25.0))) if rng.random() < 0.7 else rng.choice(LONS)
        ops = [_shaped(rng, ['slon', lon])]
        if abs(est['tz'] - lon / 15.0) > 1.9 or rng.random() < 0.3:
            ops.append(['stz', None if rng.random() < 0.5 else float(max(-12, min(14, round(lon / 15.0))))])
        return ops
    if r < 0.93:
        base = est['lon'] / 15.0
        tz = rng.choice([None, float(max(-12, min(14, round(base)))), max(-12.0, min(14.0, base + rng.uniform(-1.5, 1.5))),
                         max(-12.0, min(14.0, float(round(base) + rng.choice([-1, 1]))))])
        return [_shaped(rng, ['stz', tz])]
    return [_shaped(rng, ['snorth', rng.choice([0.0, 0.0, 90.0, -45.5, 360.0, -360.0, rng.uniform(-360.0, 360.0)])])]


def _shaped(rng, op):
    """A setter value as text or as another numeric type, in a third of the cases."""
    if op[1] is not None and rng.random() < 0.35:
        return op + [rng.choice(VSHAPES)]
    return op


def _gen_refused_setter(rng, est):
    r = rng.random()
    k = rng.choice(['slat', 'slon', 'snorth', 'stz'])
    if r < 0.35:
        return [[k, rng.choice(['bad:value', 'bad:type'])]]
    if r < 0.6:
        return [['sper', 'bad']]
    # out of range: the pinned setters store the value before the assert (known finding
    # C11-setter-stores-before-assert); there the user re-establishes the attribute right away.  On a tree with
    # fixes/C11_setters_validate_first.patch the refusal stands alone and the next reads judge it.
    cur = {'slat': est['lat'], 'slon': est['lon'], 'snorth': est['north'], 'stz': est['tz']}[k]
    if _setters_fixed():
        return [_shaped(rng, [k, rng.choice(OUT_OF_RANGE[k])])]
    return [[k, rng.choice(OUT_OF_RANGE[k])], [k, cur]]


_FIXED = []


def _setters_fixed():
    """Does this tree check the range before it stores (probe on a scratch object, once per process)?"""
    if not _FIXED:
        from ladybug.sunpath import Sunpath
        sp = Sunpath(10.0, 20.0, 1.0)
        try:
            sp.latitude = 100.0
        except Exception:
            pass
        try:
            _FIXED.append(abs(sp.latitude - 10.0) < 1e-6)
        except Exception:
            _FIXED.append(False)
    return _FIXED[0]


def _gen_check(rng, est, hot):
    leap = est['leap']
    r = rng.random()
    if est['period'] is not None and r < 0.3:
        n = _ymin(leap)
        moys = [_gen_time(rng, est, hot, leap) for _ in range(40)] + list(range(rng.randrange(2000), n, 60 * 97))
        return ['check', 'dst_window', {'moys': moys}]
    if est['period'] is not None and r < 0.55:
        return ['check', 'dst_shift', {'moys': [_gen_time(rng, est, hot, leap) for _ in range(8)],
                                       'solar': rng.random() < 0.3}]
    if r < 0.8:
        t = _ref(leap, _gen_time(rng, est, hot, leap))
        return ['check', 'riseset', {'month': t.month, 'day': t.day, 'dep': rng.choice(DEPS), 'solar': rng.random() < 0.15}]
    if r < 0.9:
        t = _ref(leap, _gen_time(rng, est, hot, leap))
        return ['check', 'dayarc', {'month': t.month, 'day': t.day, 'dep': rng.choice(DEPS), 'daytime_only': rng.random() < 0.6}]
    if r < 0.93:
        t = _ref(leap, _gen_time(rng, est, hot, leap))
        sm = rng.randrange(1, 10)
        return ['check', 'geometry', {'month': t.month, 'day': t.day, 'dep': rng.choice(DEPS), 'daytime_only': rng.random() < 0.5,
                                      'solar': rng.random() < 0.3, 'origin': [rng.choice([0.0, 5.0]), 7.0, rng.choice([0.0, -4.0])],
                                      'radius': rng.choice([100, 2.5]), 'divisions': rng.choice([10, 3]),
                                      'projection': rng.choice(['Orthographic', 'stereographic']),
                                      'start': sm, 'end': sm + 3, 'steps': 1}]
    sm = rng.randrange(1, 12)
    return ['check', 'analemma', {'start': sm, 'end': min(12, sm + 2), 'steps': rng.choice([1, 2, 4]), 'hour': rng.randrange(24),
                                  'minute': rng.choice([0, 30]), 'daytime_only': rng.random() < 0.4,
                                  'solar': rng.random() < 0.2, 'hourly': rng.random() < 0.15}]


def _gen_history(rng, count=None, nops=None):
    """One generated history.  Reads come first (lazily filled slots get filled in the initial state), then
    setters / refused operations each followed by a question asked before (same arguments), a variant of it
    and new questions."""
    cnt = count or (lambda key: None)
    leap = rng.random() < 0.35
    lat = rng.choice(LATS) if rng.random() < 0.35 else rng.uniform(-89.0, 89.0)
    r = rng.random()
    if r < 0.12:                 # time zone exactly 0 away from Greenwich, longitude / latitude exactly 0
        lon, tz = rng.choice([-29.9, -15.0, 12.5, 20.0, 29.9]), 0.0
    elif r < 0.2:
        lon, tz = 0.0, rng.choice([None, 0.0, 1.0])
    else:
        lon = rng.choice(LONS) if rng.random() < 0.3 else rng.uniform(-180.0, 180.0)
        tz = _oracle_tz(rng, lon)
    period = list(_rand_period(rng, leap if rng.random() < 0.9 else not leap)) if rng.random() < 0.75 else None
    init = {'lat': lat, 'lon': lon, 'tz': tz, 'north': rng.choice([0.0, 0.0, 0.0, 30.0, -90.0]), 'leap': leap,
            'period': period}
    if rng.random() < 0.4:
        init['sform'] = rng.choice(SFORMS[1:7])
        cnt('history:init_made_by_' + init['sform'])
    if period is not None and len(period) > 7:
        cnt('history:period_form_' + period[7])
    est = _est_of(init)
    hot, pool, ops = [], [], []
    cnt('history:init_' + ('leap' if leap else 'nonleap'))
    cnt('history:init_period_' + _kind(period))

    def note_period():
        p = est['period']
        if p is not None:
            for (m, d, hh) in ((p[0], p[1], p[2]), (p[3], p[4], p[5])):
                for lp in (False, True):
                    try:
                        hot.append(_moy_of(lp, m, d, hh))
                    except ValueError:
                        pass
            del hot[:-24]

    def read(new=None):
        r = rng.random()
        if pool and new is None and r < 0.4:
            op = list(rng.choice(pool))
            cnt('history:read_repeated')
        elif pool and new is None and r < 0.6:
            op = _variant(rng, rng.choice(pool))
            cnt('history:read_variant')
        else:
            op = _gen_read(rng, est, hot)
            cnt('history:read_new')
        cnt('history:op_' + op[0])
        pool.append(op)
        del pool[:-8]
        ops.append(op)

    note_period()
    for _ in range(rng.choice([0, 1, 1, 2, 3])):
        read()
    n = nops or rng.randrange(6, 20)
    while len(ops) < n:
        r = rng.random()
        if r < 0.3:
            read()
            continue
        if r < 0.62:
            seq = _gen_setter(rng, est)
            for op in seq:
                cnt('history:set_' + op[0])
                if len(op) > 2:
                    cnt('history:set_shape_' + op[2])
                if op[0] == 'sper' and op[1] is not None and len(op[1]) > 7:
                    cnt('history:period_form_' + op[1][7])
                if op[0] == 'sleap':
                    cnt('history:switch_' + ('to_leap' if op[1] else 'to_nonleap'))
                _est_update(est, op)
            ops.extend(seq)
            note_period()
        elif r < 0.74:
            seq = _gen_refused_setter(rng, est)
            cnt('history:refused_' + seq[0][0] + ('_range' if _refusal_kind(seq[0]).startswith('refused-range') else ''))
            ops.extend(seq)
        elif r < 0.88:
            op = _gen_refused_read(rng, est)
            cnt('history:refused_read_' + op[0])
            ops.append(op)
        else:
            ops.append(_gen_check(rng, est, hot))
            cnt('history:check_op')
            continue
        for _ in range(rng.choice([1, 2, 2, 3])):
            read()
    return {'init': init, 'ops': ops}


def _hist_correspondence(ctx):
    rng = ctx.rng
    hists = [_gen_history(rng, ctx.count) for _ in range(ctx.n(500, 8000))]
    lines = [_hist_line(h) for h in hists]
    outs = ctx.driver().run(lines)
    for h, line, mo in zip(hists, lines, outs):
        ctx.compared += 1
        ctx.count('op:history')
        ops = [op for op in h['ops'] if op[0] != 'check']
        model = mo.split(' ; ')
        ctx.case(('history', line), nontrivial=True)
        if len(model) != len(ops) + 1 or model[0] != 'ok':
            ctx.disagree('history', {'history': h, 'line': line}, mo[:300], 'a Sunpath and %d answers' % len(ops))
            continue
        try:
            impl = _hist_outs(h)
        except Exception as e:
            ctx.disagree('history', {'history': h, 'line': line}, 'ok', 'construction raises ' + err_name(e))
            continue
        for i, (op, m, r) in enumerate(zip(ops, model[1:], impl)):
            ctx.count('history_steps')
            if m == '-':
                continue
            if isinstance(r, tuple):
                if r[0] == 'arc' and m.startswith('ok'):
                    kind, pts = _arc_points(m)
                    why = _arc_vs_points(r[1], kind, pts)
                    if why:
                        ctx.disagree('history', {'history': h, 'step': i, 'op': op}, m, why)
                        break
                    continue
                r = 'ok <unmodelled>'
            eq, exact = _same(m, r)
            if not eq:
                ctx.disagree('history', {'history': h, 'step': i, 'op': op}, m[:400], r[:400])
                break
    if hists:
        ctx.sample({'op': 'history', 'request': lines[0][:600], 'model': outs[0][:300]})


# ---------------------------------------------------------------------------------------------
# process-order independence: the same cases in fresh Python processes, in different orders


def _observe(op, inp):
    """What the real code answers on one oracle case (no model, no judgement), as text."""
    from ladybug.dt import DateTime, Time
    if op == 'history':
        return ' | '.join(_digest(o) for o in _hist_outs(inp))
    if op == 'order':
        return ''
    if op == 'dst_mixed':
        c = _cfg_of(inp)
        p = tuple(inp['period'][:6]) + (bool(inp.get('pleap', c[4])), inp.get('pform', 'num'))
        sp = _sunpath(c, p)
        dleap = bool(inp.get('dleap', c[4]))
        return ' | '.join(_apply(sp, ['sun', bool(inp.get('solar')), dleap, t[0], t[1], t[2], t[3]]) for t in inp['times'])
    c, p = _cfg_of(inp), _per_of(inp)
    leap, solar = c[4], bool(inp.get('solar'))
    sp = _sunpath(c, p)
    if op in ('riseset', 'riseset_dt'):
        return _apply(sp, ['risesetmd', solar, inp['dep'], inp['month'], inp['day']])
    if op == 'dst_window':
        sp = _sunpath((0.0, 0.0, 0.0, 0.0, leap), p)
        out = []
        for moy in inp['moys'][:3000]:
            r = _ref(leap, moy)
            out.append(_b(sp.is_daylight_saving_hour(DateTime(r.month, r.day, r.hour, r.minute, leap))))
        return ''.join(out)
    if op == 'dst_shift':
        out = []
        for moy in inp['moys']:
            r = _ref(leap, moy)
            out.append(_apply(sp, ['sun', solar, leap, r.month, r.day, r.hour, r.minute]))
        return ' | '.join(out)
    if op == 'analemma':
        return _apply(sp, ['analemma', solar, bool(inp.get('daytime_only')), inp['start'], inp['end'], inp['steps'],
                           inp['hour'], inp['minute']])
    if op in ('dayarc', 'geometry', 'alias'):
        return _digest(_apply(sp, ['dayarc', inp['dep'], bool(inp.get('daytime_only', True)), inp['month'], inp['day']]))
    raise ValueError('unknown op ' + op)


def _worker_main():
    """Entry point of the fresh processes: cases on stdin (JSON), [[answer text, oracle result], ...] on stdout."""
    sys.path.insert(0, core.REPO)
    data = json.load(sys.stdin)
    out = []
    for op, inp in data['cases']:
        try:
            d = _observe(op, inp)
        except Exception as e:
            d = 'raises ' + type(e).__name__
        try:
            res = check_case(op, inp)
        except Exception as e:
            res = {'required': 'oracle evaluates', 'observed': 'exception %s: %s' % (type(e).__name__, e),
                   'sig': {'exception': type(e).__name__}}
        out.append([d, res])
    json.dump(out, sys.stdout, default=str)


def _spawn_worker(cases):
    code = 'import sys; sys.path.insert(0, %r); from harness.props import c11; c11._worker_main()' % core.ROOT
    p = subprocess.Popen([sys.executable, '-c', code], stdin=subprocess.PIPE, stdout=subprocess.PIPE,
                         stderr=subprocess.PIPE, env=dict(os.environ, LADYBUG_REPO=core.REPO))
    p.stdin.write(json.dumps({'cases': cases}, default=str).encode('utf-8'))
    p.stdin.close()
    return p


def _collect_worker(p, n):
    out = p.stdout.read()
    err = p.stderr.read()
    p.wait()
    try:
        res = json.loads(out.decode('utf-8'))
        assert len(res) == n
        return res
    except Exception:
        # the (possibly changed) implementation killed the fresh process: every answer is that crash
        tail = err.decode('utf-8', 'replace').strip().split('\n')[-1][:200]
        return [['process died: ' + tail, None] for _ in range(n)]


def _run_worker(cases):
    return _collect_worker(_spawn_worker(cases), len(cases))


def _check_order(inp):
    """The last case of `cases`, asked after the others in one fresh process, answers as in a fresh process
    that is asked nothing else, and satisfies its oracle there."""
    cases = [list(c) for c in inp['cases']]
    pa, pb = _spawn_worker(cases), _spawn_worker(cases[-1:])
    a, b = _collect_worker(pa, len(cases)), _collect_worker(pb, 1)
    op = cases[-1][0]
    sig = {'what': 'process-order', 'case': op, 'first': cases[0][0]}
    if a[-1][0] != b[0][0]:
        return {'required': 'case %r %s answers as in a process of its own: %s'
                % (op, json.dumps(cases[-1][1], default=str)[:300], b[0][0][:300]),
                'observed': 'after %d other cases in the same process: %s' % (len(cases) - 1, a[-1][0][:300]), 'sig': sig}
    if a[-1][1] and not b[0][1]:
        r = a[-1][1]
        return {'required': 'after %d other cases in the same process: %s' % (len(cases) - 1, r.get('required')),
                'observed': r.get('observed'), 'sig': sig}
    return None


def _shrink_order(cases, budget=14):
    """Drop earlier cases (halves, quarters, ...) as long as the last case still answers differently."""
    prefix, last = [list(c) for c in cases[:-1]], list(cases[-1])
    chunk = len(prefix) // 2
    while chunk >= 1 and budget > 0:
        i = 0
        while i < len(prefix) and budget > 0:
            cand = prefix[:i] + prefix[i + chunk:]
            budget -= 1
            if _check_order({'cases': cand + [last]}):
                prefix = cand
            else:
                i += chunk
        chunk //= 2
    return prefix + [last]


def _rarity(case):
    op, inp = case
    init = inp.get('init', inp)
    k = 0
    if init.get('leap'):
        k += 4
    p = init.get('period')
    if p is not None and _kind(p) == 'wrap':
        k += 2
    if inp.get('solar') or inp.get('dep') == 0:
        k += 1
    if op == 'history':
        ops = inp['ops']
        if ops and (_refusal_kind(ops[0]).startswith('refused') and (ops[0][0] in SETTERS and isinstance(ops[0][1], str))
                    or ops[0][0] in ('csun', 'risesetmd', 'dayarc') and tuple(ops[0][-2:]) in BAD_DATES):
            k += 8          # a failing call is the first thing the process does
        if any(o[0] == 'sleap' for o in ops):
            k += 1
    return k


def _order_slice(ctx):
    rng = ctx.rng
    cases = [c for c in CORPUS if not (c[0] == 'history' and c[1].get('known'))
             and not (c[0] == 'dst_window' and len(c[1]['moys']) > 3000)]
    gen = _oracle_cases(ctx, corpus=False, counting=False)
    want = {'riseset': 14, 'dst_window': 4, 'dst_mixed': 4, 'dst_shift': 6, 'analemma': 4, 'dayarc': 6, 'history': 16}
    if not ctx.quick:
        want = dict((k, 3 * v) for k, v in want.items())
    have = dict((k, 0) for k in want)
    for op, inp in gen:
        if op in have and have[op] < want[op] and rng.random() < 0.3:
            if op == 'dst_window':
                inp = dict(inp, moys=inp['moys'][:1500])
            cases.append((op, inp))
            have[op] += 1
        if have == want:
            break
    # histories whose FIRST operation is a refused one (failing call first)
    for _ in range(4):
        h = _gen_history(rng, None, nops=6)
        est = _est_of(h['init'])
        first = _gen_refused_read(rng, est) if rng.random() < 0.6 else _gen_refused_setter(rng, est)[0]
        if first[0] in RANGES and not isinstance(first[1], str):
            first = ['sper', 'bad']
        h['ops'] = [first] + [o for o in h['ops'] if o[0] != 'check']
        cases.append(('history', h))
    return [[op, inp] for op, inp in cases]


def _order_stage(ctx):
    """2-4 fresh processes run the same slice in different orders (rare classes first in one of them, then the
    reverse, then seeded shuffles); every answer must be the same in all of them and in this process."""
    cases = _order_slice(ctx)
    n = len(cases)
    idx = list(range(n))
    rare_first = sorted(idx, key=lambda i: -_rarity(cases[i]))
    orders = [rare_first, list(reversed(rare_first))]
    for _ in range(1 if ctx.quick else 2):
        o = list(idx)
        ctx.rng.shuffle(o)
        orders.append(o)
    procs = [_spawn_worker([cases[i] for i in o]) for o in orders]
    here = []
    for op, inp in cases:
        try:
            here.append(_observe(op, inp))
        except Exception as e:
            here.append('raises ' + type(e).__name__)
    results = [_collect_worker(p, n) for p in procs]
    ctx.count('order:processes', len(orders))
    ctx.count('order:cases', n)
    for i in range(n):
        ctx.case(('order', i, json.dumps(cases[i], sort_keys=True, default=str)))
        answers = [here[i]] + [results[w][orders[w].index(i)][0] for w in range(len(orders))]
        judged = [results[w][orders[w].index(i)][1] for w in range(len(orders))]
        if len(set(answers)) == 1 and not any(judged):
            continue
        ctx.count('order:suspects')
        reported = False
        for w, o in enumerate(orders):
            pos = o.index(i)
            rp = {'cases': [cases[j] for j in o[:pos + 1]], 'order': o[:pos + 1]}
            res = _check_order(rp)
            if res:
                if not any(f['op'] == 'order' for f in ctx.failures):
                    small = {'cases': _shrink_order(rp['cases'])}
                    res2 = _check_order(small)
                    if res2:
                        rp, res = small, res2
                ctx.fail('order', rp, res['required'], res['observed'], res['sig'])
                reported = True
                break
        if not reported and any(judged):
            # fails in every process, alone too: an ordinary failing input
            r = [j for j in judged if j][0]
            ctx.fail(cases[i][0], cases[i][1], r.get('required'), r.get('observed'), r.get('sig'))
            reported = True
        if not reported:
            # differs between this long-running process and the fresh ones only
            ctx.fail('order', {'cases': [cases[i]], 'order': [i], 'note': 'differs from the answer inside the check process'},
                     'the same answer in every process: ' + answers[1][:300], answers[0][:300],
                     {'what': 'process-order', 'case': cases[i][0], 'first': 'check-process'})
        if len(ctx.failures) > 20 or ctx.counters.get('order:suspects', 0) >= 6:
            break


_SUBCTX = [None]


def _SUB(name, ok):
    if _SUBCTX[0] is not None:
        _SUBCTX[0].subclaim(name, ok)


def _COUNT(key):
    if _SUBCTX[0] is not None:
        _SUBCTX[0].count(key)


CHECKS = {'dst_mixed': _check_dst_mixed, 'geometry': _check_geometry, 'alias': _check_alias, 'dst_window': _check_dst_window, 'dst_shift': _check_dst_shift, 'riseset': _check_riseset,
          'riseset_dt': _check_riseset_dt, 'analemma': _check_analemma, 'dayarc': _check_dayarc,
          'history': _check_history, 'order': _check_order}


def check_case(op, inp):
    if op not in CHECKS:
        raise ValueError('unknown op ' + op)
    return CHECKS[op](inp)


replay = check_case

NYC = {'lat': 40.72, 'lon': -74.02, 'tz': -5.0, 'leap': False}
CORPUS = [
    # the tested NYC period and a southern (year-wrapping) one: sunrise/noon/sunset inside the period
    ('riseset', dict(NYC, period=[3, 8, 2, 11, 1, 2], month=6, day=21, dep=0.5334)),
    ('riseset', dict(NYC, period=[3, 8, 2, 11, 1, 2], month=12, day=21, dep=0.833)),
    ('riseset', {'lat': -33.87, 'lon': 151.22, 'tz': 10.0, 'leap': False, 'period': [10, 1, 2, 4, 1, 3],
                 'month': 12, 'day': 21, 'dep': 0.8333}),
    ('riseset', {'lat': -33.87, 'lon': 151.22, 'tz': 10.0, 'leap': False, 'month': 6, 'day': 21, 'dep': 0.8333}),
    # before-midnight sunrise on 1 Jan, after-midnight sunset on 31 Dec (year ends), both leap flags
    ('riseset', {'lat': -66.0, 'lon': 0.0, 'tz': -2.0, 'leap': False, 'month': 1, 'day': 1, 'dep': 0.5334}),
    ('riseset', {'lat': -66.0, 'lon': 0.0, 'tz': 2.0, 'leap': False, 'month': 12, 'day': 31, 'dep': 0.5334}),
    ('riseset', {'lat': -66.0, 'lon': 0.0, 'tz': 2.0, 'leap': True, 'month': 12, 'day': 31, 'dep': 0.5334}),
    ('riseset', {'lat': -49.43473904646526, 'lon': 15.396278108080821, 'tz': 3.0, 'leap': False, 'month': 11,
                 'day': 16, 'dep': 18.0}),                     # sunset rounds to exactly 24:00
    ('riseset', {'lat': -68.06703350366472, 'lon': -123.07070128611672, 'tz': -10.189618135464936, 'leap': False,
                 'month': 11, 'day': 11, 'dep': 0.833}),      # sunrise rounds to exactly 00:00
    ('riseset', {'lat': 65.63, 'lon': -16.12, 'tz': 0.0, 'leap': False, 'month': 6, 'day': 21, 'dep': 0.5334}),
    ('riseset', {'lat': 65.63, 'lon': -16.12, 'tz': -2.0, 'leap': False, 'month': 6, 'day': 21, 'dep': 0.5334}),
    ('riseset', {'lat': 78.0, 'lon': 15.0, 'tz': 1.0, 'leap': False, 'month': 6, 'day': 21, 'dep': 0.5334}),
    ('riseset', {'lat': 78.0, 'lon': 15.0, 'tz': 1.0, 'leap': False, 'month': 12, 'day': 21, 'dep': 6.0}),
    ('riseset', {'lat': 0.0, 'lon': 0.0, 'tz': None, 'leap': True, 'month': 2, 'day': 29, 'dep': 0.0, 'solar': True}),
    ('dst_window', {'leap': False, 'period': [10, 1, 2, 4, 1, 3], 'moys': list(range(0, 525600, 60))}),
    ('dst_window', {'leap': True, 'period': [3, 8, 2, 11, 1, 2], 'moys': list(range(0, 527040, 60))}),
    ('dst_shift', dict(NYC, period=[3, 8, 2, 11, 1, 2], moys=[246240, 246240 - 720, 511920, 95519, 95520, 437879, 437880])),
    ('dst_shift', {'lat': -33.87, 'lon': 151.22, 'tz': 10.0, 'leap': False, 'period': [10, 1, 2, 4, 1, 3],
                   'moys': [0, 59, 60, 720, 525599, 246240, 129719, 129720, 393239, 393240]}),
    ('analemma', dict(NYC, start=1, end=12, steps=1, hour=12, minute=0, hourly=True)),
    ('analemma', dict(NYC, period=[3, 8, 2, 11, 1, 2], start=3, end=11, steps=4, hour=7, minute=30, daytime_only=True)),
    ('dayarc', dict(NYC, month=6, day=21, dep=0.5334)),
    ('dayarc', {'lat': 65.63, 'lon': -16.12, 'tz': -2.0, 'leap': False, 'month': 6, 'day': 21, 'dep': 0.5334}),
    ('dayarc', {'lat': 78.0, 'lon': 15.0, 'tz': 1.0, 'leap': False, 'month': 6, 'day': 21, 'dep': 0.5334}),
    ('dayarc', dict(NYC, period=[3, 8, 2, 11, 1, 2], month=6, day=21, dep=0.5334)),
    # --- round 4: the daylight-saving period handed over as text / strings / a dictionary (one- and two-digit
    # fields mixed: '10' < '4' as text), every hour of the year
    ('dst_window', {'leap': False, 'period': [10, 4, 2, 4, 5, 3], 'pform': 'text', 'moys': list(range(0, 525600, 60))}),
    ('dst_window', {'leap': False, 'period': [3, 8, 2, 11, 1, 2], 'pform': 'repr', 'moys': list(range(0, 525600, 60))}),
    ('dst_window', {'leap': True, 'period': [9, 24, 10, 4, 2, 3], 'pform': 'str', 'moys': list(range(30, 527040, 180))}),
    ('dst_window', {'leap': False, 'period': [1, 1, 0, 12, 31, 23], 'pform': 'falsy', 'moys': list(range(0, 525600, 600))}),
    ('dst_window', {'leap': True, 'period': [11, 30, 2, 2, 29, 3], 'pform': 'clip', 'moys': list(range(0, 527040, 180))}),
    ('dst_shift', {'lat': -33.87, 'lon': 151.22, 'tz': 10.0, 'leap': False, 'period': [10, 4, 2, 4, 5, 3], 'pform': 'unicode',
                   'moys': [0, 59, 60, 720, 525599, 246240, 136979, 136980, 397559, 397560]}),
    ('riseset', dict(NYC, period=[3, 8, 2, 11, 1, 2], pform='padded', month=6, day=21, dep=0.5334)),
    ('riseset', {'lat': -33.87, 'lon': 151.22, 'tz': 10.0, 'leap': False, 'period': [10, 4, 2, 4, 5, 3], 'pform': 'dict_sparse',
                 'month': 12, 'day': 21, 'dep': 0.8333}),
    # geometry consumers with every argument off its default; results are the caller's own
    ('geometry', dict(NYC, north=30.0, dep=6.0, daytime_only=False, solar=True, origin=[5.0, 7.0, 3.0], radius=50.0,
                      divisions=7, projection='stereographic', start=1, end=12, steps=1, month=6, day=21)),
    ('geometry', {'lat': 78.0, 'lon': 15.0, 'tz': 1.0, 'leap': False, 'north': 0.0, 'dep': 0.5334, 'daytime_only': True,
                  'origin': [0.0, 250.0, -40.0], 'radius': 2.5, 'divisions': 3, 'projection': 'ORTHOGRAPHIC', 'start': 3,
                  'end': 9, 'steps': 2, 'month': 12, 'day': 21}),
    ('alias', dict(NYC, period=[3, 8, 2, 11, 1, 2], pform='text', dep=0.5334, start=3, end=9, steps=1, hour=9, minute=0,
                   month=6, day=21)),
    # --- round 6: Sunpath, period and DateTime argument of different year kinds (further than a day from the ends)
    ('dst_mixed', dict(NYC, leap=True, pleap=False, dleap=True, period=[3, 8, 2, 11, 1, 2], dep=0.5334,
                       times=[[4, 15, 9, 0], [6, 21, 12, 0], [10, 29, 1, 30], [1, 15, 12, 0], [12, 21, 8, 0], [3, 5, 12, 0],
                              [11, 4, 12, 0], [2, 28, 23, 59], [3, 1, 0, 0]])),
    ('dst_mixed', {'lat': -33.87, 'lon': 151.22, 'tz': 10.0, 'leap': False, 'pleap': True, 'dleap': False,
                   'period': [10, 4, 2, 4, 5, 3], 'pform': 'text', 'dep': 0.8333,
                   'times': [[6, 21, 12, 0], [7, 1, 0, 0], [12, 21, 12, 0], [1, 1, 0, 0], [12, 31, 23, 59], [4, 1, 12, 0],
                             [4, 8, 12, 0], [10, 1, 12, 0], [10, 7, 12, 0]]}),
    ('dst_mixed', dict(NYC, leap=False, pleap=False, dleap=True, period=[3, 8, 2, 11, 1, 2], solar=True,
                       times=[[4, 15, 9, 0], [6, 21, 12, 0], [1, 15, 12, 0], [12, 21, 8, 0], [3, 10, 12, 0], [10, 30, 12, 0]])),
    ('dst_mixed', {'lat': 51.5, 'lon': -0.12, 'tz': 0.0, 'leap': True, 'pleap': True, 'dleap': False,
                   'period': [3, 26, 1, 10, 29, 1], 'pform': 'dict',
                   'times': [[3, 20, 12, 0], [3, 29, 12, 0], [7, 1, 0, 30], [10, 26, 12, 0], [11, 1, 12, 0], [2, 28, 12, 0]]}),
    # --- histories on one object
    # a period given in the leap calendar, the object used for a normal year first, then switched
    ('history', {'init': {'lat': -33.87, 'lon': 151.22, 'tz': 10.0, 'north': 0.0, 'leap': False,
                          'period': [10, 4, 2, 4, 5, 2, True]},
                 'ops': [['csun', False, 6, 21, 12.0], ['dst', False, 10, 4, 12, 0], ['sleap', True],
                         ['dst', True, 10, 3, 12, 0], ['dst', True, 10, 4, 1, 59], ['dst', True, 10, 4, 2, 0],
                         ['dst', True, 4, 4, 12, 0], ['dst', True, 4, 5, 1, 59], ['sun', False, True, 10, 3, 12, 0],
                         ['check', 'dst_window', {'moys': list(range(0, 527040, 360))}],
                         ['check', 'dst_shift', {'moys': [397440 + 720, 397440 - 720, 136800 + 720, 136800 - 720]}],
                         ['sleap', False], ['dst', False, 10, 3, 12, 0], ['dst', False, 10, 4, 12, 0]]}),
    # the same the other way round: leap first, then a normal year with a normal-year period
    ('history', {'init': dict(NYC, north=0.0, leap=True, period=[3, 8, 2, 11, 1, 2, True]),
                 'ops': [['risesetmd', False, 0.5334, 3, 8], ['sun', False, True, 11, 1, 1, 30], ['sleap', False],
                         ['sper', [3, 8, 2, 11, 1, 2, False]], ['sun', False, False, 11, 1, 1, 30],
                         ['sun', False, False, 3, 8, 2, 0], ['sun', False, False, 3, 7, 12, 0],
                         ['check', 'dst_window', {'moys': list(range(30, 525600, 360))}], ['risesetmd', False, 0.5334, 3, 8]]}),
    # refused calls (a date that does not exist; a month that does not exist after good ones; a projection
    # that is rejected at the very end; a non-period) leave the object as it was
    ('history', {'init': dict(NYC, north=0.0, period=[3, 8, 2, 11, 1, 2, False]),
                 'ops': [['sun', False, False, 6, 21, 12, 0], ['dayarc', 0.5334, True, 2, 30], ['sun', False, False, 6, 21, 12, 0],
                         ['risesetmd', False, 0.5334, 6, 21], ['poly2d', 2, 29, 'Orthographic', 0.5334],
                         ['dst', False, 6, 21, 12, 0], ['poly2d', 6, 21, 'Mercator', 0.5334], ['sun', False, False, 6, 21, 12, 0],
                         ['analemma', False, False, 10, 13, 1, 12, 0], ['sun', False, False, 6, 21, 12, 0],
                         ['hourly', False, False, 11, 13, 1], ['risesetmd', False, 0.5334, 6, 21],
                         ['sper', 'bad'], ['dst', False, 6, 21, 12, 0], ['slat', 'bad:value'], ['stz', 'bad:type'],
                         ['csun', False, 6, 21, 24.0], ['risesetmd', False, 0.5334, 2, 29], ['smoy', False, -5000],
                         ['check', 'dst_shift', {'moys': [246240, 95520, 95519, 437879, 437880]}],
                         ['check', 'riseset', {'month': 6, 'day': 21, 'dep': 0.5334}]]}),
    # the same question for different depressions / flags / days, and twice
    ('history', {'init': dict(NYC, north=0.0),
                 'ops': [['risesetmd', False, 0.5334, 6, 21], ['risesetmd', False, 0, 6, 21], ['risesetmd', False, 18.0, 6, 21],
                         ['risesetmd', True, 0.5334, 6, 21], ['risesetmd', False, 0.5334, 12, 21],
                         ['risesetmd', False, 0.5334, 6, 21], ['dayarc', 0, True, 6, 21], ['dayarc', 0.5334, True, 6, 21],
                         ['slat', -40.72], ['risesetmd', False, 0.5334, 6, 21], ['slon', -60.0], ['risesetmd', False, 0.5334, 6, 21],
                         ['stz', None], ['risesetmd', False, 0.5334, 6, 21], ['stz', -4.0], ['snorth', 90.0],
                         ['sun', False, False, 6, 21, 12, 0], ['check', 'riseset', {'month': 6, 'day': 21, 'dep': 0.0}]]}),
    # known finding C11-setter-stores-before-assert (one per setter)
    ('history', {'known': True, 'init': dict(NYC, north=0.0),
                 'ops': [['risesetmd', False, 0.5334, 6, 21], ['slat', 100.0], ['risesetmd', False, 0.5334, 6, 21]]}),
    ('history', {'known': True, 'init': dict(NYC, north=0.0),
                 'ops': [['risesetmd', False, 0.5334, 6, 21], ['slon', 200.0], ['risesetmd', False, 0.5334, 6, 21]]}),
    ('history', {'known': True, 'init': dict(NYC, north=0.0),
                 'ops': [['risesetmd', False, 0.5334, 6, 21], ['stz', 15.0], ['risesetmd', False, 0.5334, 6, 21]]}),
    ('history', {'known': True, 'init': dict(NYC, north=0.0),
                 'ops': [['sun', False, False, 6, 21, 12, 0], ['snorth', 400.0], ['sun', False, False, 6, 21, 12, 0]]}),
]


def _oracle_tz(rng, lon):
    base = lon / 15.0
    r = rng.random()
    if r < 0.15:
        return None
    if r < 0.6:
        tz = float(round(base))
    elif r < 0.8:
        tz = float(round(base) + rng.choice([-1, 1]))
    else:
        tz = base + rng.uniform(-1.9, 1.9)
    tz = max(-12.0, min(14.0, tz))
    return tz if abs(tz - base) <= 2.0 else max(-12.0, min(14.0, float(round(base))))


def _oracle_cases(ctx, corpus=True, counting=True):
    rng = ctx.rng
    if corpus:
        for op, inp in CORPUS:
            yield op, inp
    mult = 5 if ctx.searching else 1
    cnt = ctx.count if counting else (lambda key: None)
    # histories on one object (first: they are the cheapest way to a failing input for hidden state)
    for _ in range(ctx.n(400, 6000) * min(mult, 3)):
        yield 'history', _gen_history(rng, None if not counting else (lambda key: cnt('oracle_' + key)))
    # sunrise / noon / sunset
    for i in range(ctx.n(260, 4000) * mult):
        lat = rng.choice(LATS[1:-1]) if rng.random() < 0.4 else rng.uniform(-89.0, 89.0)
        if rng.random() < 0.2:
            lat = rng.choice([-1, 1]) * rng.uniform(55.0, 70.0)
        lon = rng.choice(LONS) if rng.random() < 0.3 else rng.uniform(-180.0, 180.0)
        leap = rng.random() < 0.3
        inp = {'lat': lat, 'lon': lon, 'tz': _oracle_tz(rng, lon), 'leap': leap,
               'dep': rng.choice(DEPS + [0, 18]) if rng.random() < 0.8 else rng.uniform(0.0, 18.0)}
        if rng.random() < 0.06:
            inp['lon'], inp['tz'] = rng.choice([-29.9, -20.0, -15.0, 12.5, 20.0, 29.9]), 0.0
        inp['month'], inp['day'] = _rand_day(rng, leap)
        if inp['dep'] == 0:
            cnt('oracle_rare:depression_zero')
        if inp['tz'] == 0.0 and inp['lon'] != 0.0:
            cnt('oracle_rare:zone_zero_off_greenwich')
        if (inp['month'], inp['day']) in ((1, 1), (12, 31), (2, 29), (2, 28), (3, 1)):
            cnt('oracle_rare:year_end_or_leap_day')
        if rng.random() < 0.35:
            inp['period'] = list(rng.choice(PERIODS[:6] if rng.random() < 0.8 else PERIODS))
            inp['pform'] = _form_for(rng, inp['period'], leap)
            cnt('oracle_pform:' + inp['pform'])
        if rng.random() < 0.15:
            inp['solar'] = True
        cnt('oracle_cfg:lat_' + ('polar' if abs(lat) > 66.56 else 'subpolar' if abs(lat) > 55 else 'mid_low'))
        cnt('oracle_cfg:' + ('dst_period' if 'period' in inp else 'no_period'))
        yield 'riseset', inp
        if i % 10 == 0:
            yield 'riseset_dt', inp
    # daylight-saving window: every hour of the year for the fixed periods (thorough) / a stride (quick)
    for k, pp in enumerate(PERIODS):
        for leap in (False, True):
            n = _ymin(leap)
            if ctx.quick and not ctx.searching:
                st = rng.randrange(60 * 5)
                moys = list(range(st, n, 60 * 5)) + _dst_boundary_moys(pp, leap)
            else:
                moys = list(range(0, n, 60)) + _dst_boundary_moys(pp, leap)
            cnt('oracle_dst_period:' + _kind(pp))
            yield 'dst_window', {'leap': leap, 'period': list(pp), 'moys': moys}
            # the same period handed over as text / strings / dictionary / ... (round 4)
            for form in (rng.sample(PFORMS[1:], 2) if ctx.quick and not ctx.searching else PFORMS[1:]):
                cnt('oracle_pform:' + form)
                yield 'dst_window', {'leap': leap, 'period': list(pp), 'pform': form,
                                     'moys': _dst_boundary_moys(pp, leap) + [rng.randrange(n) for _ in range(60)]}
    for _ in range(ctx.n(6, 60)):
        leap = rng.random() < 0.5
        pp = _rand_period(rng, leap)
        pform, pp = pp[7], pp[:6]
        n = _ymin(leap)
        cnt('oracle_pform:' + pform)
        yield 'dst_window', {'leap': leap, 'period': list(pp), 'pform': pform,
                             'moys': list(range(rng.randrange(180), n, 180)) + _dst_boundary_moys(pp, leap)}
    # round 6: every mix of year kinds of Sunpath / period / DateTime argument
    for i in range(ctx.n(96, 960) * mult):
        leap, pleap, dleap = bool(i & 1), bool(i & 2), bool(i & 4)
        lat, lon = rng.uniform(-80.0, 80.0), rng.uniform(-180.0, 180.0)
        pp = _rand_period(rng, pleap)
        pform, pp = pp[7], pp[:6]
        times = []
        for (m, d, h) in (pp[:3], pp[3:6]):
            b = _moy_of(False, m, d, h)
            for k in (-2 * 1440 - 90, -1440 - 62, 1440 + 62, 2 * 1440 + 90, rng.randrange(-6000, 6000)):
                r = _ref(False, (b + k) % 525600)
                times.append([r.month, r.day, r.hour, r.minute])
        for _ in range(6):
            r = _ref(False, rng.randrange(525600))
            times.append([r.month, r.day, r.hour, r.minute])
        times += [[1, 1, 0, 0], [12, 31, 23, 59], [2, 28, 23, rng.randrange(60)], [3, 1, 0, rng.randrange(60)]]
        cnt('oracle_mixed:S%dP%dD%d' % (leap, pleap, dleap))
        cnt('oracle_mixed_period:' + _kind(pp))
        yield 'dst_mixed', {'lat': lat, 'lon': lon, 'tz': _oracle_tz(rng, lon), 'leap': leap, 'pleap': pleap,
                            'dleap': dleap, 'period': list(pp), 'pform': pform, 'times': times,
                            'solar': rng.random() < 0.2, 'dep': rng.choice(DEPS)}
    # the shift
    for _ in range(ctx.n(120, 1500) * mult):
        lat, lon = rng.uniform(-80.0, 80.0), rng.uniform(-180.0, 180.0)
        leap = rng.random() < 0.3
        pp = rng.choice(PERIODS)
        n = _ymin(leap)
        moys = [rng.randrange(n) for _ in range(12)] + rng.sample(_dst_boundary_moys(pp, leap), 6) + \
               [rng.randrange(_ydays(leap)) * 1440 + rng.randrange(60) for _ in range(3)]
        yield 'dst_shift', {'lat': lat, 'lon': lon, 'tz': _oracle_tz(rng, lon), 'leap': leap, 'period': list(pp),
                            'pform': _form_for(rng, pp, leap), 'moys': moys, 'solar': rng.random() < 0.2}
    # derived suns
    for i in range(ctx.n(40, 500) * mult):
        lat, lon = rng.uniform(-89.0, 89.0), rng.uniform(-180.0, 180.0)
        inp = {'lat': lat, 'lon': lon, 'tz': _oracle_tz(rng, lon), 'leap': rng.random() < 0.3,
               'start': rng.choice([1, 1, rng.randrange(1, 13)]), 'end': rng.choice([12, 12, rng.randrange(1, 13)]),
               'steps': rng.choice([1, 1, 2, 3, 4, 7, 10, 15, 28]), 'hour': rng.choice([0, 23, rng.randrange(24)]),
               'minute': rng.choice([0, 0, 30, rng.randrange(60)]), 'daytime_only': rng.random() < 0.4,
               'solar': rng.random() < 0.2, 'hourly': i % 8 == 0}
        if rng.random() < 0.4:
            inp['period'] = list(rng.choice(PERIODS))
            inp['pform'] = _form_for(rng, inp['period'], inp['leap'])
        yield 'analemma', inp
    for _ in range(ctx.n(150, 2000) * mult):
        lat = rng.choice(LATS[1:-1]) if rng.random() < 0.4 else rng.uniform(-89.0, 89.0)
        lon = rng.uniform(-180.0, 180.0)
        leap = rng.random() < 0.3
        inp = {'lat': lat, 'lon': lon, 'tz': _oracle_tz(rng, lon), 'leap': leap, 'dep': rng.choice(DEPS),
               'daytime_only': rng.random() < 0.6}
        inp['month'], inp['day'] = _rand_day(rng, leap)
        if rng.random() < 0.3:
            inp['period'] = list(rng.choice(PERIODS[:6]))
            inp['pform'] = _form_for(rng, inp['period'], leap)
        yield 'dayarc', inp
    # geometry consumers with every argument off its default (round 4, kind g)
    for _ in range(ctx.n(30, 300) * mult):
        lat = rng.choice([-78.0, -66.5622, 67.5, 71.0, 78.0]) if rng.random() < 0.3 else rng.uniform(-85.0, 85.0)
        lon = rng.uniform(-180.0, 180.0)
        leap = rng.random() < 0.3
        sm = rng.choice([1, 1, rng.randrange(1, 11)])
        em = 12 if (sm == 1 and rng.random() < 0.6) else rng.randrange(sm + 2, 13)
        inp = {'lat': lat, 'lon': lon, 'tz': _oracle_tz(rng, lon), 'leap': leap, 'north': rng.choice([0.0, 0.0, 30.0, -90.0]),
               'dep': rng.choice(DEPS + [0, 3.0]), 'daytime_only': rng.random() < 0.5, 'solar': rng.random() < 0.4,
               'origin': [rng.choice([0.0, 5.0, -12.5]), rng.choice([0.0, 7.0, 250.0]), rng.choice([0.0, 3.0, -40.0])],
               'radius': rng.choice([100, 1.0, 50.0, 0.25, 3000.0]), 'divisions': rng.choice([10, 2, 3, 7, 24]),
               'projection': rng.choice(['Orthographic', 'Stereographic', 'orthographic', 'STEREOGRAPHIC', 'stereoGraphic']),
               'start': sm, 'end': em, 'steps': rng.choice([1, 1, 2, 3])}
        inp['month'], inp['day'] = _rand_day(rng, leap)
        if rng.random() < 0.3:
            inp['period'] = list(rng.choice(PERIODS[:6]))
            inp['pform'] = _form_for(rng, inp['period'], leap)
        cnt('oracle_geometry:' + inp['projection'].lower())
        yield 'geometry', inp
    # results are the caller's own (round 4, kind f)
    for _ in range(ctx.n(25, 250) * mult):
        lat, lon = rng.uniform(-80.0, 80.0), rng.uniform(-180.0, 180.0)
        leap = rng.random() < 0.3
        sm = rng.randrange(1, 10)
        inp = {'lat': lat, 'lon': lon, 'tz': _oracle_tz(rng, lon), 'leap': leap, 'dep': rng.choice(DEPS),
               'start': sm, 'end': rng.randrange(sm + 2, 13), 'steps': rng.choice([1, 1, 2]), 'hour': rng.randrange(24),
               'minute': rng.choice([0, 30]), 'daytime_only': rng.random() < 0.4, 'solar': rng.random() < 0.3}
        inp['month'], inp['day'] = _rand_day(rng, leap)
        if rng.random() < 0.4:
            inp['period'] = list(rng.choice(PERIODS[:6]))
            inp['pform'] = _form_for(rng, inp['period'], leap)
        cnt('oracle_alias')
        yield 'alias', inp


def oracle(ctx):
    _SUBCTX[0] = ctx
    try:
        run_oracle_cases(ctx, _oracle_cases(ctx), check_case)
        if len(ctx.failures) < 200:
            _order_stage(ctx)
    finally:
        _SUBCTX[0] = None
