"""C13 — Validation, hole-filling and resampling preserve the data they are given.

Model: lean/Ladybug/Model/Resample.lean (on Model/Cal.lean, Model/AP.lean) and the object state
machine lean/Ladybug/Model/ResampleObj.lean; theorems: lean/Ladybug/Props/C13.lean (lemmas:
Proofs/C13Lemmas|C13Interp|C13Contain|C13Holes|C13Obj.lean); driver: drv_c13.
Tie: correspondence on the ops below (values are distinct ids where the code only moves them,
rationals where it interpolates).

The model, the theorems and the oracle describe the code WITH fixes/C13_*.patch applied (ten small
repairs, see the patch headers); on a tree without them this check reports a VIOLATION.

Stages (round 3 added the last three):
  * fresh-object correspondence / oracle: one new collection, one call (vh vd vm vp cull holes interp agg rate)
  * HISTORY correspondence (`hist`): the Lean object machine and the real hourly collection (continuous /
    discontinuous x mutable / immutable) run the same op list on ONE object; the answer of every step and the
    public state after every step are compared.  Ops: reads (values, period, flag; `datetimes`, which fills the
    lazily computed slot of a continuous collection), validate, cull, in-place cull, hole filling, refinement,
    `values` setter, item assignment, to_immutable / to_mutable / duplicate / to_discontinuous / dict round trip;
    derived collections are adopted as the current object or not; refused calls (invalid / non-dividing
    timesteps, wrong lengths, strings, indices out of range, immutables, missing methods, unvalidated data,
    nothing on the grid) are caught and followed by further ops.
  * HISTORY oracle (`history`, `key_history`): independent of the model, the harness keeps the state the user has
    established (period, datetimes, values, flag) by its own bookkeeping; after every step the derived collection
    must satisfy the clause of the statement that speaks about it for THAT state, and the current object must
    show exactly that state (a refused op changed nothing; a derived collection did not touch its source).
    `key_history`: the same for Daily / Monthly / MonthlyPerHour collections (validate, setters, copies, flag
    through from_dict).
  * PROCESS ORDER (`order`): the fixed corpus and a slice of every generated stream are evaluated in 2 (quick) /
    4 (thorough) fresh interpreters, each in another order (rare classes first: leap, wrapping, sub-hourly,
    refused first call; shuffled; reversed).  A case that fails only after others is reported with the shortest
    order found by bisection; `replay('order', {'order': [...]})` re-runs it in a fresh interpreter.

Consumers of every modelled mechanism (each is exercised by a correspondence op or an oracle clause):
  _timestep_cull ............. cull_to_timestep, convert_to_culled_timestep (discontinuous, continuous, immutable
                               twins: cull / history ops cull, convcull)
  _xxrange ................... interpolate_holes (holes), interpolate_to_timestep (interp)
  validated flag ............. written by validate_analysis_period, cull_to_timestep, from_dict, to_discontinuous,
                               the continuous constructor, copied by duplicate / to_mutable / to_immutable / to_dict;
                               read by interpolate_holes (history ops in every order; validation must not read it)
  `_datetimes` slot (cont.) .. datetimes, _timestep_cull, to_discontinuous, written by convert_to_culled_timestep
                               (history template `slot`)
  data type time flags ....... cumulative / point_in_time -> divide / shift of interpolate_to_timestep (every
                               data type of ladybug.datatype, cumulative=None/True/False)
  VALIDTIMESTEPS ............. target check of both culls, timestep repair of hourly / mph validation, AnalysisPeriod
  AnalysisPeriod.datetimes ... continuous datetimes, interpolate_holes grid
  time_aggregated_factor ..... to_time_aggregated, to_time_rate_of_change (hourly, daily)
  sort + period repair ....... validate_analysis_period of the four classes, fresh and after any history
"""
import contextlib
import io
from datetime import datetime, timedelta
from fractions import Fraction

from harness.core import err_name, run_oracle_cases

PROP = 'C13'
PROOF_MODULES = ['Ladybug.Props.C13']
GREP_MODULES = ['Ladybug.Model.Resample', 'Ladybug.Model.ResampleObj', 'Ladybug.Proofs.C13Obj', 'Ladybug.Proofs.C13Lemmas', 'Ladybug.Proofs.C13Interp',
                'Ladybug.Proofs.C13Contain', 'Ladybug.Proofs.C13Holes', 'Ladybug.Drv.C13',
                'Ladybug.Model.AP', 'Ladybug.Model.Cal', 'Ladybug.Py', 'Ladybug.DrvCore']
RULE = ('correspondence: header periods from a boundary product (one day / few days / months / annual / '
        'wrapping the year end; hour windows full, partial, overnight; 8 timesteps; leap) x data = subsets '
        'of the annual grid placed inside, across the edges of and far from the header period (sizes '
        '0,1,2,3,10,50; thorough up to 500), shuffled, on the header grid / a finer grid / mixed minute '
        'offsets, ~8 % malformed (duplicates, empty, invalid target timesteps); hole patterns leading / '
        'trailing / interior / single / none on full-day periods incl. wrapping ones; refinement for every '
        'valid (source, target) timestep pair, every data type of ladybug.datatype (all cumulative types incl. '
        'the point-in-time ones) and cumulative=None/True/False; culling of sparse, dense and continuous '
        'sources incl. (current, target) timestep pairs where the target does not divide the current one; '
        'histories of 3-10 ops on one hourly collection (class x mutability x flag route x all 12 timesteps x leap / '
        'wrapping; templates flag_then_validate, slot, refused_first, twice, set_then_derive, random) and on the keyed '
        'classes; process-order runs in fresh interpreters; a case is non-trivial '
        'when the implementation returns a value; distinct = distinct (op, input)')
TRUSTED_BASE = [
    'hand-written object machine Model/ResampleObj.lean (hourly collections with the `_datetimes` slot, 13 ops, '
    'refusals): tied to the code by the history correspondence only',
    'hand-written model Model/Resample.lean of datacollection.py validate_analysis_period (4 classes), '
    'interpolate_holes, _xxrange, interpolate_to_timestep, _timestep_cull/cull_to_timestep and of the '
    'factor arithmetic of _time_aggregated_collection/_time_rate_of_change_collection: tied to the code '
    'by the correspondence run only',
    'Python sorted() on (DateTime, value) pairs is modelled as a stable sort on the minute of the year '
    '(all DateTimes of one collection carry one leap flag)',
    'interpolation is modelled over exact rationals; the float results of the code are compared with '
    'relative/absolute tolerance 1e-9 (values at source steps: exactly)',
    'the AnalysisPeriod constructor and enumeration are those of the C04 model (Model/AP.lean, theorems '
    'C04_*), DateTime fields those of the C08 model (Model/Cal.lean)',
    'unit conversion inside to_time_aggregated/to_time_rate_of_change (to_unit) belongs to C06; only the '
    'factor is modelled here',
]
ASSUMPTIONS = [
    'all DateTime objects of one hourly collection carry the same leap flag, equal to the header flag '
    '(theorems); the mixed case is only compared',
    'containment is judged by the C04 membership predicate of the output period',
    'hole filling is claimed for validated collections whose period has the hour window 0..23 '
    '(HourlyContinuousCollection accepts no other)',
]

ML = [31, 28, 31, 30, 31, 30, 31, 31, 30, 31, 30, 31]
VALID_TS = [1, 2, 3, 4, 5, 6, 10, 12, 15, 20, 30, 60]


# ---------------------------------------------------------------------------------------------
# plain-number helpers (stdlib calendar, not the code under test)


def _ny(leap):
    return 527040 if leap else 525600


def _mlen(leap, m):
    return 29 if (leap and m == 2) else ML[m - 1]


def _md_to_doy(leap, m, d):
    return sum(_mlen(leap, k) for k in range(1, m)) + d


def _moy_fields(leap, moy):
    r = datetime(2016 if leap else 2017, 1, 1) + timedelta(minutes=moy)
    return r.month, r.day, r.hour, r.minute


def _doy_to_md(leap, doy):
    r = datetime(2016 if leap else 2017, 1, 1) + timedelta(days=doy - 1)
    return r.month, r.day


def _b(x):
    return '1' if x else '0'


def _ap_line(ap):
    return '%d %d %d %d %d %d %d %s' % (ap[0], ap[1], ap[2], ap[3], ap[4], ap[5], ap[6], _b(ap[7]))


def _mk_ap(ap):
    from ladybug.analysisperiod import AnalysisPeriod
    return AnalysisPeriod(ap[0], ap[1], ap[2], ap[3], ap[4], ap[5], ap[6], bool(ap[7]))


def _ap_fields(a):
    return [a.st_month, a.st_day, a.st_hour, a.end_month, a.end_day, a.end_hour, a.timestep,
            bool(a.is_leap_year)]


def _show_ap(a):
    return _ap_line(_ap_fields(a))


def _mk_dt(leap, moy):
    from ladybug.dt import DateTime
    mo, da, h, mi = _moy_fields(leap, moy)
    return DateTime(mo, da, h, mi, leap)


LEGACY_KINDS = {'point': 'Temperature', 'cumulative': 'Energy', 'averaged': 'Power',
                'point_cumulative': 'Distance'}


def _type_of(kind):
    """Data type class for a kind: one of the four legacy names or any name of ladybug.datatype.TYPESDICT."""
    from ladybug.datatype import TYPESDICT
    return TYPESDICT[LEGACY_KINDS.get(kind, kind)]


def _kind_flags(kind):
    """(native cumulative, point in time) of the data type, read from the type itself."""
    t = _type_of(kind)()
    return bool(t.cumulative), bool(t.point_in_time)


def _all_type_names():
    """Names of every data type that can be instantiated, sorted; cumulative ones first."""
    from ladybug.datatype import TYPESDICT
    names = []
    for n in sorted(TYPESDICT):
        try:
            t = TYPESDICT[n]()
            t.units[0]
            names.append((not t.cumulative, n))
        except Exception:
            pass
    return [n for _, n in sorted(names)]


def _cumulative_type_names():
    return [n for n in _all_type_names() if _kind_flags(n)[0]]


def _header(ap, kind='point'):
    from ladybug.header import Header
    t = _type_of(kind)()
    return Header(t, t.units[0], _mk_ap(ap), {'k': 'v'})


# ---------------------------------------------------------------------------------------------
# generators


def _gen_period(rng, full_day=False, short=False):
    """Header period as 8 plain numbers (valid for the AnalysisPeriod constructor)."""
    leap = rng.random() < 0.3
    r = rng.random()
    if r < 0.12 and not short:
        sm, sd, em, ed = 1, 1, 12, 31
    else:
        if rng.random() < 0.5:
            sm, sd = rng.choice([(1, 1), (2, 28), (3, 1), (6, 21), (12, 30), (12, 31), (2, 27), (7, 31)])
        else:
            sm = rng.randrange(1, 13)
            sd = rng.randrange(1, _mlen(leap, sm) + 1)
        if leap and rng.random() < 0.1:
            sm, sd = 2, 29
        span = rng.choice([0, 0, 1, 2, 3, 7] if short else [0, 0, 1, 2, 5, 30, 200, 364])
        if rng.random() < 0.25:
            span = -rng.choice([1, 2, 30, 300] if not short else [358, 360, 362, 363])   # wraps the year end
        doy = (_md_to_doy(leap, sm, sd) - 1 + span) % (366 if leap else 365) + 1
        em, ed = _doy_to_md(leap, doy)
    if full_day:
        sh, eh = 0, 23
    else:
        sh, eh = rng.choice([(0, 23), (0, 23), (0, 23), (6, 18), (22, 4), (0, 12), (12, 23), (9, 9), (5, 4),
                             (1, 22)])
    ts = rng.choice([1, 1, 1, 2, 2, 3, 4, 6, 12, 60] if not short else [1, 1, 2, 3, 4, 6])
    if (sh, eh) != (0, 23):
        # Header.duplicate() enumerates a period with an hour window (6 us per step): keep those small
        nd = 366 if leap else 365
        days = (_md_to_doy(leap, em, ed) - _md_to_doy(leap, sm, sd)) % nd + 1
        if (em, ed, eh) != (sm, sd, sh) and days == 1 and eh < sh:
            days = nd
        while days * 24 * ts > 2500 and ts > 1:
            ts = max(t for t in VALID_TS if t < ts)
        if days * 24 * ts > 2500 and rng.random() < 0.9:
            doy = (_md_to_doy(leap, sm, sd) - 1 + rng.choice([0, 1, 3, 40, 90])) % nd + 1
            em, ed = _doy_to_md(leap, doy)
    return [sm, sd, sh, em, ed, eh, ts, leap]


def _gen_hourly_data(rng, ap, nmax):
    """Subset of the annual grid of steps as (moy, id) pairs, shuffled."""
    leap = ap[7]
    ny = _ny(leap)
    st = (_md_to_doy(leap, ap[0], ap[1]) - 1) * 1440
    en = (_md_to_doy(leap, ap[3], ap[4]) - 1) * 1440 + 1440
    n = rng.choice([1, 1, 2, 3, 5, 10, nmax])
    g = rng.random()
    if g < 0.55:
        grid = 60 // ap[6]
    elif g < 0.8:
        grid = 60 // rng.choice([1, 2, 4, 6, 60])
    else:
        grid = None                                   # mixed minute offsets
    moys = set()
    for _ in range(n):
        r = rng.random()
        if r < 0.45:
            span = (en - st) % ny or ny
            m = (st + rng.randrange(span)) % ny       # inside the date range
        elif r < 0.6:
            m = (st + rng.randrange(-2880, 0)) % ny   # just before the start day
        elif r < 0.75:
            m = (en + rng.randrange(0, 2880)) % ny    # just after the end day
        elif r < 0.85:
            m = rng.choice([0, ny - 60, ny - 1440, 59 * 1440, 60 * 1440, st % ny, (en - 60) % ny])
        else:
            m = rng.randrange(ny)
        if rng.random() < 0.5:
            h = rng.choice([0, 1, 23, 22, ap[2], ap[5], (ap[5] + 1) % 24, (ap[2] - 1) % 24])
            m = m // 1440 * 1440 + h * 60 + m % 60
        gg = grid if grid else 60 // rng.choice([1, 2, 3, 4, 6])
        m -= m % gg
        moys.add(m)
    moys = list(moys)
    rng.shuffle(moys)
    return [[m, i + 1] for i, m in enumerate(moys)]


def _gen_validate_hourly(ctx, count):
    rng = ctx.rng
    out = []
    for _ in range(count):
        ap = _gen_period(rng)
        data = _gen_hourly_data(rng, ap, ctx.n(50, 500))
        dl = ap[7]
        r = rng.random()
        tag = 'ok'
        if r < 0.03:
            data = []
            tag = 'empty'
        elif r < 0.08 and data:
            data.append([data[0][0], len(data) + 1])
            rng.shuffle(data)
            tag = 'duplicate'
        elif r < 0.14 and not ap[7]:
            # data carry the leap flag the header lacks
            dl = True
            if rng.random() < 0.6:
                data.append([59 * 1440 + rng.randrange(24) * 60, len(data) + 1])    # 29 Feb
            tag = 'leap_mix'
        out.append({'ap': ap, 'dl': dl, 'data': data, 'tag': tag})
    return out


def _gen_keys(ctx, kind, count):
    """Daily / monthly / monthly-per-hour validation cases."""
    rng = ctx.rng
    out = []
    for _ in range(count):
        ap = _gen_period(rng)
        leap = ap[7]
        n = rng.choice([1, 1, 2, 3, 5, 12, 40])
        keys = set()
        sdoy, edoy = _md_to_doy(leap, ap[0], ap[1]), _md_to_doy(leap, ap[3], ap[4])
        for _ in range(n):
            if kind == 'daily':
                r = rng.random()
                nd = 366 if leap else 365
                if r < 0.5:
                    k = (sdoy - 1 + rng.randrange(((edoy - sdoy) % nd) + 1)) % nd + 1
                elif r < 0.75:
                    k = (rng.choice([sdoy, edoy]) - 1 + rng.randrange(-3, 4)) % nd + 1
                else:
                    k = rng.randrange(1, nd + 1)
                if rng.random() < 0.03:
                    k = rng.choice([366, 365, 1, 60])
            elif kind == 'monthly':
                k = rng.randrange(1, 13) if rng.random() < 0.6 else \
                    (rng.choice([ap[0], ap[3]]) - 1 + rng.randrange(-1, 2)) % 12 + 1
            else:
                mo = rng.randrange(1, 13) if rng.random() < 0.6 else \
                    (rng.choice([ap[0], ap[3]]) - 1 + rng.randrange(-1, 2)) % 12 + 1
                h = rng.choice([0, 23, ap[2], ap[5], rng.randrange(24)])
                mi = 0 if rng.random() < 0.8 else rng.choice([15, 30, 45])
                k = (mo, h, mi)
            keys.add(k)
        keys = list(keys)
        rng.shuffle(keys)
        data = [[k, i + 1] for i, k in enumerate(keys)]
        tag = 'ok'
        r = rng.random()
        if r < 0.03:
            data, tag = [], 'empty'
        elif r < 0.08:
            data.append([data[0][0], len(data) + 1])
            rng.shuffle(data)
            tag = 'duplicate'
        elif r < 0.10 and kind == 'daily':
            data.append([rng.choice([0, 367, 400]), len(data) + 1])
            tag = 'bad_key'
        elif r < 0.12 and kind != 'daily':
            data.append([13 if kind == 'monthly' else (13, 5, 0), len(data) + 1])
            tag = 'bad_key'
        out.append({'ap': ap, 'data': [[list(k) if isinstance(k, tuple) else k, v] for k, v in data],
                    'tag': tag})
    return out


def _full_day_steps(ap):
    """Minutes of the year of every step of a period with the window 0..23, in period order."""
    leap = ap[7]
    ny = _ny(leap)
    st = (_md_to_doy(leap, ap[0], ap[1]) - 1) * 1440
    en = (_md_to_doy(leap, ap[3], ap[4]) - 1) * 1440 + 1440
    n = ((en - st - 1) % ny + 1) // (60 // ap[6])
    step = 60 // ap[6]
    return [(st + k * step) % ny for k in range(n)]


def _gen_holes(ctx, count):
    rng = ctx.rng
    out = []
    for _ in range(count):
        ap = _gen_period(rng, full_day=True, short=rng.random() < 0.9)
        if ap[:6] == [1, 1, 0, 12, 31, 23]:
            ap[6] = rng.choice([1, 2])
        if len(_full_day_steps(ap)) > 20000:
            ap[6] = 1
        steps = _full_day_steps(ap)
        n = len(steps)
        pat = rng.choice(['none', 'leading', 'trailing', 'interior', 'single', 'random', 'sparse', 'one_hole',
                          'both_ends'])
        if pat == 'none':
            keep = list(range(n))
        elif pat == 'leading':
            keep = list(range(rng.randrange(1, max(2, n // 2)), n))
        elif pat == 'trailing':
            keep = list(range(0, n - rng.randrange(1, max(2, n // 2))))
        elif pat == 'interior':
            a = rng.randrange(1, max(2, n - 2))
            b = rng.randrange(a, max(a + 1, n - 1))
            keep = [i for i in range(n) if i < a or i > b]
        elif pat == 'single':
            keep = [rng.randrange(n)]
        elif pat == 'one_hole':
            a = rng.randrange(n)
            keep = [i for i in range(n) if i != a]
        elif pat == 'both_ends':
            a = rng.randrange(0, max(1, n // 3))
            b = rng.randrange(max(a + 1, 2 * n // 3), n)
            keep = [i for i in range(a, b + 1) if rng.random() < 0.7 or i in (a, b)]
        elif pat == 'sparse':
            keep = sorted(rng.sample(range(n), min(n, rng.choice([2, 3, 5]))))
        else:
            p = rng.choice([0.2, 0.5, 0.8])
            keep = [i for i in range(n) if rng.random() < p] or [rng.randrange(n)]
        vals = [rng.randrange(-50, 200) * rng.choice([1, 1, 10]) for _ in keep]
        if rng.random() < 0.3:
            vals = [v + rng.choice([0.5, 0.25, 0.125]) for v in vals]
        data = [[steps[i], v] for i, v in zip(keep, vals)]
        validated = True
        tag = pat
        if rng.random() < 0.03:
            validated, tag = False, 'not_validated'
        out.append({'ap': ap, 'validated': validated, 'data': data, 'tag': tag})
    # a period with an hour window is rejected by the continuous collection
    for _ in range(max(2, count // 40)):
        ap = _gen_period(rng, short=True)
        if (ap[2], ap[5]) == (0, 23):
            ap[2] = 3
        try:
            st = (_md_to_doy(ap[7], ap[0], ap[1]) - 1) * 1440 + ap[2] * 60
        except Exception:
            continue
        out.append({'ap': ap, 'validated': True, 'data': [[st, 5]], 'tag': 'window'})
    return out


def _gen_interp(ctx, count):
    rng = ctx.rng
    out = []
    all_types, cum_types = _all_type_names(), _cumulative_type_names()
    for _ in range(count):
        ap = _gen_period(rng, full_day=True, short=True)
        ap[6] = rng.choice([1, 1, 1, 2, 3, 4, 6, 12])
        n = len(_full_day_steps(ap))
        if n > 2500:
            ap[3], ap[4] = ap[0], ap[1]
            n = len(_full_day_steps(ap))
        mult = [t for t in VALID_TS if t % ap[6] == 0]
        ts = rng.choice(mult)
        tag = 'ok'
        r = rng.random()
        if r < 0.04:
            ts, tag = rng.choice([t for t in (7, 8, 9, 16, 24) if t % ap[6] == 0] or [7 * ap[6]]), 'invalid_target'
        elif r < 0.08:
            ts, tag = ap[6] + 1, 'not_multiple'
        r2 = rng.random()
        if r2 < 0.4:
            kind = rng.choice(['point', 'cumulative', 'averaged', 'point_cumulative'])
        elif r2 < 0.8:
            kind = rng.choice(cum_types)          # every data type with cumulative=True, incl. point-in-time ones
        else:
            kind = rng.choice(all_types)
        cum = rng.choice([None, None, True, False])
        scale = rng.choice([1, 60, 3600])
        vals = [rng.randrange(-20, 100) * scale for _ in range(n)]
        if rng.random() < 0.2:
            vals = [v + rng.choice([0.5, 0.25]) for v in vals]
        out.append({'ap': ap, 'ts': ts, 'kind': kind, 'cum': cum, 'vals': vals, 'tag': tag})
    return out


NON_DIVISOR_PAIRS = [(cur, tgt) for cur in VALID_TS for tgt in VALID_TS if tgt < cur and cur % tgt != 0]


def _gen_cull(ctx, count):
    """Cull cases.  flavour 'sparse': a discontinuous subset (as for validation); 'dense': a
    discontinuous collection holding every step of a short whole-day period; 'cont': the same data as
    a HourlyContinuousCollection.  Dense/continuous sources are biased to (current, target) timestep
    pairs where the target does not divide the current timestep (6->4, 6->5, 12->5, 3->2 ...)."""
    rng = ctx.rng
    out = []
    for _ in range(count):
        r = rng.random()
        tag = 'ok'
        if r < 0.5:
            ap = _gen_period(rng)
            data = _gen_hourly_data(rng, ap, ctx.n(50, 300))
            ts = rng.choice(VALID_TS)
            flavour = 'sparse'
        else:
            ap = _gen_period(rng, full_day=True, short=True)
            q = rng.random()
            if q < 0.55:
                ap[6], ts = rng.choice(NON_DIVISOR_PAIRS)
            elif q < 0.8:
                ap[6] = rng.choice([2, 3, 4, 6, 12])
                ts = rng.choice([t for t in VALID_TS if ap[6] % t == 0])
            else:
                ap[6], ts = rng.choice([1, 2, 3, 4]), rng.choice(VALID_TS)     # incl. finer targets
            if len(_full_day_steps(ap)) > 700:
                ap[3], ap[4] = ap[0], ap[1]
            steps = _full_day_steps(ap)
            data = [[m, i + 1] for i, m in enumerate(steps)]
            flavour = 'cont' if rng.random() < 0.6 else 'dense'
        if rng.random() < 0.08:
            ts, tag = rng.choice([0, 7, 8, 24, 120]), 'invalid_target'
        out.append({'ap': ap, 'dl': ap[7], 'data': data, 'ts': ts, 'tag': tag, 'flavour': flavour,
                    'pair': 'divisor' if (ts and ap[6] % ts == 0) else 'non_divisor'})
    return out


# ---------------------------------------------------------------------------------------------
# implementation adapters (return the model's output format; exceptions -> err:<class>)


def _impl_vh(c):
    from ladybug.datacollection import HourlyDiscontinuousCollection
    coll = HourlyDiscontinuousCollection(_header(c['ap']), [v for _, v in c['data']],
                                         [_mk_dt(c['dl'], m) for m, _ in c['data']])
    v = coll.validate_analysis_period()
    return 'ok %s %d%s' % (_show_ap(v.header.analysis_period), len(v.values),
                           ''.join(' %d %d' % (d.moy, x) for d, x in zip(v.datetimes, v.values)))


def _impl_keys(cls_name):
    def run(c):
        import ladybug.datacollection as dc
        cls = getattr(dc, cls_name)
        keys = [tuple(k) if isinstance(k, list) else k for k, _ in c['data']]
        coll = cls(_header(c['ap']), [v for _, v in c['data']], keys)
        v = coll.validate_analysis_period()
        if cls_name == 'MonthlyPerHourCollection':
            items = ''.join(' %d-%d-%d %d' % (k[0], k[1], k[2], x) for k, x in zip(v.datetimes, v.values))
        else:
            items = ''.join(' %d %d' % (k, x) for k, x in zip(v.datetimes, v.values))
        return 'ok %s %d%s' % (_show_ap(v.header.analysis_period), len(v.values), items)
    return run


def _cull_source(c):
    from ladybug.datacollection import HourlyDiscontinuousCollection, HourlyContinuousCollection
    if c.get('flavour') == 'cont':
        return HourlyContinuousCollection(_header(c['ap']), [v for _, v in c['data']])
    return HourlyDiscontinuousCollection(_header(c['ap']), [v for _, v in c['data']],
                                         [_mk_dt(c['dl'], m) for m, _ in c['data']])


def _impl_cull(c):
    coll = _cull_source(c)
    v = coll.cull_to_timestep(c['ts'])
    return 'ok %s %d%s' % (_show_ap(v.header.analysis_period), len(v.values),
                           ''.join(' %d %d' % (d.moy, x) for d, x in zip(v.datetimes, v.values)))


def _impl_holes(c):
    from ladybug.datacollection import HourlyDiscontinuousCollection
    leap = c['ap'][7]
    coll = HourlyDiscontinuousCollection(_header(c['ap']), [float(v) for _, v in c['data']],
                                         [_mk_dt(leap, m) for m, _ in c['data']])
    coll._validated_a_period = bool(c['validated'])
    r = coll.interpolate_holes()
    return ('ok', None, list(r.values))


def _impl_interp(c):
    from ladybug.datacollection import HourlyContinuousCollection
    coll = HourlyContinuousCollection(_header(c['ap'], c['kind']), [float(v) for v in c['vals']])
    r = coll.interpolate_to_timestep(c['ts'], c['cum'])
    return ('ok', _show_ap(r.header.analysis_period), list(r.values))


def _rat(x):
    f = Fraction(x)
    return '%d' % f.numerator if f.denominator == 1 else '%d/%d' % (f.numerator, f.denominator)


def _line_items(data):
    return ''.join(' %d %d' % (m, v) for m, v in data)


def _compare_exact(ctx, op, cases, model_line, impl_fn):
    lines = [model_line(c) for c in cases]
    outs = ctx.driver().run(lines)
    for c, line, mo in zip(cases, lines, outs):
        try:
            io = impl_fn(c)
        except Exception as e:
            io = 'err:' + err_name(e)
        ctx.compared += 1
        ctx.count('op:' + op)
        ctx.count('%s:%s' % (op, c.get('tag', 'ok')))
        if 'flavour' in c:
            ctx.count('%s:%s:%s' % (op, c['flavour'], c.get('pair', '')))
        ctx.case((op, line), nontrivial=not io.startswith('err:'))
        if io.startswith('err:'):
            ctx.count('err_results')
        if mo != io:
            ctx.disagree(op, {'case': c, 'line': line}, mo[:600], io[:600])
    if cases:
        ctx.sample({'op': op, 'request': lines[0][:300], 'model': outs[0][:300]})


def _close(a, b):
    return abs(a - b) <= 1e-9 * max(1.0, abs(a), abs(b))


def _compare_num(ctx, op, cases, model_line, impl_fn):
    """Model answers exact rationals, the code floats: compare header text exactly and values
    within 1e-9 (relative, absolute below 1)."""
    lines = [model_line(c) for c in cases]
    outs = ctx.driver().run(lines)
    for c, line, mo in zip(cases, lines, outs):
        try:
            io = impl_fn(c)
        except Exception as e:
            io = 'err:' + err_name(e)
        ctx.compared += 1
        ctx.count('op:' + op)
        ctx.count('%s:%s' % (op, c.get('tag', 'ok')))
        ok_impl = not isinstance(io, str)
        ctx.case((op, line), nontrivial=ok_impl)
        if not ok_impl:
            ctx.count('err_results')
            if mo != io:
                ctx.disagree(op, {'case': c, 'line': line[:400]}, mo[:300], io)
            continue
        toks = mo.split(' ')
        good = toks[0] == 'ok'
        if good:
            k = 1
            if io[1] is not None:
                good = ' '.join(toks[1:9]) == io[1]
                k = 9
            if good:
                n = int(toks[k])
                mv = [Fraction(t) for t in toks[k + 1:]]
                good = n == len(mv) == len(io[2]) and all(_close(float(a), b) for a, b in zip(mv, io[2]))
        if not good:
            ctx.disagree(op, {'case': c, 'line': line[:400]}, mo[:400], repr(io)[:400])
    if cases:
        ctx.sample({'op': op, 'request': lines[0][:300], 'model': outs[0][:300]})


def _tick(ctx, what):
    import os
    import sys
    if os.environ.get('C13_TIMING'):
        sys.stderr.write('C13 %6.1fs %s\n' % (ctx.elapsed(), what))


def correspondence(ctx):
    # AnalysisPeriod prints 'Updated end_day ...' when it clips a day: keep the run's stdout clean
    _tick(ctx, 'correspondence starts')
    with contextlib.redirect_stdout(io.StringIO()):
        _correspondence(ctx)
    _tick(ctx, 'correspondence done')


def _correspondence(ctx):
    rng = ctx.rng
    # fixed corpus first
    corpus = [c for op, c in _corpus() if op == 'validate_hourly']
    cases = corpus + _gen_validate_hourly(ctx, ctx.n(800, 12000))
    _compare_exact(ctx, 'vh', cases,
                   lambda c: 'vh %s %s %d%s' % (_ap_line(c['ap']), _b(c['dl']), len(c['data']),
                                                 _line_items(c['data'])), _impl_vh)
    _tick(ctx, 'vh done')
    for kind, op, cls in (('daily', 'vd', 'DailyCollection'), ('monthly', 'vm', 'MonthlyCollection')):
        cases = _gen_keys(ctx, kind, ctx.n(500, 5000))
        _compare_exact(ctx, op, cases,
                       lambda c, op=op: '%s %s %d%s' % (op, _ap_line(c['ap']), len(c['data']),
                                                        _line_items(c['data'])), _impl_keys(cls))
    _tick(ctx, 'vd vm done')
    cases = _gen_keys(ctx, 'mph', ctx.n(500, 5000))
    _compare_exact(ctx, 'vp', cases,
                   lambda c: 'vp %s %d%s' % (_ap_line(c['ap']), len(c['data']),
                                             ''.join(' %d %d %d %d' % (k[0], k[1], k[2], v) for k, v in c['data'])),
                   _impl_keys('MonthlyPerHourCollection'))
    _tick(ctx, 'vp done')
    cases = [c for op, c in _corpus() if op == 'cull'] + _gen_cull(ctx, ctx.n(600, 5000))
    _compare_exact(ctx, 'cull', cases,
                   lambda c: 'cull %s %d %d%s' % (_ap_line(c['ap']), c['ts'], len(c['data']),
                                                  _line_items(c['data'])), _impl_cull)
    _tick(ctx, 'cull done')
    cases = [c for op, c in _corpus() if op == 'holes'] + _gen_holes(ctx, ctx.n(350, 3000))
    _compare_num(ctx, 'holes', cases,
                 lambda c: 'holes %s %s %d%s' % (_ap_line(c['ap']), _b(c['validated']), len(c['data']),
                                                 ''.join(' %d %s' % (m, _rat(v)) for m, v in c['data'])),
                 _impl_holes)
    _tick(ctx, 'holes done')
    cases = [c for op, c in _corpus() if op == 'interp'] + _gen_interp(ctx, ctx.n(350, 2500))
    _compare_num(ctx, 'interp', cases,
                 lambda c: 'interp %s %d %s %s %s %d%s' % (
                     _ap_line(c['ap']), c['ts'], 'N' if c['cum'] is None else _b(c['cum']),
                     _b(_kind_flags(c['kind'])[0]), _b(_kind_flags(c['kind'])[1]), len(c['vals']),
                     ''.join(' ' + _rat(v) for v in c['vals'])), _impl_interp)
    _corr_factor(ctx, rng)
    _tick(ctx, 'fresh-object correspondence done')
    # histories on one object: the Lean object machine step by step against the real object
    cases = [c for op, c in _corpus() if op == 'history'] + _gen_history(ctx, ctx.n(300, 3000))
    _compare_hist(ctx, cases)


def _corr_factor(ctx, rng):
    """to_time_aggregated / to_time_rate_of_change: value * (factor / timestep) and its inverse."""
    from ladybug.datacollection import HourlyContinuousCollection, DailyCollection
    from ladybug.header import Header
    from ladybug.datatype.power import Power
    from ladybug.datatype.energy import Energy
    from ladybug.datatype.speed import Speed
    from ladybug.datatype.distance import Distance
    lines, expect = [], []
    for _ in range(ctx.n(60, 600)):
        ts = rng.choice([1, 2, 4, 6])
        ap = [6, 21, 0, 6, 21, 23, ts, False]
        vals = [float(rng.randrange(0, 5000)) for _ in range(24 * ts)]
        rate_t, agg_t, u1, u2 = rng.choice([(Power, Energy, 'W', 'kWh'), (Speed, Distance, 'm/s', 'm')])
        factor = rate_t().time_aggregated_factor
        if rng.random() < 0.5:
            coll = HourlyContinuousCollection(Header(rate_t(), u1, _mk_ap(ap)), vals)
            got = coll.to_time_aggregated()
            op, want_unit, want_type = 'agg', u2, agg_t
        else:
            coll = HourlyContinuousCollection(Header(agg_t(), u2, _mk_ap(ap)), vals)
            got = coll.to_time_rate_of_change()
            op, want_unit, want_type = 'rate', u1, rate_t
        k = rng.randrange(len(vals))
        lines.append('%s %s %d %s' % (op, _rat(factor), ts, _rat(vals[k])))
        expect.append((op, got.values[k], got.header.unit == want_unit and isinstance(got.header.data_type, want_type)))
    # daily collections aggregate with timestep 1/24
    for _ in range(ctx.n(10, 100)):
        vals = [float(rng.randrange(0, 5000)) for _ in range(3)]
        coll = DailyCollection(Header(Power(), 'W', _mk_ap([1, 1, 0, 1, 3, 23, 1, False])), vals, [1, 2, 3])
        got = coll.to_time_aggregated()
        lines.append('agg %s 1/24 %s' % (_rat(Power().time_aggregated_factor), _rat(vals[1])))
        expect.append(('agg', got.values[1], got.header.unit == 'kWh'))
    outs = ctx.driver().run(lines)
    for line, mo, (op, val, hdr_ok) in zip(lines, outs, expect):
        ctx.compared += 1
        ctx.count('op:' + op)
        ctx.case((op, line))
        good = mo.startswith('ok ') and hdr_ok and _close(float(Fraction(mo[3:])), val)
        if not good:
            ctx.disagree(op, {'line': line}, mo, repr((val, hdr_ok)))


# ---------------------------------------------------------------------------------------------
# property oracle: the statement of C13 evaluated on the real code, independent of the model


def _contains(ap, leap_dt, moy):
    """Is the step (minute of the year, leap flag of its DateTime) a step of the period `ap`
    (AnalysisPeriod object)?  Written from the description of a period: grid, hour window, date
    range; cyclic for wrapping periods.  Returns None or the name of the criterion that fails."""
    if bool(ap.is_leap_year) != bool(leap_dt):
        return 'leap'
    step = 60 // ap.timestep
    if moy % step:
        return 'grid'
    mod = moy % 1440
    sh, eh = ap.st_hour, ap.end_hour
    if sh <= eh:
        win = (sh * 60 <= mod <= eh * 60) or (sh == 0 and eh == 23)
        if not win:
            return 'minute_after_end_hour' if (sh * 60 <= mod and mod // 60 == eh) else 'window'
    elif not (mod >= sh * 60 or mod <= eh * 60):
        return 'minute_after_end_hour' if mod // 60 == eh else 'window'
    st = (_md_to_doy(ap.is_leap_year, ap.st_month, ap.st_day) - 1) * 1440 + sh * 60
    en = (_md_to_doy(ap.is_leap_year, ap.end_month, ap.end_day) - 1) * 1440 + eh * 60
    if st <= en:
        ok = st <= moy < en + 60
    else:
        ok = moy >= st or moy < en + 60
    return None if ok else 'dates'


def _header_kind(ap):
    a = _mk_ap(ap)
    return 'rev' if a.is_reversed else ('annual' if a.is_annual else 'fwd')


def _check_validate_hourly(inp):
    from ladybug.datacollection import HourlyDiscontinuousCollection
    ap, dl, data = inp['ap'], inp['dl'], inp['data']
    sig = {'header': _header_kind(ap), 'window': 'full' if (ap[2], ap[5]) == (0, 23) else 'partial',
           'leap_mix': bool(dl) != bool(ap[7]), 'n': 'one' if len(data) == 1 else 'many'}
    moys = [m for m, _ in data]
    dup = len(set(moys)) != len(moys)
    coll = HourlyDiscontinuousCollection(_header(ap), [v for _, v in data], [_mk_dt(dl, m) for m, _ in data])
    try:
        v = coll.validate_analysis_period()
    except AssertionError as e:
        if dup:
            return None
        return {'required': 'validated collection', 'observed': 'AssertionError: %s' % e,
                'sig': dict(sig, fail='raise')}
    except Exception as e:
        return {'required': 'validated collection', 'observed': '%s: %s' % (type(e).__name__, e),
                'sig': dict(sig, fail='raise')}
    if dup:
        return {'required': 'duplicate datetimes rejected', 'observed': 'accepted', 'sig': dict(sig, fail='dup')}
    return _pred_validated(v, dl, data, sig)


def _pred_validated(v, dl, data, sig, header=('C', {'k': 'v'}, 'Temperature')):
    """The statement about a validated hourly collection `v` obtained from the pairs `data`
    ((moy, value); DateTime leap flag `dl`): same pairs, flagged, sorted from the period start,
    every datetime a step of the output period, header otherwise kept."""
    nap = v.header.analysis_period
    got = [(d.moy, bool(d.leap_year), x) for d, x in zip(v.datetimes, v.values)]
    if sorted(got) != sorted((m, bool(dl), x) for m, x in data) or len(v.values) != len(v.datetimes):
        return {'required': 'same (datetime, value) pairs', 'observed': str(got)[:300], 'sig': dict(sig, fail='pairs')}
    if not v.validated_a_period:
        return {'required': 'validated flag', 'observed': 'False', 'sig': dict(sig, fail='flag')}
    nleap = bool(nap.is_leap_year)
    ny = _ny(nleap)
    st = (_md_to_doy(nleap, nap.st_month, nap.st_day) - 1) * 1440 + nap.st_hour * 60
    keys = [(m - st) % ny for m, _, _ in got] if nap.is_reversed else [m for m, _, _ in got]
    if any(a >= b for a, b in zip(keys, keys[1:])):
        return {'required': 'chronological order from the period start', 'sig': dict(sig, fail='order'),
                'observed': '%s: %s' % (nap, [str(d) for d in v.datetimes][:12])}
    bad = [(str(d), _contains(nap, d.leap_year, d.moy)) for d in v.datetimes]
    bad = [b for b in bad if b[1]]
    if bad:
        causes = sorted(set(b[1] for b in bad))
        return {'required': 'every datetime is a step of the output period',
                'observed': '%s does not contain %s' % (nap, bad[:6]),
                'sig': dict(sig, fail='contain', cause='+'.join(causes))}
    hd = v.header
    if header and (hd.unit != header[0] or hd.metadata != header[1] or hd.data_type.name != header[2]):
        return {'required': 'header data type/unit/metadata kept', 'observed': str(hd), 'sig': dict(sig, fail='header')}
    return None


def _check_validate_keys(op, inp):
    import ladybug.datacollection as dc
    cls = {'validate_daily': dc.DailyCollection, 'validate_monthly': dc.MonthlyCollection,
           'validate_mph': dc.MonthlyPerHourCollection}[op]
    ap, data = inp['ap'], inp['data']
    keys = [tuple(k) if isinstance(k, list) else k for k, _ in data]
    sig = {'header': _header_kind(ap), 'n': 'one' if len(data) == 1 else 'many',
           'same_month': ap[0] == ap[3], 'window': 'full' if (ap[2], ap[5]) == (0, 23) else 'partial'}
    dup = len(set(keys)) != len(keys)
    coll = cls(_header(ap), [v for _, v in data], keys)
    try:
        v = coll.validate_analysis_period()
    except AssertionError as e:
        if dup:
            return None
        return {'required': 'validated collection', 'observed': 'AssertionError: %s' % e, 'sig': dict(sig, fail='raise')}
    except Exception as e:
        return {'required': 'validated collection', 'observed': '%s: %s' % (type(e).__name__, e),
                'sig': dict(sig, fail='raise')}
    if dup:
        return {'required': 'duplicates rejected', 'observed': 'accepted', 'sig': dict(sig, fail='dup')}
    return _pred_validated_keys(op, v, list(zip(keys, [x for _, x in data])), sig)


def _pred_validated_keys(op, v, pairs, sig):
    """The statement about a validated Daily / Monthly / MonthlyPerHour collection `v` obtained from
    the (key, value) pairs `pairs`."""
    nap = v.header.analysis_period
    got = list(zip(v.datetimes, v.values))
    if sorted(got) != sorted(pairs):
        return {'required': 'same (key, value) pairs', 'observed': str(got)[:300], 'sig': dict(sig, fail='pairs')}
    leap = bool(nap.is_leap_year)
    nd = 366 if leap else 365
    sdoy = _md_to_doy(leap, nap.st_month, nap.st_day)
    edoy = _md_to_doy(leap, nap.end_month, nap.end_day)
    if op == 'validate_daily':
        pos = [(k - sdoy) % nd for k in v.datetimes] if nap.is_reversed else list(v.datetimes)
        if nap.is_reversed and sdoy == edoy and pos and v.datetimes[-1] == sdoy:
            pos[-1] = nd              # a period that starts and ends on one day lists that day at both ends
        inside = [(1 <= k <= nd) and ((sdoy <= k <= edoy) if sdoy <= edoy and not nap.is_reversed
                                       else (k >= sdoy or k <= edoy)) for k in v.datetimes]
    elif op == 'validate_monthly':
        sm, em = nap.st_month, nap.end_month
        pos = [(k - sm) % 12 for k in v.datetimes] if nap.is_reversed else list(v.datetimes)
        inside = [(sm <= k <= em) if not nap.is_reversed else (k >= sm or k <= em) for k in v.datetimes]
    else:
        cause = 'other'
        sm, em, sh, eh = nap.st_month, nap.end_month, nap.st_hour, nap.end_hour
        pos = [(((k[0] - sm) % 12) if nap.is_reversed else k[0], k[1]) for k in v.datetimes]
        inside = []
        causes = set()
        for k in v.datetimes:
            mo_ok = (sm <= k[0] <= em) if not nap.is_reversed else (k[0] >= sm or k[0] <= em)
            h_ok = (sh <= k[1] <= eh) if sh <= eh else (k[1] >= sh or k[1] <= eh)
            grid_ok = k[2] % (60 // nap.timestep) == 0
            mi_ok = k[2] == 0 or k[1] != eh or (sh, eh) == (0, 23)
            inside.append(mo_ok and h_ok and grid_ok and mi_ok)
            if not (mo_ok and h_ok):
                causes.add('other')
            elif not grid_ok:
                causes.add('minute_grid')
            elif not mi_ok:
                causes.add('minute_after_end_hour')
        cause = '+'.join(sorted(causes))
    if op == 'validate_mph':
        pos = [p + (k[2],) for p, k in zip(pos, v.datetimes)]
        unordered = any(a >= b for a, b in zip(pos, pos[1:]))
    else:
        unordered = any(a >= b for a, b in zip(pos, pos[1:]))
    if unordered:
        return {'required': 'chronological order from the period start', 'sig': dict(sig, fail='order'),
                'observed': '%s: %s' % (nap, list(v.datetimes)[:14])}
    if not all(inside):
        if op == 'validate_mph':
            sig = dict(sig, cause=cause)
        return {'required': 'every key lies in the output period', 'sig': dict(sig, fail='contain'),
                'observed': '%s does not contain %s' % (nap, [k for k, ok in zip(v.datetimes, inside) if not ok][:8])}
    return None


def _check_holes(inp):
    from ladybug.datacollection import HourlyDiscontinuousCollection
    ap, data = inp['ap'], inp['data']
    leap = ap[7]
    steps = _full_day_steps(ap)
    pos = {m: i for i, m in enumerate(steps)}
    sig = {'header': _header_kind(ap), 'ts': 'hourly' if ap[6] == 1 else 'sub',
           'leading': data[0][0] != steps[0], 'via': inp.get('via', 'flag')}
    coll = HourlyDiscontinuousCollection(_header(ap), [float(v) for _, v in data],
                                         [_mk_dt(leap, m) for m, _ in data])
    if inp.get('via') == 'validate':
        coll = coll.validate_analysis_period()
        if _ap_fields(coll.header.analysis_period) != ap:
            return {'required': 'validation keeps a fitting header', 'observed': str(coll.header.analysis_period),
                    'sig': dict(sig, fail='validate')}
    else:
        coll._validated_a_period = True
    try:
        r = coll.interpolate_holes()
    except Exception as e:
        return {'required': 'continuous collection', 'observed': '%s: %s' % (type(e).__name__, e),
                'sig': dict(sig, fail='raise')}
    return _pred_holes(r, ap, data, sig)


def _pred_holes(r, ap, data, sig):
    """The statement about the hole-filled collection `r` of validated pairs `data` under the
    whole-day period `ap`: one value per step, source values kept, the rest between neighbours."""
    steps = _full_day_steps(ap)
    pos = {m: i for i, m in enumerate(steps)}
    out = list(r.values)
    if len(out) != len(steps) or _ap_fields(r.header.analysis_period) != ap:
        return {'required': 'one value per step (%d)' % len(steps), 'observed': len(out), 'sig': dict(sig, fail='length')}
    src = sorted((pos[m], float(v)) for m, v in data)
    for i, v in src:
        if out[i] != v:
            return {'required': 'source value %r at step %d' % (v, i), 'observed': out[i], 'sig': dict(sig, fail='source')}
    idx = [i for i, _ in src]
    for k in range(len(steps)):
        if k < idx[0]:
            want = (src[0][1], src[0][1])
        elif k > idx[-1]:
            want = (src[-1][1], src[-1][1])
        else:
            import bisect
            j = bisect.bisect_right(idx, k)
            a, b = src[j - 1][1], (src[j][1] if j < len(src) else src[j - 1][1])
            if idx[j - 1] == k:
                continue
            want = (min(a, b), max(a, b))
        tol = 1e-9 * max(1.0, abs(want[0]), abs(want[1]))
        if not (want[0] - tol <= out[k] <= want[1] + tol):
            return {'required': 'value at step %d between %r and %r' % (k, want[0], want[1]), 'observed': out[k],
                    'sig': dict(sig, fail='between', where='lead' if k < idx[0] else 'trail' if k > idx[-1] else 'hole')}
    return None


def _check_interp(inp):
    """Time semantics from the statement: data are treated as cumulative when the caller says so
    (cumulative=True/False) or, by default, when the data type is cumulative – then the total is
    conserved; otherwise point-in-time types keep their values at the original steps and the other
    (averaged) types keep their mean."""
    from ladybug.datacollection import HourlyContinuousCollection
    ap, ts, kind, vals = inp['ap'], inp['ts'], inp['kind'], inp['vals']
    cum = inp.get('cum')
    native_cum, pit = _kind_flags(kind)
    as_cum = native_cum if cum is None else bool(cum)
    r = ts // ap[6]
    sig = {'kind': kind, 'type_cumulative': native_cum, 'type_point_in_time': pit,
           'cum_arg': 'default' if cum is None else str(bool(cum)),
           'source': 'hourly' if ap[6] == 1 else 'sub', 'header': _header_kind(ap)}
    coll = HourlyContinuousCollection(_header(ap, kind), [float(v) for v in vals])
    try:
        new = coll.interpolate_to_timestep(ts, cum)
    except Exception as e:
        return {'required': 'refined collection', 'observed': '%s: %s' % (type(e).__name__, e), 'sig': dict(sig, fail='raise')}
    return _pred_interp(new, ap, ts, vals, as_cum, pit, sig)


def _pred_interp(new, ap, ts, vals, as_cum, pit, sig):
    """The statement about the refinement `new` of the continuous values `vals` (period `ap`) to
    timestep `ts`: totals of cumulative data, point-in-time values at the original steps, means."""
    r = ts // ap[6]
    out = list(new.values)
    if len(out) != len(vals) * r or new.header.analysis_period.timestep != ts:
        return {'required': '%d values at timestep %d' % (len(vals) * r, ts), 'observed': len(out), 'sig': dict(sig, fail='length')}
    if as_cum:
        a, b = sum(Fraction(x) for x in out), sum(Fraction(v) for v in vals)
        if abs(a - b) > Fraction(1, 10 ** 9) * max(1, abs(b), sum(abs(Fraction(v)) for v in vals)):
            return {'required': 'total %s' % float(b), 'observed': float(a), 'sig': dict(sig, fail='total')}
    elif pit:
        for k, v in enumerate(vals):
            if out[k * r] != float(v):
                return {'required': 'new[%d] == old[%d] == %r' % (k * r, k, v), 'observed': out[k * r], 'sig': dict(sig, fail='point')}
    else:
        a, b = sum(Fraction(x) for x in out) / len(out), sum(Fraction(v) for v in vals) / len(vals)
        if abs(a - b) > Fraction(1, 10 ** 9) * max(1, abs(b), max(abs(Fraction(v)) for v in vals)):
            return {'required': 'mean %s' % float(b), 'observed': float(a), 'sig': dict(sig, fail='mean')}
    return None


def _check_cull(inp):
    ap, dl, data, ts = inp['ap'], inp['dl'], inp['data'], inp['ts']
    sig = {'ts': ts, 'source_ts': ap[6], 'flavour': inp.get('flavour', 'sparse'),
           'pair': 'divisor' if ap[6] % ts == 0 else 'non_divisor'}
    want = [(m, x) for m, x in data if m % (60 // ts) == 0]
    for via in ('cull_to_timestep', 'convert_to_culled_timestep'):
        coll = _cull_source(inp)
        try:
            if via == 'cull_to_timestep':
                v = coll.cull_to_timestep(ts)
            else:
                coll.convert_to_culled_timestep(ts)
                v = coll
        except Exception as e:
            if via == 'cull_to_timestep' and isinstance(e, AssertionError) and not want:
                continue              # nothing is on the coarser grid: an empty collection cannot be built
            return {'required': 'culled collection', 'observed': '%s: %s' % (type(e).__name__, e),
                    'sig': dict(sig, fail='raise', via=via)}
        got = [(d.moy, x) for d, x in zip(v.datetimes, v.values)]
        if got != want:
            return {'required': 'exactly the steps on the %d-minute grid, in order' % (60 // ts),
                    'observed': str(got)[:300], 'sig': dict(sig, fail='kept', via=via)}
        na = _ap_fields(v.header.analysis_period)
        if na[6] != ts or na[:6] != ap[:6] or na[7] != ap[7]:
            return {'required': 'header timestep %d, period otherwise unchanged' % ts, 'observed': str(na),
                    'sig': dict(sig, fail='header', via=via)}
    return None


# ---------------------------------------------------------------------------------------------
# histories on ONE object (round 3): executor on the real classes, shared by the history
# correspondence (vs. the Lean object machine Model/ResampleObj.lean) and the history oracle


def _hist_build(inp):
    """The starting object of a history, built through the public constructors only."""
    from ladybug.datacollection import HourlyDiscontinuousCollection, HourlyContinuousCollection
    ap, kind = inp['ap'], inp.get('kind', 'point')
    vals = [float(v) for _, v in inp['data']]
    if inp['cls'] == 'cont':
        coll = HourlyContinuousCollection(_header(ap, kind), vals)
    else:
        coll = HourlyDiscontinuousCollection(_header(ap, kind), vals, [_mk_dt(ap[7], m) for m, _ in inp['data']])
        if inp.get('flag'):
            # a dictionary that claims to be validated (public route to the flag)
            d = coll.to_dict()
            d['validated_a_period'] = True
            coll = HourlyDiscontinuousCollection.from_dict(d)
    if inp.get('imm'):
        coll = coll.to_immutable()
    return coll


CUM_ARG = {'N': None, '0': False, '1': True, 'X': 1}


def _hist_apply(coll, op):
    """Run one op of a history on the real object.  -> (status, derived collection or None);
    status 'done' | 'res' | 'err:<class>'."""
    name = op[0]
    try:
        if name == 'read':
            coll.values, coll.header.analysis_period, coll.validated_a_period
            if op[1]:
                coll.datetimes
            return 'done', None
        if name == 'validate':
            return 'res', coll.validate_analysis_period()
        if name == 'cull':
            return 'res', coll.cull_to_timestep(op[1])
        if name == 'convcull':
            coll.convert_to_culled_timestep(op[1])
            return 'done', None
        if name == 'holes':
            return 'res', coll.interpolate_holes()
        if name == 'interp':
            return 'res', coll.interpolate_to_timestep(op[1], CUM_ARG[op[2]])
        if name == 'setvalues':
            coll.values = op[1] if isinstance(op[1], str) else [float(x) for x in op[1]]
            return 'done', None
        if name == 'setitem':
            coll[op[1]] = float(op[2])
            return 'done', None
        if name == 'dict':
            return 'res', type(coll).from_dict(coll.to_dict())
        if name in ('to_immutable', 'to_mutable', 'duplicate', 'to_discontinuous'):
            return 'res', getattr(coll, name)()
    except Exception as e:
        return 'err:' + err_name(e), None
    raise ValueError('unknown history op %r' % (op,))


ADOPTING = ('to_immutable', 'to_mutable', 'duplicate', 'to_discontinuous', 'dict')


def _adopts(op):
    return op[0] in ADOPTING or (op[0] in ('validate', 'cull', 'holes', 'interp') and bool(op[-1]))


def _hist_obs(coll, read_dt):
    """Public state of a collection; `datetimes` is read only on request (the read fills the lazily
    computed slot of a continuous collection, which is itself part of the history)."""
    from ladybug.datacollection import HourlyContinuousCollection
    o = {'cont': isinstance(coll, HourlyContinuousCollection), 'imm': not coll.is_mutable,
         'ap': _ap_fields(coll.header.analysis_period), 'validated': bool(coll.validated_a_period),
         'vals': list(coll.values), 'moys': None}
    if read_dt:
        dts = list(coll.datetimes)
        o['moys'] = [d.moy for d in dts]
        o['dleap'] = sorted(set(bool(d.leap_year) for d in dts))
    return o


def _hist_exec(inp):
    """-> list of (status, result obs or None, current obs) per step, or 'err:<class>' when the
    starting object cannot be built."""
    try:
        cur = _hist_build(inp)
    except Exception as e:
        return 'err:' + err_name(e)
    ops = inp['ops']
    trace = []
    for k, op in enumerate(ops):
        status, res = _hist_apply(cur, op)
        robs = None
        if status == 'res':
            adopt = _adopts(op)
            robs = _hist_obs(res, read_dt=not adopt)
            if adopt:
                cur = res
        read_dt = (op[0] == 'read' and bool(op[1])) or k == len(ops) - 1
        trace.append((status, robs, _hist_obs(cur, read_dt)))
    return trace


def _op_tokens(op):
    name = op[0]
    if name == 'read':
        return 'read %s' % _b(op[1])
    if name in ('validate', 'holes'):
        return '%s %s' % (name, _b(op[1]))
    if name == 'cull':
        return 'cull %d %s' % (op[1], _b(op[2]))
    if name == 'convcull':
        return 'convcull %d' % op[1]
    if name == 'interp':
        return 'interp %d %s %s' % (op[1], op[2], _b(op[3]))
    if name == 'setvalues':
        if isinstance(op[1], str):
            return 'setvalues S'
        return 'setvalues %d%s' % (len(op[1]), ''.join(' ' + _rat(v) for v in op[1]))
    if name == 'setitem':
        return 'setitem %d %s' % (op[1], _rat(op[2]))
    return name


def _hist_line(c):
    nc, pit = _kind_flags(c.get('kind', 'point'))
    return 'hist %s %s %s %s %s %s %d%s %s' % (
        _b(c['cls'] == 'cont'), _b(c.get('imm')), _ap_line(c['ap']), _b(c.get('flag')), _b(nc), _b(pit),
        len(c['data']), ''.join(' %d %s' % (m, _rat(v)) for m, v in c['data']),
        ' '.join(_op_tokens(op) for op in c['ops']))


def _parse_obs(toks, k):
    """<cont> <imm> <ap 8> <validated> <n> rat*n <k> moy*k  ->  (obs, next index)."""
    cont, imm = toks[k] == '1', toks[k + 1] == '1'
    ap = [int(t) for t in toks[k + 2:k + 9]] + [toks[k + 9] == '1']
    validated = toks[k + 10] == '1'
    n = int(toks[k + 11])
    vals = [Fraction(t) for t in toks[k + 12:k + 12 + n]]
    k2 = k + 12 + n
    m = int(toks[k2])
    moys = [int(t) for t in toks[k2 + 1:k2 + 1 + m]]
    return {'cont': cont, 'imm': imm, 'ap': ap, 'validated': validated, 'vals': vals, 'moys': moys}, k2 + 1 + m


def _parse_hist(mo):
    """Model answer of a `hist` request -> list of (status, result obs or None, current obs)."""
    out = []
    for part in mo[3:].split(' | '):
        a, b = part.split(' ; ')
        at = a.split(' ')
        robs = None
        status = at[0]
        if status == 'res':
            robs, _ = _parse_obs(at, 1)
        cobs, _ = _parse_obs(b.split(' '), 0)
        out.append((status, robs, cobs))
    return out


def _obs_diff(model, impl):
    """First field in which the model's and the implementation's public state differ (the
    datetimes only when the implementation's were read)."""
    if impl is None or model is None:
        return None if impl is model else 'result'
    for f in ('cont', 'imm', 'ap', 'validated'):
        if model[f] != impl[f]:
            return f
    if len(model['vals']) != len(impl['vals']) or \
            not all(_close(float(a), b) for a, b in zip(model['vals'], impl['vals'])):
        return 'values'
    if impl['moys'] is not None:
        if model['moys'] != impl['moys']:
            return 'datetimes'
        if impl['dleap'] not in ([], [bool(model['ap'][7])]):
            return 'datetime_leap'
    return None


def _compare_hist(ctx, cases):
    """History correspondence: the Lean object machine and the real object run the same op list; the
    answer of every step and the public state after every step are compared."""
    lines = [_hist_line(c) for c in cases]
    outs = ctx.driver().run(lines)
    for c, line, mo in zip(cases, lines, outs):
        trace = _hist_exec(c)
        ctx.compared += 1
        ctx.count('op:hist')
        ctx.count('hist:init:%s%s%s' % (c['cls'], ':imm' if c.get('imm') else '', ':flag' if c.get('flag') else ''))
        ctx.count('hist:ts:%d' % c['ap'][6])
        ctx.count('hist:template:%s' % c.get('tag', '?'))
        ctx.case(('hist', line), nontrivial=not isinstance(trace, str))
        if isinstance(trace, str) or not mo.startswith('ok '):
            if mo != trace:
                ctx.disagree('hist', {'case': c, 'line': line[:600]}, mo[:300], str(trace)[:300])
            continue
        mt = _parse_hist(mo)
        bad = None
        if len(mt) != len(trace):
            bad = ('length', len(mt), len(trace))
        for k, ((ms, mr, mc), (st, ro, co)) in enumerate(zip(mt, trace)):
            if bad:
                break
            op = c['ops'][k]
            ctx.count('hist:op:%s' % op[0])
            if st.startswith('err:'):
                ctx.count('hist:refused:%s' % op[0])
            ms_ = ms if ms.startswith('err:') else ('res' if ms == 'res' else 'done')
            if ms_ != st:
                bad = (k, op, 'answer', ms, st)
            else:
                d = _obs_diff(mr, ro) if st == 'res' else None
                if d:
                    bad = (k, op, 'result.' + d, str(mr)[:200], str(ro)[:200])
                else:
                    d = _obs_diff(mc, co)
                    if d:
                        bad = (k, op, 'state.' + d, str(mc)[:200], str(co)[:200])
        if bad:
            ctx.disagree('hist', {'case': c, 'line': line[:600], 'step': str(bad[:3])}, str(bad[3])[:300],
                         str(bad[4])[:300] if len(bad) > 4 else '')
    if cases:
        ctx.sample({'op': 'hist', 'request': lines[0][:300], 'model': outs[0][:300]})


# --- history oracle: the statement of C13 along a history, independent of the model -------------


def _spec_coherent(P):
    """A continuous collection whose datetimes are the steps of its whole-day period, one value each."""
    return (P['ap'][2], P['ap'][5]) == (0, 23) and len(P['vals']) == len(P['moys']) and \
        P['moys'] == _full_day_steps(P['ap'])


def _spec_holes_ready(P):
    """Validated pairs under a whole-day period: on its steps, in period order, flag set."""
    if not P['validated'] or (P['ap'][2], P['ap'][5]) != (0, 23) or not P['moys'] or \
            len(P['vals']) != len(P['moys']):
        return False
    pos = {m: i for i, m in enumerate(_full_day_steps(P['ap']))}
    idx = [pos.get(m) for m in P['moys']]
    return None not in idx and all(a < b for a, b in zip(idx, idx[1:]))


def _spec_diff(cur, P, read_dt):
    """What of the public state of `cur` differs from the state the user has established."""
    try:
        o = _hist_obs(cur, read_dt)
    except Exception as e:
        return 'read raises %s: %s' % (type(e).__name__, e), None
    if o['ap'] != P['ap']:
        return 'period', o['ap']
    if len(o['vals']) != len(P['vals']) or not all(_close(a, b) for a, b in zip(P['vals'], o['vals'])):
        return 'values', o['vals'][:12]
    if o['validated'] != P['validated']:
        return 'flag', o['validated']
    if read_dt and o['moys'] != P['moys']:
        return 'datetimes', o['moys'][:12]
    if read_dt and o['dleap'] not in ([], [bool(P['ap'][7])]):
        return 'datetime_leap', o['dleap']
    return None


def _known_validate(sig):
    """Is this failure of the validation predicate one of the recorded findings?"""
    from harness import core
    s = dict(sig, op='validate_hourly')
    return any(core.matches(s, k) for k in core.load_known(PROP))


def _check_history(inp):
    """One history on one object.  After every step: (1) a derived collection satisfies the clause
    of the statement that speaks about it, for the pairs the user has established so far; (2) the
    current object shows exactly the established state – in particular an op that raised has
    changed nothing, and a derived collection has not touched its source."""
    cls, ap = inp['cls'], inp['ap']
    kind = inp.get('kind', 'point')
    native_cum, pit = _kind_flags(kind)
    t = _type_of(kind)()
    hdr = (t.units[0], {'k': 'v'}, t.name)
    P = {'cont': cls == 'cont', 'ap': list(ap), 'moys': [m for m, _ in inp['data']],
         'vals': [float(v) for _, v in inp['data']], 'validated': cls == 'cont' or bool(inp.get('flag'))}
    sig0 = {'cls': cls, 'imm': bool(inp.get('imm')), 'flag': bool(inp.get('flag'))}
    try:
        cur = _hist_build(inp)
    except Exception as e:
        return {'required': 'collection is built', 'observed': '%s: %s' % (type(e).__name__, e),
                'sig': dict(sig0, fail='build')}
    d = _spec_diff(cur, P, True)
    if d:
        return {'required': 'new collection shows the data it was given', 'observed': '%s: %s' % d,
                'sig': dict(sig0, fail='build:' + d[0])}
    prev = 'init'
    ops = inp['ops']
    for k, op in enumerate(ops):
        name = op[0]
        status, res = _hist_apply(cur, op)
        refused = status.startswith('err:')
        sig = dict(sig0, step=name, prev=prev, refused=refused, cont=P['cont'])
        where = 'step %d %s after %s' % (k, op if name != 'setvalues' else ['setvalues', '...'], [o[0] for o in ops[:k]])

        def fail(what, required, observed):
            return {'required': '%s: %s' % (where, required), 'observed': str(observed)[:300],
                    'sig': dict(sig, fail=what)}
        pairs = list(zip(P['moys'], P['vals']))
        coherent = _spec_coherent(P) if P['cont'] else (len(P['moys']) == len(P['vals']) and len(pairs) > 0)
        newP = None
        if name == 'validate':
            if P['cont']:
                if refused and coherent:
                    return fail('raise', 'validated copy', status)
                if not refused:
                    got = [(dt.moy, x) for dt, x in zip(res.datetimes, res.values)]
                    if got != pairs or _ap_fields(res.header.analysis_period) != P['ap']:
                        return fail('pairs', 'the same pairs under the same period', got[:12])
                    newP = dict(P)
            elif pairs:
                dup = len(set(P['moys'])) != len(P['moys'])
                if refused and not dup:
                    return fail('raise', 'validated collection', status)
                if not refused:
                    if dup:
                        return fail('dup', 'duplicate datetimes rejected', 'accepted')
                    vsig = dict(sig, header=_header_kind(P['ap']), n='one' if len(pairs) == 1 else 'many', leap_mix=False,
                                window='full' if (P['ap'][2], P['ap'][5]) == (0, 23) else 'partial')
                    f = _pred_validated(res, P['ap'][7], pairs, vsig, header=hdr)
                    if f and not _known_validate(f['sig']):
                        return fail('validate:' + f['sig'].get('fail', '?'), f['required'], f['observed'])
                    newP = {'cont': False, 'ap': _ap_fields(res.header.analysis_period),
                            'moys': [dt.moy for dt in res.datetimes], 'vals': list(res.values), 'validated': True}
        elif name in ('cull', 'convcull'):
            ts = op[1]
            if ts in VALID_TS and len(P['moys']) == len(P['vals']):
                want = [(m, x) for m, x in pairs if m % (60 // ts) == 0]
                mutable_ok = name == 'cull' or not inp_imm(cur)
                if refused and want and mutable_ok:
                    return fail('raise', 'culled collection', status)
                if not refused:
                    v = res if name == 'cull' else cur
                    got = [(dt.moy, x) for dt, x in zip(v.datetimes, v.values)]
                    na = _ap_fields(v.header.analysis_period)
                    if got != want or len(v.values) != len(v.datetimes):
                        return fail('kept', 'exactly the steps on the %d-minute grid, in order' % (60 // ts), got[:12])
                    if na != P['ap'][:6] + [ts, P['ap'][7]]:
                        return fail('header', 'header timestep %d, period otherwise unchanged' % ts, na)
                    newP = {'cont': False if name == 'cull' else P['cont'], 'ap': na,
                            'moys': [m for m, _ in want], 'vals': [x for _, x in want],
                            'validated': True if name == 'cull' else P['validated']}
            elif not refused and name == 'convcull' and ts not in VALID_TS:
                return fail('accepted', 'an invalid timestep is refused', _ap_fields(cur.header.analysis_period))
            elif not refused and name == 'convcull':
                # a continuous collection whose values no longer pair up with its datetimes (in-place cull to a
                # non-dividing timestep, then new values): nothing is claimed; go on from what it shows now
                o = _hist_obs(cur, True)
                newP = {'cont': o['cont'], 'ap': o['ap'], 'moys': o['moys'], 'vals': o['vals'],
                        'validated': o['validated']}
        elif name == 'holes':
            if P['cont']:
                if not refused:
                    got = [(dt.moy, x) for dt, x in zip(res.datetimes, res.values)]
                    if got != pairs or _ap_fields(res.header.analysis_period) != P['ap']:
                        return fail('pairs', 'the same pairs under the same period', got[:12])
                    newP = dict(P)
                elif coherent:
                    return fail('raise', 'copy of the continuous collection', status)
            elif _spec_holes_ready(P):
                if refused:
                    return fail('raise', 'continuous collection', status)
                f = _pred_holes(res, P['ap'], pairs, sig)
                if f:
                    return fail('holes:' + f['sig'].get('fail', '?'), f['required'], f['observed'])
                newP = {'cont': True, 'ap': list(P['ap']), 'moys': _full_day_steps(P['ap']),
                        'vals': list(res.values), 'validated': True}
            elif not refused:
                # not a validated collection: nothing is claimed about the values
                newP = {'cont': True, 'ap': _ap_fields(res.header.analysis_period),
                        'moys': [dt.moy for dt in res.datetimes], 'vals': list(res.values), 'validated': True}
        elif name == 'interp':
            ts, cum = op[1], CUM_ARG[op[2]]
            legal = P['cont'] and coherent and ts in VALID_TS and ts % P['ap'][6] == 0 and op[2] != 'X'
            if legal:
                if refused:
                    return fail('raise', 'refined collection', status)
                as_cum = native_cum if cum is None else bool(cum)
                f = _pred_interp(res, P['ap'], ts, P['vals'], as_cum, pit, sig)
                if f:
                    return fail('interp:' + f['sig'].get('fail', '?'), f['required'], f['observed'])
                nap = P['ap'][:6] + [ts, P['ap'][7]]
                if _ap_fields(res.header.analysis_period) != nap:
                    return fail('header', 'period with timestep %d' % ts, _ap_fields(res.header.analysis_period))
                newP = {'cont': True, 'ap': nap, 'moys': _full_day_steps(nap), 'vals': list(res.values),
                        'validated': True}
            elif not refused:
                newP = {'cont': True, 'ap': _ap_fields(res.header.analysis_period),
                        'moys': [dt.moy for dt in res.datetimes], 'vals': list(res.values), 'validated': True}
        elif name == 'setvalues':
            if not refused:
                if isinstance(op[1], str) or (not P['cont'] and len(op[1]) != len(P['moys'])) or not op[1]:
                    return fail('accepted', 'values that do not fit the datetimes are refused', len(op[1]))
                P = dict(P, vals=[float(x) for x in op[1]])
            elif not inp_imm(cur) and not isinstance(op[1], str) and op[1] and \
                    len(op[1]) == (len(_full_day_steps(P['ap'])) if P['cont'] and (P['ap'][2], P['ap'][5]) == (0, 23)
                                   else len(P['moys'])):
                return fail('raise', 'values accepted', status)
        elif name == 'setitem':
            n = len(P['vals'])
            if not refused:
                if not -n <= op[1] < n:
                    return fail('accepted', 'index outside the collection is refused', op[1])
                vals = list(P['vals'])
                vals[op[1]] = float(op[2])
                P = dict(P, vals=vals)
            elif -n <= op[1] < n and not inp_imm(cur):
                return fail('raise', 'value assigned', status)
        elif name in ADOPTING:
            legal = coherent and (name != 'to_discontinuous' or P['cont'])
            if refused and legal:
                return fail('raise', 'copy of the collection', status)
            if not refused:
                newP = dict(P)
                if name == 'to_discontinuous':
                    newP['cont'], newP['validated'] = False, True
        # adoption
        if not refused and status == 'res' and _adopts(op):
            cur = res
            if newP is None:     # nothing was claimed about the result: take it as the new established state
                try:
                    o = _hist_obs(res, True)
                    newP = {'cont': o['cont'], 'ap': o['ap'], 'moys': o['moys'], 'vals': o['vals'],
                            'validated': o['validated']}
                except Exception as e:
                    return fail('read', 'derived collection can be read', '%s: %s' % (type(e).__name__, e))
            P = newP
        elif not refused and name == 'convcull' and newP is not None:
            P = newP
        read_dt = (name == 'read' and bool(op[1])) or k == len(ops) - 1
        d = _spec_diff(cur, P, read_dt)
        if d:
            return fail('state:' + d[0],
                        'the collection shows the state established so far (%s)' % (
                            'the refused op changed nothing' if refused else 'period %s, %d values' % (P['ap'], len(P['vals']))),
                        '%s: %s' % d)
        prev = name
    return None


def inp_imm(coll):
    try:
        return not coll.is_mutable
    except Exception:
        return False


# --- history generator -------------------------------------------------------------------------

BAD_TS = [0, 7, 8, 24, 120]


def _gen_history(ctx, count):
    """Histories on one hourly collection.  Strata (all counted): class x mutability x flag route;
    every valid timestep; leap / wrapping periods; templates `flag_then_validate` (an op that sets
    the validated flag, then validation), `slot` (datetimes read before / after an in-place cull of
    a continuous collection), `refused_first`, `twice` (the same and different questions asked of one
    object), `set_then_derive`, `random`."""
    rng = ctx.rng
    out = []
    for _ in range(count):
        cls = 'cont' if rng.random() < 0.45 else 'disc'
        ap = _gen_period(rng, full_day=(cls == 'cont' or rng.random() < 0.8), short=True)
        if cls == 'cont' or rng.random() < 0.5:
            ap[6] = rng.choice(VALID_TS if rng.random() < 0.5 else [1, 2, 3, 4, 6])
        if (ap[2], ap[5]) == (0, 23):
            if len(_full_day_steps(ap)) > 300:
                ap[3], ap[4] = ap[0], ap[1]
            if len(_full_day_steps(ap)) > 500:
                ap[6] = rng.choice([4, 6, 10, 12])
        steps = _full_day_steps(ap) if (ap[2], ap[5]) == (0, 23) else None
        flag = False
        if cls == 'cont':
            shape = 'cont'
            moys = steps
        else:
            shape = rng.choice(['sparse', 'sparse', 'holey', 'holey', 'dense']) if steps else 'sparse'
            if shape == 'sparse':
                moys = _gen_local_moys(rng, ap, rng.choice([1, 2, 3, 5, 10, 30]))
                flag = rng.random() < 0.3
            elif shape == 'holey':
                p = rng.choice([0.3, 0.6, 0.9])
                keep = [i for i in range(len(steps)) if rng.random() < p] or [rng.randrange(len(steps))]
                moys = [steps[i] for i in keep]
                flag = rng.random() < 0.5
                if rng.random() < 0.3:
                    rng.shuffle(moys)
            else:
                moys = list(steps)
                flag = rng.random() < 0.5
        half = rng.random() < 0.25
        data = [[m, (i + 1) * rng.choice([1, 1, 3]) + (0.5 if half else 0)] for i, m in enumerate(moys)]
        if rng.random() < 0.15:
            data = [[m, 0] for m, _ in data]                       # all-zero values
        kind = rng.choice(['point', 'cumulative', 'averaged', 'point_cumulative'])
        imm = rng.random() < 0.25
        c = {'cls': cls, 'imm': imm, 'ap': ap, 'flag': flag, 'kind': kind, 'data': data}
        c['ops'], c['tag'] = _gen_ops(rng, c)
        out.append(c)
    return out


def _gen_local_moys(rng, ap, n):
    """Unsorted subset of the annual grid in and closely around the header period (at most a day
    outside a non-wrapping one), so that the validated period stays small enough for hole filling."""
    leap = ap[7]
    ny = _ny(leap)
    st = (_md_to_doy(leap, ap[0], ap[1]) - 1) * 1440
    en = (_md_to_doy(leap, ap[3], ap[4]) - 1) * 1440 + 1440
    wraps = en <= st
    span = (en - st) % ny or ny
    grid = 60 // ap[6] if rng.random() < 0.6 else None
    moys = set()
    for _ in range(n):
        r = rng.random()
        if r < 0.7 or wraps:
            m = (st + rng.randrange(span)) % ny
        elif r < 0.85:
            m = max(0, st - rng.randrange(1, 1441))
        else:
            m = min(ny - 1, en + rng.randrange(0, 1440))
        if rng.random() < 0.4:
            h = rng.choice([0, 1, 23, 22, ap[2], ap[5], (ap[5] + 1) % 24, (ap[2] - 1) % 24])
            m = m // 1440 * 1440 + h * 60 + m % 60
        g = grid if grid else 60 // rng.choice([1, 2, 3, 4, 6])
        moys.add(m - m % g)
    moys = list(moys)
    rng.shuffle(moys)
    return moys


def _gen_ops(rng, c):
    cls, ap, n = c['cls'], c['ap'], len(c['data'])
    ts0 = ap[6]
    cont = cls == 'cont'
    coarser = [t for t in VALID_TS if t < ts0] or [1]
    finer = [t for t in VALID_TS if t % ts0 == 0 and t * n <= 3000] or [ts0]

    def a_ts(valid=0.85):
        if rng.random() > valid:
            return rng.choice(BAD_TS)
        r = rng.random()
        if r < 0.5:
            return rng.choice(coarser)
        if r < 0.7:
            return ts0
        return rng.choice(VALID_TS)

    def a_vals(k):
        base = rng.randrange(100, 200)
        return [base + i * rng.choice([1, 2]) for i in range(k)]

    def rand_op():
        r = rng.random()
        if r < 0.14:
            return ['read', rng.random() < 0.6]
        if r < 0.30:
            return ['validate', rng.random() < 0.5]
        if r < 0.42:
            return ['cull', a_ts(), rng.random() < 0.4]
        if r < 0.54:
            return ['convcull', a_ts()]
        if r < 0.62:
            return ['holes', rng.random() < 0.4]
        if r < 0.72:
            t = rng.choice(finer) if rng.random() < 0.75 else rng.choice([0, 7, ts0 + 1, 8 * ts0, 24])
            return ['interp', t, rng.choice(['N', 'N', '0', '1', 'X'] if rng.random() < 0.3 else ['N', '0', '1']),
                    rng.random() < 0.3]
        if r < 0.82:
            q = rng.random()
            if q < 0.55:
                return ['setvalues', a_vals(n)]
            if q < 0.7:
                return ['setvalues', a_vals(max(0, n + rng.choice([-1, 1, -n])))]
            if q < 0.8:
                return ['setvalues', 'abc']
            return ['setvalues', a_vals(rng.choice([1, 2, 24, 48]))]
        if r < 0.88:
            i = rng.choice([0, -1, n - 1, -n, n, -n - 1, rng.randrange(max(1, n))])
            return ['setitem', i, rng.randrange(500, 600)]
        return [rng.choice(['to_immutable', 'to_mutable', 'duplicate', 'to_discontinuous', 'dict'])]

    t = rng.random()
    if t < 0.18:
        tag = 'flag_then_validate'
        first = rng.choice([['cull', rng.choice(coarser + [ts0]), True], ['dict'], ['to_immutable'], ['duplicate'],
                            ['to_discontinuous'], ['convcull', rng.choice(coarser + [ts0])]])
        ops = [first, ['validate', rng.random() < 0.7], ['read', True], ['holes', False]]
    elif t < 0.34:
        tag = 'slot'
        ops = ([['read', True]] if rng.random() < 0.6 else []) + \
            [['convcull', rng.choice(coarser + [ts0] + VALID_TS)], ['read', True], rand_op(), ['read', True]]
    elif t < 0.5:
        tag = 'refused_first'
        bad = rng.choice([['convcull', rng.choice(BAD_TS)], ['cull', rng.choice(BAD_TS), True],
                          ['setvalues', a_vals(n + 1)], ['setvalues', []], ['setvalues', 'abc'],
                          ['setitem', n, 7], ['setitem', -n - 1, 7], ['interp', ts0 + 1, 'N', True],
                          ['interp', rng.choice(finer), 'X', True], ['interp', 0, 'N', True],
                          ['interp', 7 * ts0, 'N', True], ['holes', True], ['to_discontinuous'],
                          ['cull', 60 if ts0 < 60 else 7, True]])
        ops = [bad, ['read', rng.random() < 0.5], rand_op(), rand_op()]
    elif t < 0.64:
        tag = 'twice'
        q = rng.random()
        if cont and q < 0.5:
            a, b = rng.choice(finer), rng.choice(finer)
            ca, cb = rng.choice(['N', '0', '1']), rng.choice(['N', '0', '1'])
            ops = [['interp', a, ca, False], ['interp', b, cb, False], ['interp', a, ca, False]]
        elif q < 0.75:
            a, b = a_ts(1), a_ts(1)
            ops = [['cull', a, False], ['cull', b, False], ['read', True], ['cull', a, False]]
        else:
            ops = [['validate', False], ['holes', False], ['validate', False], ['validate', True], ['holes', False],
                   ['validate', False]]
    elif t < 0.78:
        tag = 'set_then_derive'
        ops = [['setvalues', a_vals(n)], rng.choice([['validate', False], ['holes', False], ['cull', a_ts(1), False],
                                                      ['interp', rng.choice(finer), 'N', False]]),
               ['setitem', rng.randrange(-n, n), 999], rng.choice([['validate', True], ['cull', a_ts(1), True],
                                                                   ['interp', rng.choice(finer), 'N', True]]),
               ['read', True]]
    else:
        tag = 'random'
        ops = []
    ops = ops + [rand_op() for _ in range(rng.randrange(1, 5) if tag != 'random' else rng.randrange(3, 9))]
    return ops[:10], tag


# --- histories of the three keyed classes (oracle only) ----------------------------------------

KEY_CLASSES = {'validate_daily': 'DailyCollection', 'validate_monthly': 'MonthlyCollection',
               'validate_mph': 'MonthlyPerHourCollection'}


def _gen_key_history(ctx, count):
    rng = ctx.rng
    out = []
    for _ in range(count):
        kind = rng.choice(['daily', 'monthly', 'mph'])
        c = _gen_keys(ctx, kind, 1)[0]
        if c['tag'] != 'ok' or (kind == 'daily' and not c['ap'][7] and any(k == 366 for k, _ in c['data'])):
            continue
        n = len(c['data'])
        ops = []
        for _ in range(rng.randrange(2, 7)):
            r = rng.random()
            if r < 0.4:
                ops.append(['validate', rng.random() < 0.6])
            elif r < 0.55:
                ops.append(['setvalues', [100 + i for i in range(n + rng.choice([0, 0, 0, 1, -1]))]])
            elif r < 0.65:
                ops.append(['setitem', rng.choice([0, -1, n, -n - 1]), 777])
            elif r < 0.75:
                ops.append(['setvalues', rng.choice(['abc', []])])
            else:
                ops.append([rng.choice(['to_immutable', 'to_mutable', 'duplicate', 'dict'])])
        ops.append(['validate', False])
        out.append({'op': {'daily': 'validate_daily', 'monthly': 'validate_monthly', 'mph': 'validate_mph'}[kind],
                    'ap': c['ap'], 'data': c['data'], 'flag': rng.random() < 0.4, 'imm': rng.random() < 0.25,
                    'ops': ops})
    return out


def _check_key_history(inp):
    """History on a Daily / Monthly / MonthlyPerHour collection: validation must hold for the
    (key, value) pairs established so far, wherever the validated flag came from; a refused
    assignment changes nothing."""
    import ladybug.datacollection as dc
    op = inp['op']
    cls = getattr(dc, KEY_CLASSES[op])
    keys = [tuple(k) if isinstance(k, list) else k for k, _ in inp['data']]
    vals = [float(v) for _, v in inp['data']]
    sig0 = {'class': KEY_CLASSES[op], 'flag': bool(inp.get('flag')), 'imm': bool(inp.get('imm'))}
    try:
        cur = cls(_header(inp['ap']), vals, keys)
        if inp.get('flag'):
            d = cur.to_dict()
            d['validated_a_period'] = True
            cur = cls.from_dict(d)
        if inp.get('imm'):
            cur = cur.to_immutable()
    except Exception as e:
        return {'required': 'collection is built', 'observed': '%s: %s' % (type(e).__name__, e),
                'sig': dict(sig0, fail='build')}
    P = {'ap': _ap_fields(cur.header.analysis_period), 'keys': list(keys), 'vals': list(vals)}
    prev = 'init'
    for k, o in enumerate(inp['ops']):
        name = o[0]
        sig = dict(sig0, step=name, prev=prev)
        where = 'step %d %s after %s' % (k, name, [x[0] for x in inp['ops'][:k]])
        res = None
        try:
            if name == 'validate':
                res = cur.validate_analysis_period()
            elif name == 'setvalues':
                cur.values = o[1] if isinstance(o[1], str) else [float(x) for x in o[1]]
            elif name == 'setitem':
                cur[o[1]] = float(o[2])
            elif name == 'dict':
                res = type(cur).from_dict(cur.to_dict())
            else:
                res = getattr(cur, name)()
            refused = False
        except Exception as e:
            refused, err = True, '%s: %s' % (type(e).__name__, e)
        n = len(P['keys'])
        if name == 'validate':
            ksig = dict(sig, header=_header_kind(P['ap']), n='one' if n == 1 else 'many', same_month=P['ap'][0] == P['ap'][3],
                        window='full' if (P['ap'][2], P['ap'][5]) == (0, 23) else 'partial')
            f = _pred_validated_keys(op, res, list(zip(P['keys'], P['vals'])), ksig) if not refused else \
                (None if len(set(P['keys'])) != n else
                 {'required': 'validated collection', 'observed': err, 'sig': dict(sig, fail='raise')})
            if f:
                s = dict(f['sig'], op=op)
                from harness import core
                if not any(core.matches(s, kf) for kf in core.load_known(PROP)):
                    return {'required': '%s: %s' % (where, f['required']), 'observed': f['observed'],
                            'sig': dict(sig, fail='validate:' + str(f['sig'].get('fail')))}
            if not refused and o[1]:
                cur = res
                P = {'ap': _ap_fields(res.header.analysis_period), 'keys': list(res.datetimes), 'vals': list(res.values)}
        elif name == 'setvalues' and not refused:
            if isinstance(o[1], str) or len(o[1]) != n:
                return {'required': where + ': values that do not fit the keys are refused', 'observed': 'accepted',
                        'sig': dict(sig, fail='accepted')}
            P = dict(P, vals=[float(x) for x in o[1]])
        elif name == 'setitem' and not refused:
            v = list(P['vals'])
            v[o[1]] = float(o[2])
            P = dict(P, vals=v)
        elif not refused and res is not None:
            cur = res
        got = (_ap_fields(cur.header.analysis_period), list(cur.datetimes), list(cur.values))
        if got != (P['ap'], P['keys'], P['vals']):
            return {'required': '%s: the collection shows the state established so far%s' % (
                        where, ' (the refused op changed nothing)' if refused else ''),
                    'observed': str(got)[:300], 'sig': dict(sig, fail='state', refused=refused)}
        prev = name
    return None


# --- process-order independence: slices of the oracle stream in fresh interpreters --------------


def _order_worker_main():
    """Entry point of a fresh interpreter: evaluates the cases read from stdin in the given order
    and prints the failures (index, op, result) as JSON."""
    import json
    import sys
    from harness import core
    sys.path.insert(0, core.REPO)
    cases = json.load(sys.stdin)['cases']
    fails = []
    with contextlib.redirect_stdout(io.StringIO()):
        for i, (op, inp) in enumerate(cases):
            try:
                res = check_case(op, inp)
            except Exception as e:
                res = {'required': 'oracle evaluates', 'observed': 'exception %s: %s' % (type(e).__name__, e),
                       'sig': {'exception': type(e).__name__}}
            if res:
                fails.append([i, op, res])
    sys.stdout.write(json.dumps(fails, default=str))


def _order_spawn(cases):
    import json
    import os
    import subprocess
    import sys
    from harness import core
    env = dict(os.environ, LADYBUG_REPO=core.REPO, PYTHONPATH=core.ROOT + os.pathsep + os.environ.get('PYTHONPATH', ''))
    p = subprocess.Popen([sys.executable, '-c', 'import harness.props.c13 as m; m._order_worker_main()'],
                         stdin=subprocess.PIPE, stdout=subprocess.PIPE, stderr=subprocess.PIPE, cwd=core.ROOT, env=env)
    p.stdin.write(json.dumps({'cases': cases}, default=str).encode())
    p.stdin.close()
    return p


def _order_collect(p):
    import json
    out = p.stdout.read()
    err = p.stderr.read()
    p.wait()
    if p.returncode != 0:
        return [[-1, 'worker', {'required': 'worker process finishes', 'observed': err.decode()[-400:],
                                'sig': {'fail': 'worker'}}]]
    return json.loads(out.decode() or '[]')


def _order_unknown(fails):
    """Failures of a worker that are not recorded findings."""
    from harness import core
    known = core.load_known(PROP)
    return [f for f in fails if not any(core.matches(dict(f[2].get('sig') or {}, op=f[1]), k) for k in known)]


def _order_run(cases):
    return _order_unknown(_order_collect(_order_spawn(cases)))


def _check_order(inp):
    """Replay of an order-dependent failure: the listed cases are evaluated in this order in ONE fresh
    interpreter; the last one must pass (as it does when it is evaluated first)."""
    fails = _order_run(inp['order'])
    if not fails:
        return None
    i, op, res = fails[-1]
    return {'required': 'case %d (%s) passes after the %d cases before it as it does in a fresh process: %s' % (
                i, op, i, res.get('required')),
            'observed': res.get('observed'), 'sig': dict(res.get('sig') or {}, order=True, inner_op=op)}


def _rarity(case):
    """Sort key that puts the rare classes first: leap, wrapping, sub-hourly, refused first step."""
    op, inp = case
    ap = inp.get('ap') or [1, 1, 0, 12, 31, 23, 1, False]
    wrap = (ap[3], ap[4]) < (ap[0], ap[1])
    first_bad = bool(inp.get('ops')) and inp['ops'][0][0] in ('convcull', 'setvalues', 'setitem', 'interp')
    return (not ap[7], not wrap, ap[6] == 1, not first_bad)


def _order_pool(ctx):
    """The slice of the oracle stream that is run in fresh interpreters: the whole fixed corpus and
    a few generated cases of every op, histories included."""
    k = 25 if (ctx.quick and not ctx.searching) else 120
    pool = [(op, c) for op, c in _corpus()]
    pool += [('validate_hourly', {'ap': c['ap'], 'dl': c['dl'], 'data': c['data']})
             for c in _gen_validate_hourly(ctx, 2 * k) if c['tag'] in ('ok', 'duplicate')]
    for kind, op in (('daily', 'validate_daily'), ('monthly', 'validate_monthly'), ('mph', 'validate_mph')):
        pool += [(op, {'ap': c['ap'], 'data': c['data']}) for c in _gen_keys(ctx, kind, k)
                 if c['tag'] in ('ok', 'duplicate') and not (kind == 'daily' and not c['ap'][7] and
                                                             any(x == 366 for x, _ in c['data']))]
    pool += [('holes', {'ap': c['ap'], 'data': c['data'], 'via': 'flag'}) for c in _gen_holes(ctx, k)
             if c['tag'] not in ('not_validated', 'window')]
    pool += [('interp', {'ap': c['ap'], 'ts': c['ts'], 'kind': c['kind'], 'cum': c['cum'], 'vals': c['vals']})
             for c in _gen_interp(ctx, k) if c['tag'] == 'ok']
    pool += [('cull', {'ap': c['ap'], 'dl': c['dl'], 'data': c['data'], 'ts': c['ts'], 'flavour': c['flavour']})
             for c in _gen_cull(ctx, k) if c['tag'] == 'ok']
    pool += [('history', c) for c in _gen_history(ctx, 3 * k)]
    pool += [('key_history', c) for c in _gen_key_history(ctx, k)]
    return pool


def _order_stage(ctx, pool):
    """Run the pool of (op, input) cases in 2 (quick) / 4 (thorough) fresh interpreters, each in a
    different order; every case that fails there and is not a recorded finding is reported: as a
    plain failure when it also fails alone in a fresh interpreter, else with the order that makes
    it fail (shortened by bisection)."""
    rng = ctx.rng
    orders = []
    a = sorted(range(len(pool)), key=lambda i: _rarity(pool[i]))
    orders.append(('rare_first', a))
    b = list(range(len(pool)))
    rng.shuffle(b)
    orders.append(('shuffled', b))
    if not ctx.quick or ctx.searching:
        orders.append(('rare_last', a[::-1]))
        c = list(range(len(pool)))
        rng.shuffle(c)
        orders.append(('shuffled2', c))
    procs = [(name, idx, _order_spawn([pool[i] for i in idx])) for name, idx in orders]
    reported = set()
    for name, idx, p in procs:
        fails = _order_unknown(_order_collect(p))
        ctx.count('order_cases:' + name, len(idx))
        ctx.count('order_run:' + name)
        for pos, op, res in fails[:3]:
            if pos < 0:
                ctx.fail('order', {'order': []}, res.get('required'), res.get('observed'), res.get('sig'))
                continue
            case = pool[idx[pos]]
            key = idx[pos]
            if key in reported:
                continue
            reported.add(key)
            alone = _order_run([case])
            if alone:
                r = alone[0][2]
                ctx.fail(case[0], case[1], r.get('required'), r.get('observed'), r.get('sig'))
                continue
            prefix = [pool[i] for i in idx[:pos]]
            lo, hi = 0, len(prefix)              # smallest prefix length that still makes the case fail
            while lo < hi:
                mid = (lo + hi) // 2
                if _order_run(prefix[:mid] + [case]):
                    hi = mid
                else:
                    lo = mid + 1
            short = prefix[:lo]
            if short and _order_run([short[-1], case]):
                short = [short[-1]]
            order = short + [case]
            r = _check_order({'order': order}) or {'required': res.get('required'), 'observed': res.get('observed'),
                                                   'sig': dict(res.get('sig') or {}, order=True, inner_op=op)}
            ctx.fail('order', {'order': order, 'run': name}, r.get('required'), r.get('observed'), r.get('sig'))


def check_case(op, inp):
    if op == 'validate_hourly':
        return _check_validate_hourly(inp)
    if op in ('validate_daily', 'validate_monthly', 'validate_mph'):
        return _check_validate_keys(op, inp)
    if op == 'holes':
        return _check_holes(inp)
    if op == 'interp':
        return _check_interp(inp)
    if op == 'cull':
        return _check_cull(inp)
    if op == 'history':
        return _check_history(inp)
    if op == 'key_history':
        return _check_key_history(inp)
    if op == 'order':
        return _check_order(inp)
    raise ValueError('unknown op ' + op)


replay = check_case


def _corpus():
    """Fixed corpus: the inputs of the repaired defects and of the recorded findings."""
    return [
        # single value (repaired: fixes/C13_single_value_validation.patch)
        ('validate_hourly', {'ap': [1, 1, 0, 12, 31, 23, 1, False], 'dl': False, 'data': [[246240, 1]], 'tag': 'ok'}),
        ('validate_hourly', {'ap': [6, 21, 6, 6, 21, 18, 1, False], 'dl': False, 'data': [[246240 + 1380, 1]], 'tag': 'ok'}),
        ('validate_daily', {'ap': [1, 1, 0, 12, 31, 23, 1, False], 'data': [[5, 1]]}),
        ('validate_monthly', {'ap': [1, 1, 0, 12, 31, 23, 1, False], 'data': [[3, 1]]}),
        ('validate_mph', {'ap': [1, 1, 0, 12, 31, 23, 1, False], 'data': [[[3, 4, 0], 1]]}),
        # mixed minute offsets :20 and :30 (repaired: validate_timestep_all_datetimes)
        ('validate_hourly', {'ap': [6, 21, 0, 6, 21, 23, 1, False], 'dl': False,
                             'data': [[246240 + 20, 1], [246240 + 90, 2]], 'tag': 'ok'}),
        # wrapping header, sub-hourly data in the last hour (repaired: validate_reversed_subhourly_tail)
        ('validate_hourly', {'ap': [12, 30, 0, 1, 2, 23, 2, False], 'dl': False,
                             'data': [[2 * 1440 - 30, 1], [363 * 1440, 2], [60, 3]], 'tag': 'ok'}),
        # recorded findings
        ('validate_hourly', {'ap': [6, 21, 0, 6, 21, 12, 4, False], 'dl': False,
                             'data': [[246840, 1], [247425, 2]], 'tag': 'ok'}),
        ('validate_hourly', {'ap': [12, 30, 0, 1, 2, 12, 1, False], 'dl': False,
                             'data': [[2340, 1], [217440, 2]], 'tag': 'ok'}),
        # sub-hourly keys: header timestep kept / repaired (repaired: monthly_keeps_timestep_leap, mph_fits_timestep)
        ('validate_mph', {'ap': [1, 1, 0, 12, 31, 23, 2, False], 'data': [[[3, 4, 30], 1], [[3, 4, 0], 2]]}),
        ('validate_mph', {'ap': [1, 1, 0, 12, 31, 23, 1, True], 'data': [[[3, 4, 20], 1], [[3, 4, 30], 2]]}),
        ('validate_mph', {'ap': [1, 1, 0, 6, 30, 12, 2, False], 'data': [[[3, 12, 30], 1], [[3, 4, 0], 2]]}),
        # wrapping header inside one month (repaired: monthly_wrapping_same_month)
        ('validate_monthly', {'ap': [1, 15, 0, 1, 14, 23, 1, False], 'data': [[1, 1], [2, 2], [7, 3], [10, 4], [11, 5]]}),
        ('validate_mph', {'ap': [7, 31, 0, 7, 30, 23, 1, False], 'data': [[[4, 23, 0], 1]]}),
        ('validate_mph', {'ap': [12, 30, 9, 1, 2, 9, 1, True], 'data': [[[5, 9, 0], 1], [[1, 23, 0], 2]]}),
        # a repeated (month, hour, minute) key separated by another minute (repaired: mph_sort_full_key)
        ('validate_mph', {'ap': [1, 1, 0, 12, 31, 23, 4, False],
                          'data': [[[5, 9, 0], 1], [[5, 9, 45], 2], [[5, 9, 0], 3]]}),
        # holes: data from the period start with an interior hole (repaired: interpolate_holes_first_hole)
        ('holes', {'ap': [1, 1, 0, 1, 1, 23, 1, False], 'validated': True, 'tag': 'interior',
                   'data': [[0, 0], [60, 10], [240, 40], [300, 50], [1380, 230]]}),
        # holes through the year end (repaired: interpolate_holes_year_wrap)
        ('holes', {'ap': [12, 31, 0, 1, 1, 23, 1, False], 'validated': True, 'tag': 'interior',
                   'data': [[364 * 1440 + 600, 10], [120, 40]]}),
        ('holes', {'ap': [12, 31, 0, 1, 1, 23, 1, False], 'validated': True, 'tag': 'leading',
                   'data': [[120, 40], [180, 50]]}),
        # culling a continuous / dense source to a timestep that does not divide the current one
        ('cull', {'ap': [7, 14, 0, 7, 14, 23, 6, False], 'dl': False, 'ts': 4, 'flavour': 'cont',
                  'data': [[(194 * 1440) + 10 * k, k + 1] for k in range(144)]}),
        ('cull', {'ap': [7, 14, 0, 7, 14, 23, 12, False], 'dl': False, 'ts': 5, 'flavour': 'cont',
                  'data': [[(194 * 1440) + 5 * k, k + 1] for k in range(288)]}),
        ('cull', {'ap': [7, 14, 0, 7, 14, 23, 3, False], 'dl': False, 'ts': 2, 'flavour': 'dense',
                  'data': [[(194 * 1440) + 20 * k, k + 1] for k in range(72)]}),
        # refinement of a sub-hourly source (repaired: interpolate_to_timestep_ratio)
        ('interp', {'ap': [1, 1, 0, 1, 1, 23, 2, False], 'ts': 4, 'kind': 'cumulative', 'cum': None,
                    'vals': [60 * k for k in range(48)], 'tag': 'ok'}),
        # every cumulative data type with the default cumulative=None, incl. those that are also point-in-time
        ('interp', {'ap': [6, 21, 0, 6, 21, 23, 1, False], 'ts': 4, 'kind': 'LiquidPrecipitationDepth', 'cum': None,
                    'vals': [60 * (k % 5) for k in range(24)], 'tag': 'ok'}),
        ('interp', {'ap': [6, 21, 0, 6, 21, 23, 2, False], 'ts': 6, 'kind': 'Volume', 'cum': None,
                    'vals': [36 * (k % 7) for k in range(48)], 'tag': 'ok'}),
        ('interp', {'ap': [6, 21, 0, 6, 21, 23, 1, False], 'ts': 2, 'kind': 'Mass', 'cum': None,
                    'vals': [10 * (k % 3) for k in range(24)], 'tag': 'ok'}),
        ('interp', {'ap': [6, 21, 0, 6, 21, 23, 1, False], 'ts': 2, 'kind': 'Temperature', 'cum': True,
                    'vals': [10 * (k % 3) for k in range(24)], 'tag': 'ok'}),
        ('interp', {'ap': [6, 21, 0, 6, 21, 23, 1, False], 'ts': 2, 'kind': 'Energy', 'cum': False,
                    'vals': [10 * (k % 3) for k in range(24)], 'tag': 'ok'}),
        ('interp', {'ap': [1, 1, 0, 1, 1, 23, 1, False], 'ts': 3, 'kind': 'averaged', 'cum': None,
                    'vals': [3600 * (k % 7) for k in range(24)], 'tag': 'ok'}),
    ] + _corpus_histories()


def _corpus_histories():
    """Fixed histories, one per class of order / failure-path / slot dependence."""
    d621 = 171 * 1440
    unsorted = [[d621 + 1440 + 600, 22], [d621 + 750, 21.5], [d621 + 540, 19], [d621 - 1440 + 480, 18], [d621 + 570, 19.5]]
    day = [6, 21, 0, 6, 21, 23, 1, False]
    base = {'cls': 'disc', 'imm': False, 'ap': day, 'flag': False, 'kind': 'point', 'data': unsorted, 'tag': 'corpus'}
    cont6 = {'cls': 'cont', 'imm': False, 'ap': [6, 21, 0, 6, 21, 23, 6, False], 'flag': False, 'kind': 'point',
             'data': [[d621 + 10 * k, k + 1] for k in range(144)], 'tag': 'corpus'}
    leap2 = {'cls': 'cont', 'imm': False, 'ap': [2, 28, 0, 3, 1, 23, 2, True], 'flag': False, 'kind': 'cumulative',
             'data': [[58 * 1440 + 30 * k, (k * 7) % 13] for k in range(144)], 'tag': 'corpus'}
    wrap = {'cls': 'disc', 'imm': False, 'ap': [12, 31, 0, 1, 1, 23, 1, False], 'flag': False, 'kind': 'point',
            'data': [[120, 40], [364 * 1440 + 600, 10], [180, 50]], 'tag': 'corpus'}
    hs = [
        # an op that sets the validated flag without sorting, then validation (and hole filling)
        dict(base, ops=[['cull', 1, True], ['validate', True], ['read', True], ['holes', False]]),
        dict(base, flag=True, ops=[['validate', True], ['read', True], ['holes', False]]),
        dict(base, ops=[['to_immutable'], ['cull', 2, True], ['dict'], ['validate', False], ['validate', True]]),
        dict(base, ops=[['validate', False], ['validate', True], ['validate', True], ['holes', True], ['read', True]]),
        # refused in-place ops, then ordinary ones
        dict(base, ops=[['convcull', 7], ['read', True], ['setvalues', [1, 2]], ['setitem', 5, 1], ['validate', True],
                        ['convcull', 1], ['read', True]]),
        dict(base, data=[[d621 + 510, 1], [d621 + 570, 2]], ops=[['cull', 1, True], ['convcull', 1], ['read', True],
                                                                  ['validate', False], ['setvalues', []]]),
        # the datetimes slot of a continuous collection around an in-place cull
        dict(cont6, ops=[['read', True], ['convcull', 4], ['read', True], ['cull', 2, False], ['validate', False],
                         ['to_discontinuous'], ['validate', True]]),
        dict(cont6, ops=[['convcull', 2], ['read', True], ['interp', 4, 'N', False], ['interp', 6, '1', True],
                         ['read', True], ['convcull', 3], ['read', True]]),
        dict(cont6, imm=True, ops=[['convcull', 2], ['setitem', 0, 5], ['read', True], ['cull', 4, False],
                                   ['interp', 12, 'N', False], ['to_mutable'], ['convcull', 1], ['read', True]]),
        # the same object asked for several refinements, leap year, cumulative data
        dict(leap2, ops=[['interp', 4, 'N', False], ['interp', 6, '0', False], ['interp', 4, 'N', False],
                         ['interp', 7, 'N', False], ['interp', 4, 'X', False], ['setitem', -1, 99],
                         ['interp', 4, 'N', True], ['cull', 2, True], ['read', True]]),
        # wrapping period: validate, fill, cull
        dict(wrap, ops=[['validate', True], ['holes', True], ['read', True], ['cull', 1, False], ['interp', 2, 'N', True],
                        ['convcull', 1], ['read', True]]),
    ]
    return [('history', h) for h in hs]


def _oracle_cases(ctx):
    rng = ctx.rng
    big = ctx.searching or not ctx.quick
    for op, c in _corpus():
        yield op, c
    for c in _gen_validate_hourly(ctx, 8000 if big else 1000):
        if c['tag'] in ('empty',):
            continue
        if c['tag'] == 'leap_mix':
            continue                       # outside the quantifier (header with the wrong leap flag)
        yield 'validate_hourly', {'ap': c['ap'], 'dl': c['dl'], 'data': c['data']}
    for kind, op in (('daily', 'validate_daily'), ('monthly', 'validate_monthly'), ('mph', 'validate_mph')):
        for c in _gen_keys(ctx, kind, 3000 if big else 400):
            if c['tag'] in ('empty', 'bad_key'):
                continue
            if kind == 'daily' and not c['ap'][7] and any(k == 366 for k, _ in c['data']):
                continue                   # header with the wrong leap flag: outside the quantifier
            yield op, {'ap': c['ap'], 'data': c['data']}
    for c in _gen_holes(ctx, 2000 if big else 300):
        if c['tag'] in ('not_validated', 'window'):
            continue
        via = 'validate' if rng.random() < 0.4 else 'flag'
        data = list(c['data'])
        if via == 'validate' and _header_kind(c['ap']) != 'annual':
            # validation keeps a header that already fits when the first and the last day hold data
            rng.shuffle(data)
        elif via == 'validate':
            rng.shuffle(data)
        yield 'holes', {'ap': c['ap'], 'data': c['data'] if via == 'flag' else data, 'via': via}
    # every data type x cumulative=None/True/False on one small day (deterministic sweep)
    for i, name in enumerate(_all_type_names()):
        src = [1, 2, 3][i % 3]
        tgt = {1: [2, 3, 4], 2: [4, 6], 3: [6, 12]}[src][i % 2]
        nv = 24 * src
        for cum in (None, True, False):
            yield 'interp', {'ap': [6, 21, 0, 6, 21, 23, src, False], 'ts': tgt, 'kind': name, 'cum': cum,
                             'vals': [3600 * ((k * 7 + i) % 11) for k in range(nv)]}
    for c in _gen_interp(ctx, 1500 if big else 350):
        if c['tag'] != 'ok':
            continue
        yield 'interp', {'ap': c['ap'], 'ts': c['ts'], 'kind': c['kind'], 'cum': c['cum'], 'vals': c['vals']}
    for c in _gen_cull(ctx, 3000 if big else 400):
        if c['tag'] != 'ok':
            continue
        yield 'cull', {'ap': c['ap'], 'dl': c['dl'], 'data': c['data'], 'ts': c['ts'], 'flavour': c['flavour']}
    for c in _gen_history(ctx, 3000 if big else 450):
        ctx.count('oracle_hist:template:%s' % c.pop('tag', '?'))
        ctx.count('oracle_hist:init:%s%s%s' % (c['cls'], ':imm' if c['imm'] else '', ':flag' if c['flag'] else ''))
        yield 'history', c
    for c in _gen_key_history(ctx, 1500 if big else 120):
        ctx.count('oracle_key_hist:%s' % c['op'])
        yield 'key_history', c


def oracle(ctx):
    """Like core.run_oracle_cases, but a recorded finding is reported through its first three failing
    inputs only: the generated stream hits the findings hundreds of times, and the core stops
    searching after 200 failures."""
    import json
    from harness import core
    known = core.load_known(PROP)
    seen = {}
    with contextlib.redirect_stdout(io.StringIO()):
        for op, inp in _oracle_cases(ctx):
            if len(ctx.failures) >= 200:
                break
            try:
                res = check_case(op, inp)
            except Exception as e:
                res = {'required': 'oracle evaluates', 'observed': 'exception %s: %s' % (type(e).__name__, e),
                       'sig': {'exception': type(e).__name__}}
            ctx.count('oracle:' + op)
            ctx.case((op, json.dumps(inp, sort_keys=True, default=str)))
            if res:
                sig = dict(res.get('sig') or {}, op=op)
                hit = next((k['id'] for k in known if core.matches(sig, k)), None)
                if hit is not None:
                    seen[hit] = seen.get(hit, 0) + 1
                    ctx.count('known_finding:' + hit)
                    if seen[hit] > 3:
                        continue
                ctx.fail(op, inp, res.get('required'), res.get('observed'), res.get('sig'))
            elif ctx.evaluations % 997 == 1:
                ctx.sample({'oracle': op, 'input': inp}, limit=12)
        _tick(ctx, 'oracle stream done')
        if len(ctx.failures) < 200:
            _order_stage(ctx, _order_pool(ctx))
        _tick(ctx, 'order stage done')


LEVEL_TEXT = ('Machine-checked Lean 4 theorems over an executable model of the validation, hole-filling and '
              'resampling code of datacollection.py: see Props/C13.lean (every clause of the statement is '
              'listed there as proved, proved in part, or compared only). The model is compared with the '
              'real classes on boundary-biased generated collections on every run.')
LEVEL_NOTE = ('Trusted: Lean kernel; axioms propext/Classical.choice/Quot.sound only; the hand-written model '
              '(tied by the correspondence run on generated inputs only); the C04/C08 models it builds on; '
              'float interpolation compared within 1e-9, theorems over exact rationals. The model describes '
              'the code with the ten fixes/C13_*.patch repairs.')
TECHNIQUE = ('Lean 4 proof (permutation/sortedness of merge sort and rotation, C04 membership predicate of the '
             'output period, equally spaced cyclic step grid + induction over the hole list, telescoping sums over Rat) about a model tied to datacollection.py by differential correspondence')
